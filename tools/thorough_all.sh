#!/bin/bash
# run from a snapshot of /verif: thorough tier of every check, sequentially
./setup.sh >/dev/null 2>&1
for id in C01 C02 C03 C04 C05 C06 C07 C08 C09 C10 C11 C12 C13 C14 C15 C16 C17 C18 C19 C20; do
  s=$(date +%s); out=$(./check $id --tier thorough --seed ${1:-0} 2>&1); rc=$?
  echo "== $id exit=$rc wall=$(( $(date +%s)-s ))s"; echo "$out" | grep -E "VIOLATION|INCONCLUSIVE|violated \[|HELD|evaluations=" | head -12
done
