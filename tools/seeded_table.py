#!/venv/bin/python
"""Print the markdown table of seeded changes (seeded/*/meta.json) for DESIGN.md section 13."""
import glob, json, os
VERIF = os.path.dirname(os.path.dirname(os.path.abspath(__file__)))
rows = []
for d in sorted(glob.glob(os.path.join(VERIF, "seeded", "*"))):
    m = json.load(open(os.path.join(d, "meta.json")))
    name = os.path.basename(d)
    checks = m.get("my_checks", {})
    caught = [f"{c} ({', '.join(v['mechanisms'][:2])})" for c, v in checks.items() if v["exit"] == 1]
    missed = [c for c, v in checks.items() if v["exit"] != 1]
    summ = (m.get("summary") or "").replace("\n", " ").replace("|", "/")
    needs = (m.get("needs") or "").replace("\n", " ").replace("|", "/")
    rows.append(f"| {name} | {summ[:230]} | {needs[:200]} | {'; '.join(caught) or '—'}"
                f"{(' (not by: ' + ', '.join(missed) + ')') if missed and caught else ''}"
                f"{'MISSED' if not caught else ''} |")
print("| seeded change | what it changes | what it needs to manifest | caught by (mechanisms) |")
print("|---|---|---|---|")
print("\n".join(rows))
