#!/bin/bash
# quick tier of every check over a range of seeds (used with `vp run`): prints only what is not HELD
./setup.sh >/dev/null 2>&1
for s in $(seq ${1:-1} ${2:-6}); do
  for id in C01 C02 C03 C04 C05 C06 C07 C08 C09 C10 C11 C12 C13 C14 C15 C16 C17 C18 C19 C20; do
    out=$(./check $id --tier quick --seed $s 2>&1); rc=$?   # (each shard picks its own hash seed)
    if [ $rc -ne 0 ]; then echo "== $id seed=$s exit=$rc"; echo "$out" | grep -E "violated \[|INCONCLUSIVE" | head -4; fi
  done
  echo "seed $s done"
done
