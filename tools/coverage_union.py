#!/venv/bin/python
"""tools/coverage_union.py [--run] : union of the statement lines executed by all 20 quick checks
(RV_COVERAGE=1); prints, per source file of swcgeom, the function-body statement lines no check
executed.  --run re-runs the checks first."""
import glob, json, os, subprocess, sys
V = os.path.dirname(os.path.dirname(os.path.abspath(__file__)))
sys.path.insert(0, V)
from rv import probes
ids = [f"C{i:02d}" for i in range(1, 21)]
if "--run" in sys.argv:
    for pid in ids:
        subprocess.run(["./check", pid, "--tier", "quick"], cwd=V,
                       env=dict(os.environ, RV_COVERAGE="1"), stdout=subprocess.DEVNULL)
hits = {}
for f in glob.glob(os.path.join(V, "out", "coverage", "*-quick-hits.json")):
    for rel, lines in json.load(open(f)).items():
        hits.setdefault(rel, set()).update(lines)
tot = cov = 0
for path in sorted(glob.glob("/repo/swcgeom/**/*.py", recursive=True)):
    rel = os.path.relpath(path, "/repo")
    stm = probes.statement_lines(path)
    src = open(path).read().splitlines()
    stm = {l for l in stm if not src[l - 1].strip().endswith("...") and "warnings.warn" not in src[l - 1]}
    h = hits.get(rel, set()) & stm
    tot += len(stm); cov += len(h)
    missed = sorted(stm - h)
    if not stm:
        continue
    print(f"== {rel}: {len(h)}/{len(stm)}")
    if "-v" in sys.argv:
        for ln in missed:
            print(f"     {ln}: {src[ln - 1].strip()[:120]}")
print(f"TOTAL {cov}/{tot}")
