#!/venv/bin/python
"""Regenerate MANIFEST.json from the check modules' own metadata (run from /verif)."""
import importlib
import json
import os
import sys

VERIF = os.path.dirname(os.path.dirname(os.path.abspath(__file__)))
sys.path.insert(0, VERIF)
from rv.core import bootstrap_repo  # noqa: E402

bootstrap_repo()

props = [json.loads(l) for l in open(os.path.join(VERIF, "properties.jsonl"))]
NOT_APPLICABLE = {}  # id -> reason (properties deliberately not claimed)

checks, na = [], []
for p in props:
    pid = p["id"]
    path = os.path.join(VERIF, "rv", "checks", pid.lower() + ".py")
    if pid in NOT_APPLICABLE:
        na.append({"property_id": pid, "reason": NOT_APPLICABLE[pid]})
        continue
    if not os.path.exists(path):
        na.append({"property_id": pid, "reason": "check not built yet (work in progress); "
                                                   "runtime monitoring applies, see DESIGN.md"})
        continue
    m = importlib.import_module(f"rv.checks.{pid.lower()}")
    checks.append({
        "property_id": pid,
        "quick_cmd": f"./check {pid} --tier quick",
        "thorough_cmd": f"./check {pid} --tier thorough",
        "evidence_file": f"/verif/evidence/{pid}.json",
        "replay_cmd_template": f"./check {pid} --replay {{path}}",
        "engine": "rv",
        "level_claimed": {
            "category": m.LEVEL,
            "text": m.LEVEL_TEXT,
            "design_ref": f"DESIGN.md section 5, {pid}",
        },
        "level_note": m.LEVEL_NOTE,
        "technique": m.TECHNIQUE,
    })

hooks_commits = []
manifest = {
    "version": 1,
    "setup_cmd": "./setup.sh",
    "hooks": {
        "guard": "SWCGEOM_VERIF",
        "enable": "no source hooks are needed: every monitor attaches from the harness "
                  "(sys.monitoring taps on the real code objects, icontract contracts and "
                  "wrappers re-bound at run time, sys.addaudithook); checks import swcgeom "
                  "from /repo's working tree in a fresh interpreter, always recompiling its "
                  "sources",
        "baseline_off_cmd": "cd /repo && /venv/bin/python -m pytest -ra -q -p no:cacheprovider "
                            "--timeout=900 --continue-on-collection-errors",
        "source_commits": hooks_commits,
        "add_only": True,
    },
    "engines": [{
        "name": "rv",
        "path": "/verif/rv",
        "serves_properties": [c["property_id"] for c in checks],
        "kind_free_text": "runtime monitoring: reference-model monitors, trace-specification "
                          "checkers over recorded call histories, invariant contracts and "
                          "source-free sys.monitoring/audit probes around the real functions, "
                          "driven by seeded hostile workloads in sharded fresh interpreters",
    }],
    "checks": checks,
    "not_applicable": na,
    "notes": "Exit codes: 0 held on everything explored; 1 VIOLATION (replay file under "
             "out/replays/<id>/); 2 INCONCLUSIVE (a deciding monitor was never reached, a shard "
             "died or timed out) — never folded into 0 or 1. VERIF_SEED / --seed select the "
             "workload; known_findings.json lists repaired defects (status fixed, suppress "
             "nothing) and would list open ones.",
}
with open(os.path.join(VERIF, "MANIFEST.json"), "w") as f:
    json.dump(manifest, f, indent=1)
    f.write("\n")
print(f"MANIFEST.json: {len(checks)} checks, {len(na)} not claimed")
