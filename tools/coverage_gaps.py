#!/venv/bin/python
"""tools/coverage_gaps.py <ID>... : run each check's quick tier with RV_COVERAGE=1 and print the
statement lines inside functions of the property's anchored files that no shard executed."""
import json, os, subprocess, sys
V = os.path.dirname(os.path.dirname(os.path.abspath(__file__)))
for pid in sys.argv[1:]:
    subprocess.run(["./check", pid, "--tier", "quick"], cwd=V, env=dict(os.environ, RV_COVERAGE="1"),
                   stdout=subprocess.DEVNULL)
    ev = json.load(open(os.path.join(V, "evidence", pid + ".json")))
    print(f"===== {pid}", ev["coverage"].get("anchor_line_coverage"))
    det = json.load(open(os.path.join(V, "out", "coverage", f"{pid}-quick.json")))
    for rel, d in det.items():
        src = open(os.path.join("/repo", rel)).read().splitlines()
        for ln in d["missed"]:
            print(f"  {rel}:{ln}: {src[ln - 1].strip()[:110]}")
