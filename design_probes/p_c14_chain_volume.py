import warnings, io
import numpy as np
from swcgeom.core import Tree
from swcgeom.analysis.volume import get_volume
from scipy.integrate import quad

def chain(xs, rs):
    n=len(xs)
    return Tree(n, type=np.array([1]+[3]*(n-1)), x=np.array(xs,dtype=np.float32), r=np.array(rs,dtype=np.float32))

def truth(xs, rs):
    # union of coaxial spheres & frusta
    def rho(z):
        m=0.0
        for x,r in zip(xs,rs):
            if abs(z-x)<r: m=max(m, np.sqrt(r*r-(z-x)**2))
        for (x0,r0),(x1,r1) in zip(zip(xs,rs), zip(xs[1:],rs[1:])):
            lo,hi=min(x0,x1),max(x0,x1)
            if lo<=z<=hi:
                t=(z-x0)/(x1-x0)
                m=max(m, r0+(r1-r0)*t)
        return m
    lo=min(x-r for x,r in zip(xs,rs)); hi=max(x+r for x,r in zip(xs,rs))
    pts=sorted(set(list(xs)+[x-r for x,r in zip(xs,rs)]+[x+r for x,r in zip(xs,rs)]))
    v,_=quad(lambda z: np.pi*rho(z)**2, lo, hi, points=pts, limit=500)
    return v

for xs,rs in [([0,2,4],[1,1,1]), ([0,1.5,3],[1,1,1]), ([0,1.2],[1,1]), ([0,2],[1.5,1]), ([0,2],[1,2]), ([0,3,5],[1,2,1.5])]:
    t=chain(xs,rs)
    print(xs,rs,'truth',truth(xs,rs), [get_volume(t,accuracy=a) for a in (1,2,3,5)])
