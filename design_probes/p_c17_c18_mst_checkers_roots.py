import warnings, traceback, sys, os, tempfile
from io import StringIO
import numpy as np
from swcgeom.core import Tree
from swcgeom.core import swc_utils as su
from swcgeom.transforms import *
from swcgeom.utils import DisjointSetUnion
warnings.simplefilter("ignore")
def tryit(name, f):
    try:
        print(name, '->', f())
    except BaseException as e:
        print(name, 'RAISED', type(e).__name__, str(e)[:200])
rng=np.random.default_rng(1)
pts=rng.normal(size=(30,3))*10
from scipy.sparse.csgraph import minimum_spanning_tree
from scipy.spatial.distance import cdist
D=cdist(pts,pts)
print('mst ref', minimum_spanning_tree(D).sum())
t=PointsToMST(furcations=-1)(pts); print('PointsToMST', t.length(), len(t))
t0=PointsToCuntzMST(bf=0.0, furcations=-1)(pts); t1=PointsToCuntzMST(bf=0.9, furcations=-1)(pts)
print('bf0 len', t0.length(), 'bf0.9 len', t1.length(), 'same parents', np.array_equal(t0.pid(), t1.pid()))
t2=PointsToMST(furcations=2, exclude_soma=False)(pts)
print('max children', np.bincount(t2.pid()[1:]).max())
t2=PointsToMST(furcations=1, exclude_soma=False)(pts)
print('max children k=1', np.bincount(t2.pid()[1:]).max())
# checkers
def topo(p): return (np.arange(len(p)), np.array(p))
print('bifurcate chain', su.is_bifurcate(topo([-1,0,1])), 'Y', su.is_bifurcate(topo([-1,0,1,1])), 'tri', su.is_bifurcate(topo([-1,0,1,1,1])), 'root3', su.is_bifurcate(topo([-1,0,0,0])), 'root3 noexcl', su.is_bifurcate(topo([-1,0,0,0]), exclude_root=False), 'Y noexcl', su.is_bifurcate(topo([-1,0,1,1]), exclude_root=False))
import pandas as pd
def df(p):
    n=len(p); return pd.DataFrame(dict(id=np.arange(n), type=1, x=np.arange(n)*1., y=0., z=0., r=1., pid=np.array(p)))
print('single_root tree', su.is_single_root(df([-1,0,1])), 'forest', su.is_single_root(df([-1,0,-1,2])))
print('sorted forest unsorted 2nd', su.is_sorted(topo([-1,0,-1,4,2])))
print('sorted unsorted', su.is_sorted(topo([-1,2,0])))
print('has_cyclic tree', su.has_cyclic(topo([-1,0,1])), 'cyc', su.has_cyclic(topo([-1,2,1])), 'self', su.has_cyclic(topo([-1,1])))
# fix roots
s="1 1 0 0 0 1 -1\n2 3 1 0 0 1 1\n3 3 5 0 0 1 -1\n4 3 6 0 0 1 3\n"
for fr in [False,'somas','nearest']:
    tryit('fix_roots %s'%fr, lambda: su.read_swc(StringIO(s), fix_roots=fr)[0].to_dict('list'))
s="5 1 0 0 0 1 -1\n6 3 1 0 0 1 5\n7 3 5 0 0 1 -1\n8 3 6 0 0 1 7\n"
for fr in [False,'somas','nearest']:
    tryit('fix_roots base5 %s'%fr, lambda: su.read_swc(StringIO(s), fix_roots=fr)[0].to_dict('list'))
# id base 1 with second root: reset_index shifts pid -1 -> -2?
