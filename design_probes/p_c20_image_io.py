import warnings, os, tempfile
import numpy as np
from swcgeom.images.io import save_tiff, read_imgs
warnings.simplefilter("error")
def tryit(name, f):
    try:
        print(name, '->', f())
    except BaseException as e:
        print(name, 'RAISED', type(e).__name__, str(e)[:300])
d=tempfile.mkdtemp()
rng=np.random.default_rng(0)
def rt(shape, dtype, read_dtype=None, save_dtype=None, ext='.tif'):
    if np.issubdtype(dtype, np.floating): a=rng.random(shape).astype(dtype)
    else: a=rng.integers(0, np.iinfo(dtype).max, size=shape, dtype=dtype)
    f=os.path.join(d,'a'+ext)
    if ext=='.tif':
        kw={} if save_dtype is None else dict(dtype=save_dtype)
        save_tiff(a,f,**kw)
    elif ext=='.npy': np.save(f,a)
    else:
        import nrrd; nrrd.write(f,a)
    kw={} if read_dtype is None else dict(dtype=read_dtype)
    b=read_imgs(f,**kw).get_full()
    a4=a if a.ndim==4 else a[...,None]
    return b.shape, b.dtype, (b.shape==a4.shape and np.allclose(b, a4 if read_dtype==dtype else (a4/np.iinfo(dtype).max if not np.issubdtype(dtype,np.floating) else a4), atol=1e-6))
for shape in [(5,4,3),(5,4,3,1),(5,4,3,3),(1,4,3),(5,1,3),(5,4,1),(1,1,1),(5,4,1,3),(2,3,4,3),(3,3,3),(3,3,3,3),(4,3,3),(3,4,3,3)]:
    tryit('u8 %s'%(shape,), lambda: rt(shape,np.uint8))
tryit('f32', lambda: rt((5,4,3),np.float32))
tryit('u16', lambda: rt((5,4,3),np.uint16))
tryit('u8 read u8', lambda: rt((5,4,3),np.uint8,read_dtype=np.uint8))
tryit('f32 read u8', lambda: rt((5,4,3),np.float32,read_dtype=np.uint8))
tryit('f32 save u8 read f32', lambda: rt((5,4,3),np.float32,save_dtype=np.uint8))
tryit('npy u8', lambda: rt((5,4,3),np.uint8,ext='.npy'))
tryit('nrrd u8', lambda: rt((5,4,3),np.uint8,ext='.nrrd'))
tryit('nrrd f32 4d', lambda: rt((5,4,3,3),np.float32,ext='.nrrd'))
