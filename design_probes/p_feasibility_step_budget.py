import sys, warnings, numpy as np, time
warnings.simplefilter("ignore")
from swcgeom.core import swc_utils as su
from swcgeom.core.swc_utils import base
mon=sys.monitoring; TID=mon.DEBUGGER_ID; mon.use_tool_id(TID,'rv-budget')
class StepBudgetExceeded(Exception): pass
state={'n':0,'budget':0}
def on_line(code, line):
    state['n']+=1
    if state['n']>state['budget']:
        raise StepBudgetExceeded(f"{code.co_qualname} > {state['budget']} line events")
mon.register_callback(TID, mon.events.LINE, on_line)
code=base._traverse_dfs.__code__
def run(p):
    state['n']=0; state['budget']=1000*(len(p)+1)**2
    mon.set_local_events(TID, code, mon.events.LINE)
    try:
        return su.is_sorted((np.arange(len(p)), np.array(p)))
    except StepBudgetExceeded as e:
        return 'DIVERGED: '+str(e)
    finally:
        mon.set_local_events(TID, code, 0)
t0=time.time()
print(run([-1,0,1]), state['n'])
print(run([1,0]), state['n'])
print(run([2,0,1,-1]), state['n'])
print('%.3fs'%(time.time()-t0))
# overhead on a big traversal
n=100000; topo=(np.arange(n), np.arange(-1,n-1))
t0=time.time(); su.traverse(topo, leave=lambda i,c: 0); a=time.time()-t0
state['n']=0; state['budget']=10**12; mon.set_local_events(TID, code, mon.events.LINE)
t0=time.time(); su.traverse(topo, leave=lambda i,c: 0); b=time.time()-t0
print('overhead x%.1f'%(b/a), state['n'])
