import warnings, numpy as np, sys, collections
from swcgeom.core import *
from swcgeom.analysis import *
from swcgeom.analysis.lmeasure import LMeasure
warnings.simplefilter("ignore")
rng=np.random.default_rng(int(sys.argv[1]) if len(sys.argv)>1 else 0)
def rand_binary(n, root_kids=2):
    pid=[-1]; cnt=[0]
    for i in range(1,n):
        while True:
            p=int(rng.integers(0,i))
            if cnt[p]<2: break
        pid.append(p); cnt[p]+=1; cnt.append(0)
    return pid
def kids(pid):
    k=[[] for _ in pid]
    for i,p in enumerate(pid):
        if p>=0: k[p].append(i)
    return k
def ang(a,b):
    c=np.dot(a,b)/(np.linalg.norm(a)*np.linalg.norm(b)); return np.degrees(np.arccos(np.clip(c,-1,1)))
bad=collections.Counter(); tot=collections.Counter()
def chk(name, got, exp, tol=1e-4):
    tot[name]+=1
    got=np.asarray(got,dtype=float); exp=np.asarray(exp,dtype=float)
    if got.shape!=exp.shape or not np.allclose(got,exp,rtol=tol,atol=tol): bad[name]+=1; return False
    return True
lm=LMeasure()
for it in range(150):
    n=int(rng.integers(3,40)); pid=rand_binary(n)
    if len(kids(pid)[0])<2: continue
    xyz=(rng.normal(size=(n,3))*10+rng.normal(size=3)*50).astype(np.float32)
    t=Tree(n,pid=np.array(pid),type=np.array([1]+[3]*(n-1)),x=xyz[:,0],y=xyz[:,1],z=xyz[:,2],r=rng.uniform(.1,2,n))
    X=xyz.astype(float); k=kids(pid)
    seg=lambda a,b: np.linalg.norm(X[a]-X[b])
    L=sum(seg(i,p) for i,p in enumerate(pid) if p>=0)
    fe=extract_feature(t)
    chk('length', fe.get('length'), [L]); chk('Tree.length', t.length(), L)
    crit=[u for u in range(n) if u==0 or len(k[u])!=1]
    # branches
    brs=[]
    for u in crit:
        if u==0: continue
        ch=[u]; w=pid[u]
        while w not in crit: ch.append(w); w=pid[w]
        ch.append(w); brs.append(ch[::-1])
    bl=[sum(seg(a,b) for a,b in zip(b[:-1],b[1:])) for b in brs]
    chk('branch_length', np.sort(fe.get('branch_length')), np.sort(bl))
    bt=[(seg(b[0],b[-1])/l if l>0 else 1) for b,l in zip(brs,bl)]
    chk('branch_tortuosity', np.sort(fe.get('branch_tortuosity')), np.sort(bt))
    tips=[u for u in range(n) if not k[u]]
    def path(u):
        p=[u]
        while pid[p[-1]]>=0: p.append(pid[p[-1]])
        return p[::-1]
    pl=[sum(seg(a,b) for a,b in zip(path(u)[:-1],path(u)[1:])) for u in tips]
    chk('path_length', np.sort(fe.get('path_length')), np.sort(pl))
    chk('node_radial', fe.get('node_radial_distance'), [seg(u,0) for u in range(n)])
    chk('tip_radial', np.sort(fe.get('tip_radial_distance')), np.sort([seg(u,0) for u in tips]))
    chk('counts', [fe.get('node_count')[0],fe.get('tip_count')[0],fe.get('furcation_count')[0]], [n,len(tips),sum(len(c)>=2 for c in k)])
    # node_branch_order: depth in branch tree among critical nodes
    depth={0:0}
    for b in sorted(brs,key=lambda b: len(path(b[-1]))): depth[b[-1]]=depth[b[0]]+1
    chk('node_branch_order', np.sort(fe.get('node_branch_order')), np.sort([depth[u] for u in crit]))
    # sholl
    d=np.array([seg(u,0) for u in range(n)]); 
    s=Sholl(t)
    for r in rng.uniform(0,d.max()*1.1,size=5):
        if np.min(np.abs(d-r))<1e-3: continue
        exp=sum(1 for i,p in enumerate(pid) if p>=0 and ((d[p]<=r<d[i]) or (d[i]<=r<d[p])))
        chk('sholl', s.intersect(float(r)), exp)
    rs=Sholl.get_rs(s.rmax, 7); got=s.get(7)
    exp=[sum(1 for i,p in enumerate(pid) if p>=0 and ((d[p]<=r<d[i]) or (d[i]<=r<d[p]))) for r in rs]
    if np.min(np.abs(d[:,None]-rs[None,:]))>1e-3: chk('sholl_steps', got, exp)
    # lmeasure
    chk('stems', lm.n_stems(t), len(k[0])); chk('bifs', lm.n_bifs(t), sum(len(c)>=2 for c in k)); chk('nbranch', lm.n_branch(t), len(brs)); chk('ntips', lm.n_tips(t), len(tips))
    for u in range(n):
        nd=t.node(u)
        chk('path_distance', lm.path_distance(nd), sum(seg(a,b) for a,b in zip(path(u)[:-1],path(u)[1:])))
        chk('euc', lm.euc_distance(nd), seg(u,0))
        chk('order', lm.branch_order(nd), sum(len(k[w])>=2 for w in path(u)))
        def ntips(w): return 1 if not k[w] else sum(ntips(c) for c in k[w])
        chk('termdeg', lm.terminal_degree(nd), ntips(u))
        if len(k[u])==2:
            a,b=k[u]; n1,n2=ntips(a),ntips(b)
            chk('asym', lm.partition_asymmetry(nd), 0 if n1==n2 else abs(n1-n2)/(n1+n2-2))
            chk('ampl_local', lm.bif_ampl_local(nd), ang(X[a]-X[u],X[b]-X[u]), 1e-3)
            def remote(c):
                while len(k[c])==1: c=k[c][0]
                return c
            chk('ampl_remote', lm.bif_ampl_remote(nd), ang(X[remote(a)]-X[u],X[remote(b)]-X[u]),1e-3)
            if pid[u]>=0:
                v=X[pid[u]]-X[u]
                chk('tilt_local', lm.bif_tilt_local(nd), min(ang(v,X[a]-X[u]),ang(v,X[b]-X[u])),1e-3)
                chk('tilt_remote', lm.bif_tilt_remote(nd), min(ang(v,X[remote(a)]-X[u]),ang(v,X[remote(b)]-X[u])),1e-3)
    for b in t.get_branches():
        ids=[int(i) for i in b.origin_id()]; l=sum(seg(a,c) for a,c in zip(ids[:-1],ids[1:]))
        chk('frag', lm.fragmentation(b), len(ids)-1); chk('contraction', lm.contraction(b), seg(ids[0],ids[-1])/l); chk('bpl', lm.branch_pathlength(b), l)
print(dict(tot)); print(dict(bad))
