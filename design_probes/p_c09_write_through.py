import warnings, numpy as np
from swcgeom.core import *
warnings.simplefilter("ignore")
t=Tree(5, pid=np.array([-1,0,1,1,3]), x=np.arange(5.)+10, type=np.array([1,3,3,3,3]))
p=t.get_paths()[0]
print(p.origin_id())
p[0].x=77.0
print('path-node write visible in tree?', t.x()[0], 'in path?', p.x()[0])
b=t.get_branches()[0]; b[0].x=55.; print('branch-node write', t.x()[b.origin_id()[0]])
seg=t.get_segments()[0]; seg[0].x=33.; print('seg-node write', t.x()[0])
n=t[1]; print(type(n.parent()), n.parent().id, [c.id for c in n.children()])
d=p.detach(); print(type(d), d.id(), d.origin_id(), d.x()); d.attach.ndata['x'][0]=1; print(t.x()[0])
c=seg.detach(); print(c.id(), c.x(), c.origin_id())
bd=b.detach(); print(bd.id(), bd.x(), [list(s.x()) for s in bd.get_segments()])
print(np.shares_memory(bd.attach.ndata['x'], t.ndata['x']))
