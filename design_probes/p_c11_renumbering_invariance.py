import warnings, numpy as np, sys, collections
from swcgeom.core import *
from swcgeom.analysis import *
from swcgeom.analysis.volume import get_volume
warnings.simplefilter("ignore")
rng=np.random.default_rng(int(sys.argv[1]) if len(sys.argv)>1 else 0)
res=collections.Counter()
for it in range(150):
    n=int(rng.integers(2,40)); pid=[-1]+[int(rng.integers(0,i)) for i in range(1,n)]
    if sum(1 for p in pid if p==0)<2 and n>2: pid[2]=0
    xyz=rng.normal(size=(n,3))*10+rng.normal(size=3)*30; r=rng.uniform(.2,2,n); ty=np.concatenate([[1],rng.integers(2,5,size=n-1)])
    t=Tree(n,pid=np.array(pid),type=ty,x=xyz[:,0],y=xyz[:,1],z=xyz[:,2],r=r)
    perm=np.array([0]+list(1+rng.permutation(n-1)))  # old->new
    inv=np.argsort(perm)
    pid2=np.array([ -1 if pid[o]<0 else perm[pid[o]] for o in inv])
    t2=Tree(n,pid=pid2,type=ty[inv],x=xyz[inv,0],y=xyz[inv,1],z=xyz[inv,2],r=r[inv])
    try:
        f1,f2=extract_feature(t),extract_feature(t2)
    except Exception as e:
        res['exc '+type(e).__name__]+=1; continue
    for k in ['length','node_count','furcation_count','tip_count','branch_length','branch_tortuosity','path_length','path_tortuosity','node_radial_distance','node_branch_order','tip_radial_distance','furcation_radial_distance']:
        try:
            a,b=np.sort(f1.get(k)),np.sort(f2.get(k))
            ok=a.shape==b.shape and np.allclose(a,b,rtol=1e-4,atol=1e-4)
        except Exception as e:
            ok=False; res['exc %s %s'%(k,type(e).__name__)]+=1
        res[(k,ok)]+=1
    rs=np.linspace(1,40,9)
    d=np.linalg.norm(xyz-xyz[0],axis=1)
    if np.min(np.abs(d[:,None]-rs[None,:]))>1e-3:
        res[('sholl', bool(np.array_equal(Sholl(t).get(rs),Sholl(t2).get(rs))))]+=1
    for a in (1,2,3):
        v1,v2=get_volume(t,accuracy=a),get_volume(t2,accuracy=a); res[('vol%d'%a, bool(abs(v1-v2)<=1e-4*abs(v1)))]+=1
for k,v in sorted(res.items(),key=str): print(k,v)
