import sys; sys.path.insert(0,'/verif/.deps')
import icontract, numpy as np, warnings
warnings.simplefilter("ignore")
import swcgeom
from swcgeom.core import Tree, sort_tree
from swcgeom.utils import dsu
class InvBroken(AssertionError): pass
def ranks_ok(self):
    return len(self.element_parent)==len(self.rank) and all(0<=p<len(self.rank) for p in self.element_parent)
C=icontract.invariant(ranks_ok, error=lambda self: InvBroken("dsu"))(dsu.DisjointSetUnion)
print(C is dsu.DisjointSetUnion)
from swcgeom.core import swc_utils as su
print(su.has_cyclic((np.arange(3), np.array([-1,0,1]))))
# sys.monitoring
mon=sys.monitoring
TID=mon.PROFILER_ID
mon.use_tool_id(TID,"rv")
from swcgeom.utils.file import FileReader
ev=[]
def on_ret(code, off, rv):
    f=sys._getframe(1)
    ev.append((code.co_qualname, f.f_locals.get('exc_type'), rv))
mon.register_callback(TID, mon.events.PY_RETURN, on_ret)
mon.set_local_events(TID, FileReader.__exit__.__code__, mon.events.PY_RETURN)
from io import StringIO
try:
    df,c=su.read_swc(StringIO("1 1 0 0 0 1 -1\nxx\n2 1 0 0 0 1 1\n")); print(len(df))
except Exception as e: print('raised', e)
print(ev)
