import warnings, numpy as np, sys, collections
from swcgeom.core import *
from swcgeom.core import swc_utils as su
warnings.simplefilter("ignore")
rng=np.random.default_rng(0)
class Tok:
    __slots__=('k','n')
    def __init__(s,k,n): s.k=k; s.n=n
def check(pid, start, ev, ret, has_enter, has_leave):
    n=len(pid); k=[[] for _ in pid]
    for i,p in enumerate(pid):
        if p>=0: k[p].append(i)
    D=set(); st=[start]
    while st:
        u=st.pop(); D.add(u); st.extend(k[u])
    ent={}; lev={}; pos={}
    for t,(kind,node,arg,tok) in enumerate(ev):
        d=ent if kind=='enter' else lev
        if node in d: return 'dup '+kind
        d[node]=(t,arg,tok)
    if has_enter:
        if set(ent)!=D: return 'enter set'
        for v in D:
            t,arg,tok=ent[v]
            if v==start:
                if arg is not None: return 'start arg'
            else:
                pt,parg,ptok=ent[pid[v]]
                if not (pt<t): return 'enter order'
                if arg is not ptok: return 'enter arg identity'
                if has_leave and not t<lev[pid[v]][0]: return 'enter after parent leave'
    if has_leave:
        if set(lev)!=D: return 'leave set'
        for v in D:
            t,arg,tok=lev[v]
            if sorted(map(id,arg))!=sorted(id(lev[c][2]) for c in k[v]): return 'leave children values'
            if any(lev[c][0]>t for c in k[v]): return 'leave order'
            if has_enter and not ent[v][0]<t: return 'leave before enter'
        if ret is not lev[start][2]: return 'return value'
    else:
        if ret is not None: return 'return not None'
    return None
bad=collections.Counter(); tot=0
for it in range(300):
    n=int(rng.integers(1,30)); pid=[-1]+[int(rng.integers(0,i)) for i in range(1,n)]
    perm=[0]+list(1+rng.permutation(n-1)); new=[0]*n
    for old,p in enumerate(pid): new[perm[old]]=-1 if p<0 else perm[p]
    pid=new
    t=Tree(n,pid=np.array(pid))
    for mode in ['e','l','el']:
        for api in ['su','tree','node']:
            start=int(rng.integers(0,n)); ev=[]
            def enter(nd,arg):
                i=nd if api=='su' else nd.id
                tok=Tok('e',i); ev.append(('enter',int(i),arg,tok)); return tok
            def leave(nd,arg):
                i=nd if api=='su' else nd.id
                tok=Tok('l',i); ev.append(('leave',int(i),list(arg),tok)); return tok
            kw={}
            if 'e' in mode: kw['enter']=enter
            if 'l' in mode: kw['leave']=leave
            if api=='su': ret=su.traverse((t.id(),t.pid()), root=start, **kw)
            elif api=='tree': ret=t.traverse(root=start, **kw)
            else: ret=t.node(start).traverse(**kw)
            r=check(pid,start,ev,ret,'e' in mode,'l' in mode); tot+=1
            if r: bad[r]+=1
print(tot, dict(bad))
