import warnings, numpy as np, sys
from swcgeom.core import Tree
from swcgeom.transforms import ToImageStack
from sdflit import RangeSampler
warnings.simplefilter("ignore")
import os
t=Tree(3,pid=np.array([-1,0,1]),x=np.array([0.3,5.2,9.7]),y=np.array([0.1,3.3,2.2]),z=np.array([0.2,1.1,4.4]),r=np.array([1.,1.5,.8]),type=np.array([1,3,3]))
ok=[];bad=[]
for res in np.round(np.arange(0.25,2.51,0.05),2).tolist()+[1/3,2/3,0.7,1.1,0.123,np.pi/3]:
    try:
        img=ToImageStack(res)(t); ok.append((res,img.shape))
    except BaseException as e:
        bad.append(res)
print('ok',[r for r,_ in ok]); print('panic',bad)
