import warnings, sys
import numpy as np
from scipy.integrate import quad
from swcgeom.utils import VolSphere, VolFrustumCone
warnings.simplefilter("ignore")
rng=np.random.default_rng(int(sys.argv[1]) if len(sys.argv)>1 else 0)
def randdir():
    v=rng.normal(size=3); return v/np.linalg.norm(v)
def integ(f, a, b, pts):
    pts=sorted(p for p in set(pts) if a<p<b)
    v,err=quad(f,a,b,points=pts or None,limit=400, epsabs=1e-13, epsrel=1e-12)
    return v
worst=[]
for it in range(3000):
    mode=rng.integers(0,6)
    r1=float(10**rng.uniform(-1.5,1.5)); 
    r2=float(r1*10**rng.uniform(-1.5,1.5)) if rng.random()<0.8 else r1
    h=float(r1*10**rng.uniform(-1.5,1.5))
    if rng.random()<0.15: h=r1
    if rng.random()<0.1: h=r2
    c=rng.normal(size=3)*10**rng.uniform(-1,2); u=randdir()
    if mode<=1:
        # sphere-sphere
        d=h if rng.random()<0.7 else rng.choice([r1+r2, abs(r1-r2), 0.0, (r1+r2)*0.999999, abs(r1-r2)*1.000001])
        s1=VolSphere(c,r1); s2=VolSphere(c+u*d,r2)
        got_i=s1.intersect(s2).get_volume(); got_u=s1.union(s2).get_volume()
        def rho2(z):
            a=r1*r1-z*z; b=r2*r2-(z-d)**2
            return max(0.0,min(a,b))
        lo=max(-r1,d-r2); hi=min(r1,d+r2)
        ti=np.pi*integ(rho2,lo,hi,[ (d*d+r1*r1-r2*r2)/(2*d) if d>0 else 0]) if hi>lo else 0.0
        tu=4/3*np.pi*(r1**3+r2**3)-ti
        for nm,g,t in [('ss_i',got_i,ti),('ss_u',got_u,tu)]:
            scale=4/3*np.pi*min(r1,r2)**3
            worst.append((abs(g-t)/max(scale,1e-300), nm, dict(r1=r1,r2=r2,d=d), g, t))
    else:
        # sphere (at c, r1) with frustum (c,r1)->(c+u*h, r2); optionally sphere at the far end
        far = rng.random()<0.3
        fc=VolFrustumCone(c,r1,c+u*h,r2) if not far else VolFrustumCone(c+u*h,r2,c,r1)
        s=VolSphere(c,r1)
        got_i=s.intersect(fc).get_volume(); got_u=s.union(fc).get_volume()
        def a2(z):
            rs=r1*r1-z*z; rf=(r1+(r2-r1)*z/h)**2
            return max(0.0,min(rs,rf))
        hi=min(r1,h)
        tstar=2*r1*(r1-r2)/((r1-r2)**2+h*h) if r1>r2 else None
        ti=np.pi*integ(a2,0,hi,[tstar*h] if tstar else [])
        vf=np.pi*h*(r1*r1+r1*r2+r2*r2)/3
        tu=4/3*np.pi*r1**3+vf-ti
        for nm,g,t in [('sf_i',got_i,ti),('sf_u',got_u,tu)]:
            scale=min(4/3*np.pi*r1**3, vf)
            worst.append((abs(g-t)/scale, nm, dict(r1=r1,r2=r2,h=h,far=far), g, t))
worst.sort(key=lambda x:-x[0])
for w in worst[:12]: print(w)
