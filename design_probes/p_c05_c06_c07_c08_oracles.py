import warnings, numpy as np, sys, itertools, collections
from swcgeom.core import *
from swcgeom.core import swc_utils as su
from swcgeom.transforms import *
warnings.simplefilter("ignore")
rng=np.random.default_rng(int(sys.argv[1]) if len(sys.argv)>1 else 0)
def rand_pid(n, kind):
    if kind=='chain': return [-1]+list(range(n-1))
    if kind=='star': return [-1]+[0]*(n-1)
    if kind=='stem':
        k=min(n-1, int(rng.integers(1,4))); pid=[-1]+list(range(k))
        for i in range(k+1,n): pid.append(int(rng.integers(k,i)))
        return pid
    if kind=='binary':
        pid=[-1]; cnt=[0]
        for i in range(1,n):
            while True:
                p=int(rng.integers(0,i))
                if cnt[p]<2: break
            pid.append(p); cnt[p]+=1; cnt.append(0)
        return pid
    return [-1]+[int(rng.integers(0,i)) for i in range(1,n)]
def permute(pid):
    n=len(pid); perm=[0]+list(1+rng.permutation(n-1)) # old->new
    new=[0]*n
    for old,p in enumerate(pid): new[perm[old]]= -1 if p<0 else perm[p]
    return new
def mk(pid, integer=False):
    n=len(pid)
    xyz=rng.integers(-20,20,size=(n,3)).astype(float) if integer else rng.normal(size=(n,3))*10
    return Tree(n, pid=np.array(pid,dtype=np.int32), type=rng.integers(1,5,size=n).astype(np.int32), x=xyz[:,0],y=xyz[:,1],z=xyz[:,2], r=(np.arange(n)+1)/8.0)
def kids(pid):
    k=[[] for _ in pid]
    for i,p in enumerate(pid):
        if p>=0: k[p].append(i)
    return k
def desc(k, v):
    out=[];st=[v]
    while st:
        u=st.pop(); out.append(u); st.extend(k[u])
    return set(out)
tag=lambda t: [float(v) for v in t.r()]
def rel(t):
    tg=tag(t); return {tg[i]:(tg[p] if p>=0 else None) for i,p in enumerate(t.pid())}
bad=collections.Counter(); tot=collections.Counter()
for it in range(400):
    n=int(rng.integers(1,25)); kind=rng.choice(['chain','star','stem','binary','rand'])
    pid=rand_pid(n,kind)
    if rng.random()<0.5: pid=permute(pid)
    t=mk(pid, integer=rng.random()<0.5); k=kids(pid); R=rel(t)
    # subtree
    v=int(rng.integers(0,n)); m=[]
    s=get_subtree(t,v,out_mapping=m); tot['subtree']+=1
    exp={tag(t)[u] for u in desc(k,v)}
    ok = set(tag(s))==exp and all((rel(s)[a]==R[a]) or (a==tag(t)[v] and rel(s)[a] is None) for a in tag(s)) and [tag(t)[j] for j in m]==tag(s) and s.pid()[0]==-1
    if not ok: bad['subtree']+=1
    # to_subtree
    if n>1:
        rem=[int(x) for x in rng.choice(np.arange(1,n), size=int(rng.integers(0,min(n-1,4)+1)), replace=False)]
        s=to_subtree(t,rem); tot['to_subtree']+=1
        gone=set().union(*[desc(k,u) for u in rem]) if rem else set()
        exp={tag(t)[u] for u in range(n) if u not in gone}
        ok = set(tag(s))==exp and all(rel(s)[a]==R[a] for a in tag(s))
        if not ok: bad['to_subtree']+=1; print('to_subtree', pid, rem)
    # sort
    try:
        s=sort_tree(t); tot['sort']+=1
        ok = rel(s)==R and all(p<i for i,p in enumerate(s.pid())) and sorted(zip(tag(s),s.type(),s.x()))==sorted(zip(tag(t),t.type(),t.x()))
        if not ok: bad['sort']+=1
    except Exception as e: bad['sort_exc']+=1; print('sort exc', pid, e)
    # redirect
    v=int(rng.integers(0,n)); 
    for srt in [True,False]:
        s=redirect_tree(t,v,sort=srt); tot['redirect']+=1
        und=lambda r:{frozenset((a,b)) for a,b in r.items() if b is not None}
        ok = und(rel(s))==und(R) and [a for a,b in rel(s).items() if b is None]==[tag(t)[v]]
        ty=dict(zip(tag(t),t.type())); ty2=dict(zip(tag(s),s.type()))
        a,b=tag(t)[0],tag(t)[v]; ety=dict(ty); ety[a],ety[b]=ty[b],ty[a]
        ok = ok and ty2==ety
        if not ok: bad['redirect']+=1; print('redirect', pid, v, srt)
    # furcation order
    k_=int(rng.integers(1,4)); s=CutByFurcationOrder(k_)(t); tot['furc']+=1
    lvl={0:0}; order=[0]; 
    st=[0]
    while st:
        u=st.pop()
        for c in k[u]:
            lvl[c]=lvl[u]+(1 if len(k[c])>=2 else 0); st.append(c)
    exp={tag(t)[u] for u in range(n) if lvl[u]<k_}
    if set(tag(s))!=exp: bad['furc']+=1; print('furc',pid,k_)
    # CutByType
    ty=int(rng.choice(t.type())); s=CutByType(ty)(t); tot['type']+=1
    keep=set()
    for u in range(n):
        if t.type()[u]==ty:
            w=u
            while w>=0: keep.add(w); w=pid[w]
    if set(tag(s))!={tag(t)[u] for u in keep}: bad['type']+=1; print('type',pid,ty)
    # short tip
    if True:
        xyz=t.xyz().astype(float)
        cands=[]
        for f in range(n):
            if len(k[f])>=2:
                for c in k[f]:
                    L=np.linalg.norm(xyz[c]-xyz[f]); w=c; chain=[c]; okc=True
                    while len(k[w])==1:
                        nx=k[w][0]; L+=np.linalg.norm(xyz[nx]-xyz[w]); w=nx; chain.append(w)
                    if len(k[w])==0: cands.append((L,chain))
        if cands:
            th=float(rng.choice([c[0] for c in cands]))+ (0.01 if rng.random()<0.5 else -0.01)
            s=CutShortTipBranch(th)(t); tot['tip']+=1
            gone=set().union(*[set(ch) for L,ch in cands if L<=th]) if any(L<=th for L,ch in cands) else set()
            if set(tag(s))!={tag(t)[u] for u in range(n) if u not in gone}: bad['tip']+=1; print('tip',pid,th)
    # branches/paths
    try:
        brs={tuple(int(i) for i in b.origin_id()) for b in t.get_branches()}; tot['branches']+=1
        crit={u for u in range(n) if u==0 or len(k[u])!=1}
        exp=set()
        for u in range(1,n):
            if u in crit:
                ch=[u]; w=pid[u]
                while w not in crit: ch.append(w); w=pid[w]
                ch.append(w); exp.add(tuple(reversed(ch)))
        if brs!=exp: bad['branches:'+('1child' if len(k[0])==1 else 'other')]+=1
    except Exception as e: bad['branches_exc']+=1
print(dict(tot)); print(dict(bad))
