import warnings, io, traceback
import numpy as np
from swcgeom.core import Tree, swc_utils
from swcgeom.core.swc_utils import read_swc
warnings.simplefilter("ignore")

def mk(pid, **kw):
    n=len(pid)
    rng=np.random.default_rng(0)
    return Tree(n, pid=np.array(pid,dtype=np.int32), type=np.array([1]+[3]*(n-1)),
                x=rng.normal(size=n)*10, y=rng.normal(size=n)*10, z=rng.normal(size=n)*10, r=rng.uniform(0.1,2,size=n), **kw)

t=mk([-1,0,1,1,3])
s=t.to_swc()
print(repr(s))
t2=Tree.from_swc(io.StringIO(s))
print('comments', t2.comments)
s2=t2.to_swc()
t3=Tree.from_swc(io.StringIO(s2))
print('comments3', t3.comments)
# whitespace comment
t.comments=["hello","   ","world"]
s=t.to_swc(source=False)
print(repr(s[:120]))
t4=Tree.from_swc(io.StringIO(s)); print('c4',t4.comments)
# malformed line
bad="1 1 0 0 0 1 -1\n2 1 1 0 0 1 1\nfoo bar\n3 1 2 0 0 1 2\n"
try:
    df,c=read_swc(io.StringIO(bad)); print('BAD accepted', len(df))
except Exception as e: print('raised',type(e),e)
bad="1 1 0 0 0 1 -1\n2 1 1 0 0 1\n3 1 2 0 0 1 2\n"
try:
    df,c=read_swc(io.StringIO(bad)); print('BAD2 accepted', len(df), df)
except Exception as e: print('raised',type(e),e)
try:
    df,c=read_swc(io.BytesIO(b"1 1 0 0 0 1 -1\n# \xff\xfe caf\xe9\n2 1 1 0 0 1 1\n")); print('BAD3 accepted', len(df), c)
except Exception as e: print('raised',type(e),e)
try:
    t=Tree.from_swc("/nonexistent/file.swc"); print("nonexistent accepted", len(t))
except Exception as e: print('raised',type(e),e)
