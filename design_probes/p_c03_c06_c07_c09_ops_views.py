import warnings
from io import StringIO
import numpy as np
from swcgeom.core import *
from swcgeom.core import swc_utils as su
from swcgeom.transforms import *
warnings.simplefilter("ignore")
def tryit(name, f):
    try:
        print(name, '->', f())
    except BaseException as e:
        print(name, 'RAISED', type(e).__name__, str(e)[:300])
def mk(pid, types=None, seed=0, **kw):
    n=len(pid); rng=np.random.default_rng(seed)
    return Tree(n, pid=np.array(pid,dtype=np.int32), type=np.array(types if types is not None else [1]+[3]*(n-1)),
                x=rng.normal(size=n)*10, y=rng.normal(size=n)*10, z=rng.normal(size=n)*10, r=rng.uniform(0.1,2,size=n), **kw)
def show(t): return dict(id=t.id().tolist(), pid=t.pid().tolist(), type=t.type().tolist(), x=np.round(t.x(),2).tolist(), dt=[str(t.ndata[k].dtype) for k in t.ndata])
t=mk([-1,0,1,1,0,4,4,6], types=[1,2,2,2,3,3,3,3])
print(show(t))
tryit('sort', lambda: show(sort_tree(t)))
m=[]
tryit('subtree 4', lambda: (show(get_subtree(t,4,out_mapping=m)), m))
tryit('to_subtree rm 1,6', lambda: show(to_subtree(t,[1,6])))
tryit('to_subtree rm root', lambda: show(to_subtree(t,[0])))
tryit('redirect 6', lambda: show(redirect_tree(t,6)))
tryit('redirect 6 nosort', lambda: show(redirect_tree(t,6,sort=False)))
t2=mk([-1,0,0],seed=5)
tryit('cat', lambda: show(cat_tree(t,t2,3,1)))
tryit('cat notranslate', lambda: show(cat_tree(t,t2,3,1,translate=False)))
tryit('cat root', lambda: show(cat_tree(t,t2,3,0)))
tryit('CutByType 2', lambda: show(CutByType(2)(t)))
tryit('CutByType 3', lambda: show(CutByType(3)(t)))
tryit('CutByType 7', lambda: show(CutByType(7)(t)))
tryit('CutByFurcationOrder 1', lambda: show(CutByFurcationOrder(1)(t)))
tryit('CutByFurcationOrder 0', lambda: show(CutByFurcationOrder(0)(t)))
tryit('CutShortTip 100', lambda: show(CutShortTipBranch(100)(t)))
tryit('extra col', lambda: show(sort_tree(mk([-1,0,0,2], foo=np.arange(4)*1.0))))
te=mk([-1,2,0,2], foo=np.arange(4)*1.0)
tryit('extra col sort unsorted', lambda: (sort_tree(te).ndata['foo'], sort_tree(te).pid()))
tryit('aliasing from_data_frame', lambda: None)
# views
tryit('t[-1]', lambda: t[-1].id)
tryit('t[1:3]', lambda: [n.id for n in t[1:3]])
tryit('t[::-2]', lambda: [n.id for n in t[::-2]])
p=t.get_paths()
print([pp.origin_id().tolist() for pp in p])
tryit('path[-1]', lambda: p[0][-1].id)
tryit('path ids', lambda: (p[0].id().tolist(), p[0].pid().tolist(), p[0].x().tolist()))
n=t[3]; n.x=99.; print('write-through', t.x()[3])
d=t[3].detach(); d.x=5.; print('detach isolated', t.x()[3], d.x)
c=t.copy(); c.ndata['x'][0]=-7; print('copy isolated', t.x()[0])
tryit('adjacency', lambda: t.get_adjacency_matrix().toarray().tolist())
tryit('tips', lambda: [n.id for n in t.get_tips()])
tryit('furc', lambda: [n.id for n in t.get_furcations()])
tryit('segments', lambda: t.get_segments().id().tolist())
