import warnings, numpy as np, sys, time
from swcgeom.core import Tree
from swcgeom.transforms import ToImageStack
warnings.simplefilter("ignore")
rng=np.random.default_rng(int(sys.argv[1]) if len(sys.argv)>1 else 0)
def sd_round_cone_vec(P, a, b, r1, r2):
    ba=b-a; l2=ba@ba; rr=r1-r2; a2=l2-rr*rr; il2=1.0/l2
    pa=P-a; y=pa@ba; z=y-l2
    x2=((pa*l2-np.outer(y,ba))**2).sum(1); y2=y*y*l2; z2=z*z*l2
    k=np.sign(rr)*rr*rr*x2
    c1=np.sign(z)*a2*z2>k; c2=np.sign(y)*a2*y2<k
    out=(np.sqrt(np.maximum(x2*a2*il2,0))+y*rr)*il2-r1
    out=np.where(c2, np.sqrt(x2+y2)*il2-r1, out)
    out=np.where(c1, np.sqrt(x2+z2)*il2-r2, out)
    return out
tot=bad=near=0; shapes_bad=0; t0=time.time()
for it in range(40):
    n=int(rng.integers(2,12)); pid=[-1]+[int(rng.integers(0,i)) for i in range(1,n)]
    xyz=rng.uniform(0,15,size=(n,3))+rng.normal(size=3)*20; r=rng.uniform(.3,2.5,n)
    if rng.random()<0.2: xyz[1]=xyz[0]  # coincident (degenerate cone l2=0)
    t=Tree(n,pid=np.array(pid),type=np.array([1]+[3]*(n-1)),x=xyz[:,0],y=xyz[:,1],z=xyz[:,2],r=r)
    res=rng.choice([1.0,0.5,2.0]) if rng.random()<0.5 else rng.uniform(0.4,2.0,size=3)
    tr=ToImageStack(res); 
    try: img=tr(t)
    except BaseException as e: print("EXC",type(e).__name__,str(e)[:80],"res",res,"coincident",bool(np.allclose(xyz[1],xyz[0])), "extent", (np.ceil((xyz+r[:,None]).max(0))-np.floor((xyz-r[:,None]).min(0)))); continue
    X=t.xyz().astype(np.float64); R=t.r().astype(np.float64).reshape(-1,1); st=tr.resolution.astype(np.float64)
    cmin=np.floor((X-R).min(0)); cmax=np.ceil((X+R).max(0))
    cnt=[int(np.sum(cmin[a]+st[a]/2+np.arange(0,10000)*st[a] < cmax[a])) for a in range(3)]
    if img.shape!=(cnt[2],cnt[0],cnt[1]): shapes_bad+=1; print('shape',img.shape,cnt,res); continue
    Z,Xn,Yn=img.shape
    I,J,K=np.meshgrid(np.arange(Xn),np.arange(Yn),np.arange(Z),indexing='ij')
    P=cmin+st/2+np.stack([I.ravel(),J.ravel(),K.ravel()],1)*st
    d=np.full(len(P),np.inf)
    for c,p in enumerate(pid):
        if p<0: continue
        if np.allclose(X[c],X[p]): dd=np.linalg.norm(P-X[c],axis=1)-max(R[c,0],R[p,0])
        else: dd=sd_round_cone_vec(P,X[p],X[c],R[p,0],R[c,0])
        d=np.minimum(d,dd)
    lit=img.transpose(1,2,0).ravel()>0
    nearm=np.abs(d)<1e-3
    b=int(((d<0)!=lit)[~nearm].sum()); tot+=len(P); near+=nearm.sum(); bad+=b
    if b: mm=((d<0)!=lit)&~nearm; print('case',it,'bad',b,'coincident',bool(np.allclose(xyz[1],xyz[0])),'res',res,'n',n,'|d| of bad: min %.4f max %.4f'%(np.abs(d[mm]).min(),np.abs(d[mm]).max()), 'lit but outside',int((lit&(d>0)&mm).sum()),'unlit but inside',int((~lit&(d<0)&mm).sum()))
print('voxels',tot,'near',near,'bad',bad,'shape mismatches',shapes_bad,'%.1fs'%(time.time()-t0))
