import warnings, numpy as np, sys, collections
from swcgeom.transforms import PointsToCuntzMST, PointsToMST
from scipy.sparse.csgraph import minimum_spanning_tree
from scipy.spatial.distance import cdist
warnings.simplefilter("ignore")
rng=np.random.default_rng(0)
def ref(points, bf, k, exclude_soma):
    n=len(points); D=cdist(points,points); par=[-1]*n; acc=[0.0]*n; conn=[0]; ch=[0]*n; near=False
    un=set(range(1,n))
    while un:
        best=None;second=None
        for i in conn:
            if k!=-1 and ch[i]>=k and not (exclude_soma and i==0): continue
            for j in un:
                c=D[i,j]+bf*acc[i]
                if best is None or c<best[0]: second=best; best=(c,i,j)
                elif second is None or c<second[0]: second=(c,i,j)
        if best is None: return None,near
        if second and abs(second[0]-best[0])<1e-9*(1+best[0]): near=True
        c,i,j=best; par[j]=i; acc[j]=acc[i]+D[i,j]; ch[i]+=1; conn.append(j); un.discard(j)
    return par,near
bad=collections.Counter(); tot=collections.Counter()
for it in range(200):
    n=int(rng.integers(2,40)); pts=rng.normal(size=(n,3))*10
    bf=float(rng.choice([0,.1,.4,.7,1.0])); k=int(rng.choice([-1,1,2,3])); ex=bool(rng.random()<0.5); soma=rng.normal(size=3) if rng.random()<0.5 else None
    srt=bool(rng.random()<0.5)
    try:
        t=PointsToCuntzMST(bf=bf,furcations=k,exclude_soma=ex,sort=srt)(pts, soma)
    except Exception as e:
        bad['exc:'+type(e).__name__+(' k=%d ex=%s'%(k,ex))]+=1; continue
    allp=np.concatenate([[soma],pts]) if soma is not None else pts
    tot['run']+=1
    key=lambda p: tuple(np.float32(p).tolist())
    got={key(t.xyz()[i]):(key(t.xyz()[p]) if p>=0 else None) for i,p in enumerate(t.pid())}
    if set(got)!={key(p) for p in allp} or len(t)!=len(allp): bad['points']+=1
    if [kk for kk,v in got.items() if v is None]!=[key(allp[0])]: bad['root']+=1
    par,near=ref(allp,bf,k,ex)
    if par is None: bad['ref_stuck k=%d ex=%s'%(k,ex)]+=1; continue
    exp={key(allp[j]):(key(allp[p]) if p>=0 else None) for j,p in enumerate(par)}
    if got!=exp: bad['parents bf=%s'%bf]+=1
    cnt=collections.Counter(v for v in got.values() if v is not None)
    if k!=-1:
        mx=max([c for kk,c in cnt.items() if not (ex and kk==key(allp[0]))] or [0])
        if mx>k: bad['limit']+=1
    if bf==0 and k==-1:
        if abs(t.length()-minimum_spanning_tree(cdist(allp,allp)).sum())>1e-3: bad['mstlen']+=1
print(dict(tot)); print(dict(bad))
