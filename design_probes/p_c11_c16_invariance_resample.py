import warnings, numpy as np
from swcgeom.core import *
from swcgeom.transforms import *
from swcgeom.analysis import *
warnings.simplefilter("ignore")
def rand_tree(n, seed, scale=10):
    rng=np.random.default_rng(seed); pid=[-1,0,0]+[int(rng.integers(0,i)) for i in range(3,n)]
    return Tree(n, pid=np.array(pid), type=np.array([1]+[3]*(n-1)), x=rng.normal(size=n)*scale+100, y=rng.normal(size=n)*scale-50, z=rng.normal(size=n)*scale, r=rng.uniform(.1,2,n))
t=rand_tree(40,2)
r=IsometricResampler(1.5)(t)
print(len(t),len(r), t.length(), r.length())
# critical nodes
def crit(t):
    cnt=np.bincount(t.pid()[1:], minlength=len(t)); return [i for i in range(len(t)) if i==0 or cnt[i]!=1]
A=sorted(map(tuple, np.round(t.xyzr()[crit(t)].astype(float),5).tolist())); B=sorted(map(tuple,np.round(r.xyzr()[crit(r)].astype(float),5).tolist()))
print('critical equal', A==B, len(A))
segl=np.linalg.norm(r.xyz()[1:]-r.xyz()[r.pid()[1:]],axis=1); print('max seg', segl.max())
# invariance
rng=np.random.default_rng(0)
Q,_=np.linalg.qr(rng.normal(size=(3,3))); 
if np.linalg.det(Q)<0: Q[:,0]*=-1
xyz=t.xyz().astype(np.float64)@Q.T+np.array([300,-20,7.])
t2=t.copy(); t2.ndata['x'],t2.ndata['y'],t2.ndata['z']=[xyz[:,i].astype(np.float32) for i in range(3)]
f1,f2=extract_feature(t),extract_feature(t2)
for k in ['length','branch_length','path_length','path_tortuosity','node_radial_distance','node_branch_order','tip_count']:
    a,b=np.sort(f1.get(k)),np.sort(f2.get(k)); print(k, np.max(np.abs(a-b)/(1+np.abs(a))))
from swcgeom.analysis.volume import get_volume
print('vol3', get_volume(t,accuracy=3), get_volume(t2,accuracy=3))
s1,s2=Sholl(t),Sholl(t2); print(s1.rmax,s2.rmax, s1.get(20), s2.get(20))
ts=TreeSmoother(5)(t); print('smooth pid same', np.array_equal(ts.pid(),t.pid()), 'r same', np.array_equal(ts.r(),t.r()), 'crit pos same', np.array_equal(ts.xyz()[crit(t)], t.xyz()[crit(t)]))
