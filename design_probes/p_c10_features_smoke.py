import warnings, time
import numpy as np
from swcgeom.core import *
from swcgeom.analysis import *
from swcgeom.analysis.lmeasure import LMeasure
warnings.simplefilter("ignore")
def tryit(name, f):
    try:
        r=f(); print(name, '->', r)
    except BaseException as e:
        print(name, 'RAISED', type(e).__name__, str(e)[:300])
def rand_tree(n, seed, binary=False, root_kids=2):
    rng=np.random.default_rng(seed)
    pid=[-1]
    cnt=[0]
    for i in range(1,n):
        while True:
            p=int(rng.integers(0,i))
            if not binary or cnt[p]<2: break
        pid.append(p); cnt[p]+=1; cnt.append(0)
    return Tree(n, pid=np.array(pid), type=np.array([1]+[3]*(n-1)), x=rng.normal(size=n)*10, y=rng.normal(size=n)*10, z=rng.normal(size=n)*10, r=rng.uniform(.1,2,n))
t=rand_tree(30, 1, binary=True)
pid=t.pid(); xyz=t.xyz().astype(np.float64)
n=len(pid)
kids=[[] for _ in range(n)]
for i,p in enumerate(pid):
    if p>=0: kids[p].append(i)
print('root kids', len(kids[0]))
L=sum(np.linalg.norm(xyz[i]-xyz[p]) for i,p in enumerate(pid) if p>=0)
print('length', t.length(), L)
fe=extract_feature(t)
for f in ['length','node_count','furcation_count','tip_count','branch_length','branch_tortuosity','path_length','path_tortuosity','node_radial_distance','node_branch_order','tip_radial_distance','furcation_radial_distance','sholl']:
    tryit(f, lambda: np.round(fe.get(f),3).tolist()[:8])
print('sum branch len', fe.get('branch_length').sum())
lm=LMeasure()
tryit('n_stems', lambda: lm.n_stems(t)); tryit('n_bifs', lambda: lm.n_bifs(t)); tryit('n_branch', lambda: lm.n_branch(t)); tryit('n_tips', lambda: lm.n_tips(t))
b=[i for i in range(n) if len(kids[i])==2 and i!=0][0]
print('bif',b,kids[b], 'parent', pid[b])
for m in ['partition_asymmetry','bif_ampl_local','bif_ampl_remote','bif_tilt_local','bif_tilt_remote','branch_order','terminal_degree','path_distance','euc_distance']:
    tryit(m, lambda: getattr(lm,m)(t.node(b)))
br=t.get_branches()[0]
for m in ['branch_pathlength','contraction','fragmentation']:
    tryit(m, lambda: getattr(lm,m)(br))
s=Sholl(t)
print('sholl rmax', s.rmax, 'get(5)', s.get(5), 'intersect', s.intersect(10.0))
