import warnings, numpy as np, sys, collections
import pandas as pd
from swcgeom.core import *
from swcgeom.core import swc_utils as su
warnings.simplefilter("ignore")
rng=np.random.default_rng(int(sys.argv[1]) if len(sys.argv)>1 else 0)
def rand_pid(n): return [-1]+[int(rng.integers(0,i)) for i in range(1,n)]
def mk(pid, base, integer):
    n=len(pid)
    xyz=rng.integers(-20,20,size=(n,3)).astype(float) if integer else rng.normal(size=(n,3))*10
    return Tree(n, pid=np.array(pid,dtype=np.int32), type=rng.integers(1,5,size=n).astype(np.int32), x=xyz[:,0],y=xyz[:,1],z=xyz[:,2], r=base+(np.arange(n)+1)/8.0)
bad=collections.Counter(); tot=collections.Counter()
for it in range(500):
    n1,n2=int(rng.integers(1,15)),int(rng.integers(1,15)); integer=rng.random()<0.5
    A=mk(rand_pid(n1),0,integer); B=mk(rand_pid(n2),100,integer)
    a,b=int(rng.integers(0,n1)),int(rng.integers(0,n2)); tr=bool(rng.random()<0.5)
    if rng.random()<0.2 and not tr:  # coincident without translate
        for kx in 'xyz': B.ndata[kx][b]=A.ndata[kx][a]
    fa=[v.copy() for v in A.ndata.values()]; fb=[v.copy() for v in B.ndata.values()]
    C=cat_tree(A,B,a,b,translate=tr); tot['cat']+=1
    if not all(np.array_equal(x,y) for x,y in zip(fa,A.ndata.values())) or not all(np.array_equal(x,y) for x,y in zip(fb,B.ndata.values())): bad['mutated']+=1
    tg=[float(v) for v in C.r()]; tA=[float(v) for v in A.r()]; tB=[float(v) for v in B.r()]
    rel={tg[i]:(tg[p] if p>=0 else None) for i,p in enumerate(C.pid())}
    relA={tA[i]:(tA[p] if p>=0 else None) for i,p in enumerate(A.pid())}
    ok=all(rel.get(k_,'missing')==v for k_,v in relA.items())
    # A attrs
    idx={t:i for i,t in enumerate(tg)}
    ok=ok and all(np.array_equal(C.xyz()[idx[tA[i]]],A.xyz()[i]) and C.type()[idx[tA[i]]]==A.type()[i] for i in range(n1))
    undB={frozenset((tB[i],tB[p])) for i,p in enumerate(B.pid()) if p>=0}
    merged = tB[b] not in idx
    shift=(A.xyz()[a].astype(float)-B.xyz()[b].astype(float)) if tr else np.zeros(3)
    dist=np.linalg.norm(B.xyz()[b].astype(float)+shift-A.xyz()[a].astype(float))
    present=[t for t in tB if t in idx]
    ok=ok and len(C)==n1+n2-(1 if merged else 0) and len(present)==n2-(1 if merged else 0)
    # coords of B
    ok=ok and all(np.allclose(C.xyz()[idx[tB[i]]], B.xyz()[i].astype(float)+shift, atol=1e-4) for i in range(n2) if tB[i] in idx)
    undC={frozenset((k_,v)) for k_,v in rel.items() if v is not None}
    undAexp={frozenset((k_,v)) for k_,v in relA.items() if v is not None}
    if merged:
        exp=undAexp | {frozenset((tA[a] if x==tB[b] else x for x in e)) for e in undB}
        ok=ok and dist<1e-4
    else:
        exp=undAexp | undB | {frozenset((tA[a],tB[b]))}
        ok=ok and dist>=1e-5*0.5
    ok=ok and undC==exp
    # orientation: B nodes' parent is toward b
    # types of B: swap root<->b
    tyB=dict(zip(tB,B.type())); 
    if b!=0: tyB[tB[0]],tyB[tB[b]]=tyB[tB[b]],tyB[tB[0]]
    ok=ok and all(C.type()[idx[t]]==tyB[t] for t in present)
    ok=ok and all(p<i for i,p in enumerate(C.pid())) and C.pid()[0]==-1
    if not ok: bad['cat']+=1; print('cat', A.pid().tolist(), B.pid().tolist(), a,b,tr,merged,dist)
# df sort
for it in range(300):
    n=int(rng.integers(1,20)); pid=rand_pid(n)
    ids=rng.choice(np.arange(0,1000),size=n,replace=False)
    rows=[(int(ids[i]), int(rng.integers(0,8)), float(i), 0.,0., 1.0+i, (int(ids[pid[i]]) if pid[i]>=0 else -1), float(i)*2) for i in range(n)]
    order=rng.permutation(n); rows=[rows[j] for j in order]
    df=pd.DataFrame(rows, columns=['id','type','x','y','z','r','pid','e'])
    before=df.copy()
    out=su.sort_nodes(df); tot['dfsort']+=1
    ok=before.equals(df) and list(out['id'])==list(range(n)) and out['pid'].iloc[0]==-1 and all(out['pid'].iloc[i]<i for i in range(n))
    x=list(out['x']); relo={x[i]:(x[p] if p>=0 else None) for i,p in enumerate(out['pid'])}
    rele={float(i):(float(pid[i]) if pid[i]>=0 else None) for i in range(n)}
    ok=ok and relo==rele and all(out['e'].iloc[i]==2*out['x'].iloc[i] and out['r'].iloc[i]==1+out['x'].iloc[i] for i in range(n))
    if not ok: bad['dfsort']+=1; print('dfsort', rows)
print(dict(tot), dict(bad))
