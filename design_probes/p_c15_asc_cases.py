import warnings, traceback, sys
from io import StringIO
import numpy as np
from swcgeom.core import Tree, swc_utils
from swcgeom.transforms import *

warnings.simplefilter("ignore")
def tryit(name, f):
    try:
        print(name, '->', f())
    except BaseException as e:
        print(name, 'RAISED', type(e).__name__, str(e)[:200])
def asc(s):
    t=NeurolucidaAscToSwc.from_stream(StringIO(s))
    return list(zip(t.id().tolist(), t.x().tolist(), t.pid().tolist(), t.type().tolist()))
nested="""(
 (Axon)
 (1 0 0 1)
 (2 0 0 1)
 (
   (3 0 0 1)
   (
     (4 0 0 1)
     |
     (5 0 0 1)
   )
   |
   (6 0 0 1)
   (7 0 0 1)
 )
)"""
tryit('nested', lambda: asc(nested))
tryit('empty first alt', lambda: asc("( (Axon) (1 0 0 1) ( | (2 0 0 1) ) )"))
tryit('empty first alt nested', lambda: asc("( (Axon) (1 0 0 1) ( (2 0 0 1) ( | (3 0 0 1) ) | (4 0 0 1) ) )"))
tryit('three alts', lambda: asc("( (Dendrite) (1 0 0 1) ( (2 0 0 1) | (3 0 0 1) | (4 0 0 1) (5 0 0 1) ) )"))
tryit('missing final )', lambda: asc("( (Axon) (1 0 0 1) ( (2 0 0 1) | (3 0 0 1) ) "))
tryit('missing final ) nosplit', lambda: asc("( (Axon) (1 0 0 1) (2 0 0 1) "))
tryit('truncated mid', lambda: asc("( (Axon) (1 0 0 1) ( (2 0 0 1) | (3 0 0 "))
tryit('truncated mid2', lambda: asc("( (Axon) (1 0 0 1) ( (2 0 0 1) | "))
tryit('truncated mid3', lambda: asc("( (Axon) (1 0 0 1) ( (2 0 0 1) "))
tryit('trailing garbage', lambda: asc("( (Axon) (1 0 0 1) (2 0 0 1) ) ) ) foo"))
tryit('3 floats', lambda: asc("( (Axon) (1 0 0 1) (2 0 0) )"))
tryit('5 floats', lambda: asc("( (Axon) (1 0 0 1) (2 0 0 1 1) )"))
tryit('bad num', lambda: asc("( (Axon) (1 0 0 1) (2 0 x 1) )"))
tryit('bad num2', lambda: asc("( (Axon) (1 0 0 1) (2 0 1x 1) )"))
tryit('comment', lambda: asc("( (Axon) (1 0 0 1) ; hi\n (2 0 0 1) ; there\n )"))
tryit('comment after label', lambda: asc("( (Axon) ; hi\n (1 0 0 1) (2 0 0 1) )"))
tryit('color in', lambda: asc("( (Color Red) (Axon) (1 0 0 1) (Color Blue) (2 0 0 1) )"))
long="( (Axon) " + " ".join("(%d 0 0 1)"%i for i in range(3000)) + " )"
tryit('long branch', lambda: len(asc(long)))
deep="( (Axon) (0 0 0 1) " + "".join("( (%d 0 0 1) | (%d 1 0 1) "%(i,i) for i in range(1,200)) + ")"*199 + " )"
tryit('deep nest', lambda: len(asc(deep)))
