import warnings, numpy as np, sys, collections, hashlib
from io import StringIO
from swcgeom.core import *
from swcgeom.transforms import *
warnings.simplefilter("ignore")
rng=np.random.default_rng(int(sys.argv[1]) if len(sys.argv)>1 else 0)
def fp(t): return tuple((k,v.dtype.str,v.shape,hashlib.sha1(np.ascontiguousarray(v).tobytes()).hexdigest()) for k,v in sorted(t.ndata.items()))
def wf(t, sorted_req=False, root_pos=0):
    n=len(t); ids=t.id(); pid=t.pid()
    if n==0: return 'empty'
    if not np.array_equal(ids,np.arange(n)): return 'ids'
    roots=np.nonzero(pid==-1)[0]
    if len(roots)!=1 or roots[0]!=root_pos: return 'root %s'%roots
    if ((pid<-1)|(pid>=n)).any(): return 'pid range'
    seen=np.zeros(n,bool); seen[root_pos]=True
    for i in range(n):
        path=[]; w=i
        while not seen[w]:
            path.append(w); seen[w]=True; w=pid[w]
            if w in path: return 'cycle'
        # ok
    if sorted_req and not (pid[1:]<ids[1:]).all(): return 'unsorted'
    return None
def rand_tree(n):
    pid=[-1,0,0]+[int(rng.integers(0,i)) for i in range(3,n)] if n>=3 else [-1]+[0]*(n-1)
    return Tree(n,pid=np.array(pid[:n]),type=np.concatenate([[1],rng.integers(2,5,size=n-1)]),x=rng.normal(size=n)*10+30,y=rng.normal(size=n)*10,z=rng.normal(size=n)*10,r=rng.uniform(.2,2,n), comments=['c'])
def ops(t):
    n=len(t)
    L=[('sort_tree', lambda: sort_tree(t), True),
       ('get_subtree', lambda: get_subtree(t,int(rng.integers(0,n))), False),
       ('redirect', lambda: redirect_tree(t,int(rng.integers(0,n))), True),
       ('cat', lambda: cat_tree(t,rand_tree(int(rng.integers(1,8))),int(rng.integers(0,n)),0), True),
       ('CutByType', lambda: CutByType(int(rng.choice(t.type())))(t), False),
       ('CutByFurc', lambda: CutByFurcationOrder(int(rng.integers(1,4)))(t), False),
       ('CutShortTip', lambda: CutShortTipBranch(float(rng.uniform(1,30)))(t), False),
       ('Translate', lambda: Translate(1,2,3)(t), False),
       ('Scale', lambda: Scale(2,.5,1)(t), False),
       ('RotateX', lambda: RotateX(.3)(t), False),
       ('TranslateOrigin', lambda: TranslateOrigin()(t), False),
       ('Normalizer', lambda: Normalizer()(t), False),
       ('RadiusReseter', lambda: RadiusReseter(1.5)(t), False),
       ('TreeSmoother', lambda: TreeSmoother(3)(t), False),
       ('Resampler', lambda: IsometricResampler(float(rng.uniform(1,8)))(t), True),
       ('roundtrip', lambda: Tree.from_swc(StringIO(t.to_swc())), False),
       ('Transforms', lambda: Transforms(RotateZ(.2), CutByFurcationOrder(3), TranslateOrigin())(t), False),
       ('cut_tree_noop', lambda: cut_tree(t), False),
       ]
    if n>1: L.append(('to_subtree', lambda: to_subtree(t,[int(x) for x in rng.choice(np.arange(1,n),size=min(n-1,2),replace=False)]), False))
    return L
res=collections.Counter()
for it in range(150):
    t=rand_tree(int(rng.integers(3,40)))
    for step in range(8):
        L=ops(t); name,f,srt=L[int(rng.integers(0,len(L)))]
        before=fp(t)
        try: out=f()
        except Exception as e:
            res[(name,'RAISED '+type(e).__name__)]+=1; print(name, repr(e)[:200], repr(e.__cause__)[:200], 'finite', all(np.isfinite(v).all() for v in t.ndata.values()), 'maxabs', max(np.abs(t.xyz()).max(),0)) if name=='roundtrip' else None; continue
        w=wf(out,srt)
        al=[(a,b) for a,va in out.ndata.items() for b,vb in t.ndata.items() if np.shares_memory(va,vb)]
        mut= fp(t)!=before
        res[(name,'ok' if not (w or al or mut) else 'BAD wf=%s alias=%s mut=%s'%(w,al,mut))]+=1
        if w is None and len(out)>=3: t=out
for k,v in sorted(res.items()): print(k,v)
