import warnings, io, traceback
import numpy as np
from swcgeom.core import Tree, swc_utils, BranchTree, Population, Populations
from swcgeom.core.population import ChainTrees
from swcgeom.transforms import *
from swcgeom.utils import rotate3d
warnings.simplefilter("ignore")

def mk(pid, root_type=1, **kw):
    n=len(pid)
    rng=np.random.default_rng(0)
    return Tree(n, pid=np.array(pid,dtype=np.int32), type=np.array([root_type]+[3]*(n-1)),
                x=rng.normal(size=n)*10, y=rng.normal(size=n)*10, z=rng.normal(size=n)*10, r=rng.uniform(0.1,2,size=n), **kw)
def tryit(name, f):
    try:
        print(name, '->', f())
    except Exception as e:
        print(name, 'RAISED', type(e).__name__, e)

# branches: root with one child
t=mk([-1,0,1,2,2])
tryit('branches 1-child root', lambda: [list(b.origin_id()) for b in t.get_branches()])
t=mk([-1,0,1,2])
tryit('branches chain', lambda: [list(b.origin_id()) for b in t.get_branches()])
t=mk([-1,0,0,1,1])
tryit('branches 2-child root', lambda: [list(b.origin_id()) for b in t.get_branches()])
tryit('segments of attached branch', lambda: [list(s.origin_id()) for s in t.get_branches()[0].get_segments()])
t5=mk([-1,0,1,2,2,0,5])
brs=t5.get_branches()
print([list(b.origin_id()) for b in brs])
for b in brs:
    tryit(' seg %s'%list(b.origin_id()), lambda: [list(s.origin_id()) for s in b.get_segments()])
tryit('BranchTree 1-child root', lambda: BranchTree.from_tree(mk([-1,0,1,2,2])))
tryit('Resample root type 3', lambda: IsometricResampler(1.0)(mk([-1,0,0,1,1], root_type=3)))
tryit('Resample ok', lambda: IsometricResampler(1.0)(mk([-1,0,0,1,1])))
tryit('Resample adjust_last_gap False', lambda: IsometricResampler(1.0, adjust_last_gap=False)(mk([-1,0,0,1,1])))
# zero-length branch
t=mk([-1,0,0,1,1]); t.ndata['x'][4]=t.ndata['x'][1]; t.ndata['y'][4]=t.ndata['y'][1]; t.ndata['z'][4]=t.ndata['z'][1]
tryit('Resample zero-length branch', lambda: IsometricResampler(1.0)(t))
# affine centre
t=mk([-1,0,0,1,1])
s=Scale(2,2,2)(t)
print('root before', t.xyz()[0], 'after scale about root', s.xyz()[0])
tryit('rotate3d', lambda: rotate3d(np.array([0,0,1.]), 0.3))
tryit('rotate3d 4', lambda: rotate3d(np.array([0,0,1.,0]), 0.3))
tryit('Rotate', lambda: Rotate(np.array([0,0,1.]), 0.3)(t).xyz()[0])
r=RotateZ(0.5)(t); print('RotateZ about root: root', r.xyz()[0])
r=RotateZ(0.5, center='origin')(t); print('RotateZ origin', r.xyz()[1], 'orig', t.xyz()[1])
# chain trees generator
a=[mk([-1,0]),mk([-1,0,1])]; b=[mk([-1,0,1,2])]
pops=Populations([Population(a),Population(b)])
tryit('to_population len', lambda: len(pops.to_population()))
tryit('ChainTrees list len', lambda: len(ChainTrees([a,b])))
