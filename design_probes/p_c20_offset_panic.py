import warnings, numpy as np, sys
from swcgeom.core import Tree
from swcgeom.transforms import ToImageStack
warnings.simplefilter("ignore")
def run(off, res):
    t=Tree(3,pid=np.array([-1,0,1]),x=np.array([0.3,5.2,9.7])+off[0],y=np.array([0.1,3.3,2.2])+off[1],z=np.array([0.2,1.1,4.4])+off[2],r=np.array([1.,1.5,.8]),type=np.array([1,3,3]))
    try:
        img=ToImageStack(res)(t); return img.shape
    except BaseException as e:
        return 'PANIC'
for off in [(0,0,0),(0,0,20),(0,0,100),(0,0,1000),(100,100,100),(1000,0,0),(0,0,-50)]:
    print(off, [ (res, run(off,res)) for res in [1.0,0.5,0.7,(0.7,1.3,0.9),2.0]])
