import warnings, numpy as np, sys, collections
from io import StringIO
from swcgeom.transforms import NeurolucidaAscToSwc
warnings.simplefilter("ignore")
sys.setrecursionlimit(10000)
rng=np.random.default_rng(int(sys.argv[1]) if len(sys.argv)>1 else 0)
# model: branch = (points:list, split: list[branch] or None)
cnt=[0]
def gen_branch(depth, allow_empty):
    npts=int(rng.integers(0 if allow_empty else 1, 5))
    pts=[]
    for _ in range(npts):
        cnt[0]+=1; pts.append((float(cnt[0]), float(rng.integers(-50,50))/4, float(rng.integers(-50,50))/8, float(rng.integers(1,40))/16))
    split=None
    if npts>0 and depth>0 and rng.random()<0.6:
        split=[gen_branch(depth-1, allow_empty=(i>0 or rng.random()<0.3)) for i in range(int(rng.integers(1,4)))]
    return (pts, split)
def ws(): return rng.choice([' ','  ','\n','\n    ','\t'])
def render(br, out, features):
    pts,split=br
    for p in pts:
        out.append('('+ws()+ws().join(repr(v) if v!=int(v) or rng.random()<.5 else str(int(v)) for v in p)+ws()+')')
        if rng.random()<0.15: out.append('; a comment ( | ) 1 2\n')
        if rng.random()<0.1: out.append('(Color Red)')
        out.append(ws())
    if split is not None:
        out.append('('+ws())
        for i,alt in enumerate(split):
            if i: out.append(ws()+'|'+ws())
            render(alt,out,features)
        out.append(')'+ws())
def expected(br, parent, typ, rows):
    pts,split=br
    for p in pts:
        idx=len(rows); rows.append((idx,typ,p[0],p[1],p[2],p[3],parent)); parent=idx
    if split is not None:
        for alt in split: expected(alt,parent,typ,rows)
def classify(br, top=True):
    # returns set of risky features
    f=set(); pts,split=br
    if split is not None:
        for i,alt in enumerate(split):
            if not alt[0]: f.add('empty_alt_first' if i==0 else 'empty_alt_later')
            if alt[1] is not None and i<len(split)-1: f.add('nested_split_then_more')
            if alt[1] is not None: f.add('nested')
            f|=classify(alt,False)
    return f
res=collections.Counter()
for it in range(600):
    cnt[0]=0; label=rng.choice(['Axon','Dendrite','AXON','dendrite'])
    br=gen_branch(int(rng.integers(0,4)), False)
    out=['('+ws()]
    if rng.random()<0.3: out.append('(Color Blue)'+ws())
    out.append('('+label+')'+ws()); render(br,out,None); out.append(')'+ws())
    text=''.join(out); rows=[]; expected(br,-1,2 if label.upper()=='AXON' else 3,rows)
    feats=frozenset(classify(br))
    try:
        t=NeurolucidaAscToSwc.from_stream(StringIO(text))
        got=list(zip(t.id().tolist(),t.type().tolist(),t.x().tolist(),t.y().tolist(),t.z().tolist(),t.r().tolist(),t.pid().tolist()))
        ok= got==rows
    except Exception as e:
        ok=False; got=type(e).__name__
    res[(tuple(sorted(feats)), ok)]+=1
    if not ok and not feats: print('UNEXPECTED', text, got, rows)
for k,v in sorted(res.items(), key=str): print(k,v)
