import warnings, time, numpy as np
from swcgeom.core import Tree
from swcgeom.analysis.volume import get_volume
warnings.simplefilter("ignore")
# root with two opposite arms along x: nodes: 0 at 0, 1 at +2, 2 at -2.5, 3 at +4.5(child of 1)
t=Tree(4, pid=np.array([-1,0,0,1]), x=np.array([0,2,-2.5,4.5]), r=np.array([1,1.2,0.8,1.0]), type=np.array([1,3,3,3]))
for a in [3,4,5,8]:
    t0=time.time(); v=get_volume(t,accuracy=a); print(a, v, '%.2fs'%(time.time()-t0))
