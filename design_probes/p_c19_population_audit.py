import warnings, numpy as np, os, sys, tempfile, collections
from swcgeom.core import *
from swcgeom.core.population import ChainTrees, LazyLoadingTrees
from swcgeom.transforms import PopulationTransform, Translate
warnings.simplefilter("ignore")
root=tempfile.mkdtemp()
opens=collections.Counter()
def hook(ev,args):
    if ev=='open' and isinstance(args[0],str) and args[0].startswith(root): opens[os.path.relpath(args[0],root)]+=1
sys.addaudithook(hook)
def mkfile(rel,n):
    p=os.path.join(root,rel); os.makedirs(os.path.dirname(p),exist_ok=True)
    with open(p,'w') as f:
        for i in range(n): f.write(f"{i+1} 1 {n} 0 0 1 {i if i else -1}\n")
for rel,n in [('A/a.swc',2),('A/b.swc',3),('A/sub/c.swc',4),('A/sub/deep/d.swc',5),('A/x.txt',1),('B/a.swc',6),('B/sub/c.swc',7),('B/e.swc',8),('E/.keep',0)]: mkfile(rel,n)
opens.clear()
pop=Population.from_swc(os.path.join(root,'A'))
print('after ctor', dict(opens), len(pop))
swcs=Population.find_swcs(os.path.join(root,'A')); print(swcs)
t=pop[2]; print('pop[2]', t.source, len(t), dict(opens))
t=pop[-1]; print('pop[-1]', t.source, dict(opens))
s=pop[1:3]; print('slice', type(s), len(s), dict(opens)); print(s[0].source, dict(opens))
for t in pop: pass
print('after iter', dict(opens))
for t in pop: pass
print('after iter2', dict(opens))
pops=Populations.from_swc([os.path.join(root,'A'),os.path.join(root,'B')])
print('pops len', len(pops), [[os.path.relpath(t.source,root) for t in row] for row in pops], dict(opens))
try:
    e=Population.from_swc(os.path.join(root,'E')); print('empty', len(e))
except Exception as ex: print('empty raised', type(ex), ex)
print(list(pop.map(len, max_worker=2)))
pt=PopulationTransform(Translate(1,0,0))(pop); print(len(pt), pt[1].x()[:2], pop[1].x()[:2])
