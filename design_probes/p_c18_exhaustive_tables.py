import warnings, itertools, signal
import numpy as np, pandas as pd
from swcgeom.core import swc_utils as su
warnings.simplefilter("ignore")
class TO(Exception): pass
def h(*a): raise TO()
signal.signal(signal.SIGALRM, h)
def df(p):
    n=len(p); return pd.DataFrame(dict(id=np.arange(n), type=1, x=np.arange(n)*1., y=0., z=0., r=1., pid=np.array(p)))
def topo(p): return (np.arange(len(p)), np.array(p))
def ref(p):
    n=len(p)
    # undirected components, cycles
    par=list(range(n))
    def f(x):
        while par[x]!=x: x=par[x]
        return x
    cyc=False
    for i,q in enumerate(p):
        if q==-1: continue
        a,b=f(i),f(q)
        if a==b: cyc=True
        else: par[a]=b
    comps=len({f(i) for i in range(n)})
    srt=all(q<i for i,q in enumerate(p))
    cnt=np.bincount([q for q in p if q!=-1], minlength=n) if any(q!=-1 for q in p) else np.zeros(n,int)
    return comps==1, cyc, srt, cnt
res={}
for n in range(1,5):
    for p in itertools.product(range(-1,n), repeat=n):
        if any(p[i]==i for i in range(n)): pass
        conn,cyc,srt,cnt=ref(p)
        for name,fn,exp in [('single_root', lambda: su.is_single_root(df(p)), conn), ('has_cyclic', lambda: su.has_cyclic(topo(p)), cyc), ('is_sorted', lambda: su.is_sorted(topo(p)), srt), ('bif_noexcl', lambda: su.is_bifurcate(topo(p), exclude_root=False), bool((cnt<=2).all()))]:
            signal.alarm(2)
            try:
                got=fn(); out='ok' if bool(got)==exp else 'wrong'
            except TO: out='hang'
            except Exception as e: out='exc:'+type(e).__name__
            signal.alarm(0)
            res.setdefault(name,{}).setdefault(out,[]).append(p)
for k,v in res.items():
    print(k, {o:(len(l), l[:4]) for o,l in v.items()})
