import warnings
import numpy as np
from swcgeom.core import Tree
from swcgeom.transforms import ToImageStack
warnings.simplefilter("ignore")
def sd_round_cone(p, a, b, r1, r2):
    ba=b-a; l2=ba@ba; rr=r1-r2; a2=l2-rr*rr; il2=1.0/l2
    pa=p-a; y=pa@ba; z=y-l2; x2=((pa*l2-ba*y)**2).sum(); y2=y*y*l2; z2=z*z*l2
    k=np.sign(rr)*rr*rr*x2
    if np.sign(z)*a2*z2>k: return np.sqrt(x2+z2)*il2-r2
    if np.sign(y)*a2*y2<k: return np.sqrt(x2+y2)*il2-r1
    return (np.sqrt(x2*a2*il2)+y*rr)*il2-r1
n=5
rng=np.random.default_rng(3)
t=Tree(n, pid=np.array([-1,0,1,1,0]), type=np.array([1,3,3,3,3]), x=rng.uniform(0,12,n), y=rng.uniform(0,9,n), z=rng.uniform(0,7,n), r=rng.uniform(0.5,2,n))
for res in [1.0, (0.5,1.0,2.0)]:
    tr=ToImageStack(res)
    img=tr(t)
    xyz,r=t.xyz(),t.r().reshape(-1,1)
    cmin=np.floor((xyz-r).min(0)); cmax=np.ceil((xyz+r).max(0))
    print('res',res,'shape (Z,X,Y)?',img.shape,'bbox extent',cmax-cmin, 'vals',np.unique(img))
    st=tr.resolution
    Z,X,Y=img.shape
    bad=0;near=0;tot=0
    for k in range(Z):
      for i in range(X):
        for j in range(Y):
          p=cmin+st/2+np.array([i,j,k])*st
          d=min(sd_round_cone(p.astype(float), xyz[pp].astype(float), xyz[c].astype(float), float(r[pp,0]), float(r[c,0])) for c,pp in enumerate(t.pid()) if pp>=0)
          tot+=1
          if abs(d)<1e-3: near+=1; continue
          if (d<0)!=(img[k,i,j]>0): bad+=1
    print(' tot',tot,'near',near,'bad',bad)
