import warnings, os, tempfile, sys
from io import StringIO, BytesIO
import numpy as np
from swcgeom.core import *
from swcgeom.core import swc_utils as su
warnings.simplefilter("ignore")
def tryit(name, f):
    try:
        r=f(); print(name, '->', r)
    except BaseException as e:
        print(name, 'RAISED', type(e).__name__, str(e)[:300])
s="""# c1
 10 3 1.5 2 3 0.5 7   
7 1 0 0 0 1 -1
# mid comment
3 2 -1e1 +2.5 .5 1.E0 10 9.9 8
42 4 5 5 5 2 7
"""
tryit('sort_nodes arbitrary ids', lambda: su.read_swc(StringIO(s), sort_nodes=True)[0].to_dict('list'))
tryit('no sort arbitrary ids', lambda: su.read_swc(StringIO(s))[0].to_dict('list'))
tryit('extra col', lambda: su.read_swc(StringIO(s.replace('9.9 8','9.9')), extra_cols=['e'], sort_nodes=True))
tryit('extra col missing on rows', lambda: su.read_swc(StringIO(s), extra_cols=['e'], sort_nodes=True)[0])
tryit('crlf', lambda: su.read_swc(StringIO("1 1 0 0 0 1 -1\r\n2 1 1 0 0 1 1\r\n"))[0].shape)
tryit('bytes', lambda: su.read_swc(BytesIO(b"1 1 0 0 0 1 -1\n2 1 1 0 0 1 1\n"))[0].shape)
tryit('detect', lambda: su.read_swc(BytesIO("# café\n1 1 0 0 0 1 -1\n2 1 1 0 0 1 1\n".encode('latin-1')), encoding='detect'))
tryit('latin1 explicit', lambda: su.read_swc(BytesIO("# café\n1 1 0 0 0 1 -1\n2 1 1 0 0 1 1\n".encode('latin-1')), encoding='latin-1'))
tryit('neg id', lambda: su.read_swc(StringIO("-1 1 0 0 0 1 -1\n"))[0].shape)
tryit('float id', lambda: su.read_swc(StringIO("1.0 1 0 0 0 1 -1\n"))[0].shape)
tryit('inf', lambda: su.read_swc(StringIO("1 1 inf 0 0 1 -1\n"))[0].shape)
tryit('tab sep', lambda: su.read_swc(StringIO("1\t1\t0\t0\t0\t1\t-1\n"))[0].shape)
tryit('trailing comment on row', lambda: su.read_swc(StringIO("1 1 0 0 0 1 -1 # hi\n"))[0].shape)
tryit('6 fields', lambda: su.read_swc(StringIO("1 1 0 0 0 1 -1\n2 1 0 0 0 1\n"))[0].shape)
# Tree round trip with id_offset
t=Tree(4, pid=np.array([-1,0,0,2]), x=np.array([1.00005,2,3,-0.00004]), r=np.array([1,2,3,4.]), type=np.array([1,2,3,4]))
for off in [0,1,5]:
    txt=t.to_swc(id_offset=off, source=False)
    t2=Tree.from_swc(StringIO(txt))
    print(off, repr(txt.splitlines()[1:3]), t2.id().tolist(), t2.pid().tolist(), t2.x().tolist())
d=tempfile.mkdtemp(); f=os.path.join(d,'a.swc'); t.to_swc(f)
t3=Tree.from_swc(f); print(t3.source, t3.comments)
