import warnings, time
import numpy as np
from swcgeom.core import *
from swcgeom.core import swc_utils as su
from swcgeom.analysis import *
from swcgeom.analysis.lmeasure import LMeasure
warnings.simplefilter("ignore")
def tryit(name, f):
    try:
        t0=time.time(); r=f(); print(name, '->', r, '%.2fs'%(time.time()-t0))
    except BaseException as e:
        print(name, 'RAISED', type(e).__name__, str(e)[:300])
n=100000
topo=(np.arange(n), np.arange(-1,n-1))
tryit('traverse 1e5 leave', lambda: su.traverse(topo, leave=lambda i,ch: 1+sum(ch)))
tryit('traverse 1e5 enter', lambda: su.traverse(topo, enter=lambda i,p: (p or 0)+1))
t=Tree(n, x=np.arange(n,dtype=np.float32))
tryit('Tree.traverse 1e5', lambda: t.traverse(leave=lambda nd,ch: 1+sum(ch)))
tryit('sort_tree 2e4', lambda: len(sort_tree(Tree(20000))))
tryit('get_subtree 1e5', lambda: len(get_subtree(t, 50000)))
tryit('has_cyclic 1e5 chain', lambda: su.has_cyclic(topo))
rev=(np.arange(n), np.concatenate([np.arange(1,n), [-1]]))
tryit('has_cyclic 1e5 rev chain', lambda: su.has_cyclic(rev))
import pandas as pd
df=pd.DataFrame(dict(id=np.arange(3000), type=1,x=0.,y=0.,z=0.,r=1.,pid=np.arange(-1,2999)))
tryit('is_single_root 3000 chain', lambda: su.is_single_root(df))
