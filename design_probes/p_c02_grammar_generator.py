import warnings, numpy as np, sys, collections
from io import StringIO, BytesIO
from swcgeom.core import swc_utils as su
rng=np.random.default_rng(int(sys.argv[1]) if len(sys.argv)>1 else 0)
def fspell(v):
    # return (text, value) pairs with varied spellings
    kind=rng.integers(0,7)
    if kind==0: s=repr(float(v))
    elif kind==1: s='%d'%int(v); 
    elif kind==2: s='%d.'%int(v)
    elif kind==3: s='%.3e'%v
    elif kind==4: s=('%.4E'%v)
    elif kind==5:
        f=abs(v)-int(abs(v)); s=('-' if v<0 else '')+('.%04d'%int(f*10000))
    else: s='%+.5f'%v
    if rng.random()<0.2 and not s.startswith(('-','+')): s='+'+s
    return s, float(s)
def ws(): return rng.choice([' ','  ','\t',' \t ','   '])
res=collections.Counter()
for it in range(400):
    n=int(rng.integers(1,30)); pid=[-1]+[int(rng.integers(0,i)) for i in range(1,n)]
    base=int(rng.choice([0,1,5,1000])); nextra=int(rng.integers(0,3)); ask=int(rng.integers(0,nextra+1))
    rows=[];lines=[];comments=[]
    for i in range(n):
        fs=[fspell(float(rng.normal()*10**rng.integers(0,3))) for _ in range(4+nextra)]
        ty=int(rng.integers(0,9))
        rows.append((i+base,ty,*[f[1] for f in fs[:4]],(pid[i]+base if pid[i]>=0 else -1),*[f[1] for f in fs[4:4+ask]]))
        toks=[str(i+base),str(ty)]+[f[0] for f in fs[:4]]+[str(pid[i]+base if pid[i]>=0 else -1)]+[f[0] for f in fs[4:4+ask]]+[('%.4f'%f[1]) for f in fs[4+ask:]]
        line=(ws() if rng.random()<.3 else '')+ws().join(toks)+(ws() if rng.random()<.3 else '')
        if rng.random()<.15: c=' note %d'%i; lines.append((ws() if rng.random()<.3 else '')+'#'+c); comments.append(c)
        if rng.random()<.1: lines.append(rng.choice(['','   ','\t']))
        lines.append(line)
    eol=rng.choice(['\n','\r\n']); text=eol.join(lines)+(eol if rng.random()<.8 else '')
    src=StringIO(text) if rng.random()<.5 else BytesIO(text.encode())
    with warnings.catch_warnings(record=True) as w:
        warnings.simplefilter('always')
        try:
            df,cm=su.read_swc(src, extra_cols=['e%d'%k for k in range(ask)] or None, reset_index=False)
        except Exception as e:
            res['EXC '+type(e).__name__+' '+str(e.__cause__ or e)[:60]]+=1; continue
    got=[tuple(r) for r in df.itertuples(index=False)]
    ok= len(got)==len(rows) and all(all(float(a)==float(b) for a,b in zip(g,r)) and len(g)==len(r) for g,r in zip(got,rows))
    okc=[c.rstrip() for c in cm]==[c.rstrip() for c in comments]
    nwarn=sum('ignored' in str(x.message) for x in w)
    okw= nwarn==(1 if nextra>ask else 0)
    res[('rows',ok)]+=1; res[('comments',okc)]+=1; res[('warn',okw)]+=1
    if not ok:
        print(len(got),len(rows)); [print(repr(lines_), g, r) for g,r in zip(got,rows) if tuple(map(float,g))!=tuple(map(float,r)) for lines_ in [""]][:3]; print(repr(text[:400])); print(cm, comments); break
for k,v in sorted(res.items(),key=str): print(k,v)
