import warnings, numpy as np, sys, collections
from swcgeom.core import *
from swcgeom.transforms import *
warnings.simplefilter("ignore")
rng=np.random.default_rng(int(sys.argv[1]) if len(sys.argv)>1 else 0)
def kids(pid):
    k=[[] for _ in pid]
    for i,p in enumerate(pid):
        if p>=0: k[p].append(i)
    return k
def branches(pid):
    k=kids(pid); n=len(pid); crit={u for u in range(n) if u==0 or len(k[u])!=1}; out=[]
    for u in range(1,n):
        if u in crit:
            ch=[u]; w=pid[u]
            while w not in crit: ch.append(w); w=pid[w]
            ch.append(w); out.append(ch[::-1])
    return out
def proj_param(P, poly, cum):
    # distance from P to polyline and arclength param of closest point
    best=(1e18,0)
    for i in range(len(poly)-1):
        a,b=poly[i],poly[i+1]; ab=b-a; L2=ab@ab
        t=0 if L2==0 else np.clip((P-a)@ab/L2,0,1)
        q=a+t*ab; d=np.linalg.norm(P-q)
        if d<best[0]-1e-12: best=(d,cum[i]+t*np.sqrt(L2))
    return best
res=collections.Counter()
for it in range(120):
    n=int(rng.integers(3,30)); pid=[-1,0,0]+[int(rng.integers(0,i)) for i in range(3,n)]
    xyz=rng.normal(size=(n,3))*10; r=rng.uniform(.2,2,n)
    t=Tree(n,pid=np.array(pid),type=np.array([1]+[3]*(n-1)),x=xyz[:,0],y=xyz[:,1],z=xyz[:,2],r=r)
    sp=float(rng.uniform(0.5,15))
    out=IsometricResampler(sp)(t)
    X=t.xyz().astype(float); R=t.r().astype(float); Y=out.xyz().astype(float); Ro=out.r().astype(float)
    bi=branches(pid); bo=branches(out.pid().tolist())
    key=lambda P,rr: (tuple(np.float32(P).tolist()), float(np.float32(rr)))
    mi={(key(X[b[0]],R[b[0]]),key(X[b[-1]],R[b[-1]])):b for b in bi}
    mo={(key(Y[b[0]],Ro[b[0]]),key(Y[b[-1]],Ro[b[-1]])):b for b in bo}
    res['cases']+=1
    if set(mi)!=set(mo): res['critical connectivity']+=1; continue
    if out.length()>t.length()*(1+1e-5): res['length grows']+=1
    for kx,b in mi.items():
        o=mo[kx]; poly=X[b]; seg=np.linalg.norm(np.diff(poly,axis=0),axis=1); cum=np.concatenate([[0],np.cumsum(seg)]); L=cum[-1]
        params=[]
        for v in o:
            d,s=proj_param(Y[v],poly,cum); params.append(s)
            if d>1e-3: res['off polyline']+=1
            rexp=np.interp(s,cum,R[b])
            if abs(rexp-Ro[v])>1e-3: res['radius']+=1
        steps=np.diff(params); res['branches']+=1
        m=int(np.ceil(L/sp))
        if len(o)-1!=m: res['node count: got %d exp %d'%(len(o)-1-m,0)]+=1
        if (steps>sp*(1+1e-3)).any(): res['step>spacing']+=1
        if len(steps)>1 and np.ptp(steps)>1e-3*max(1,L): res['unequal steps']+=1
print(dict(res))
