#!/bin/bash
# Offline set-up: puts icontract beside the repository's interpreter (into /verif/.deps, git-ignored).
cd "$(dirname "$0")" || exit 2
if [ ! -d .deps/icontract ]; then
  /venv/bin/python -m pip install -q --no-index --find-links /opt/veriftools/wheels --target .deps icontract || exit 1
fi
mkdir -p out evidence
/venv/bin/python -c "import sys; sys.path.append('.deps'); import icontract, swcgeom; print('setup ok: icontract', icontract.__version__, 'swcgeom', swcgeom.__file__)"
