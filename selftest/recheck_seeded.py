#!/venv/bin/python
"""selftest/recheck_seeded.py [names...] : re-run the property's quick check against every kept
seeded change (seeded/<name>/patch.diff) on scratch worktrees, 8 at a time; updates meta.json."""
import concurrent.futures as cf
import glob, json, os, re, subprocess, sys, tempfile, shutil
V = os.path.dirname(os.path.dirname(os.path.abspath(__file__)))


def one(name):
    d = os.path.join(V, "seeded", name)
    prop = name[:3]
    wt = tempfile.mkdtemp(prefix="rv-re-"); os.rmdir(wt)
    try:
        subprocess.run(["git", "-C", "/repo", "worktree", "add", "-q", "--detach", wt, "HEAD"], check=True)
        r = subprocess.run(["git", "-C", wt, "apply", os.path.join(d, "patch.diff")], capture_output=True, text=True)
        if r.returncode:
            return name, None, "patch does not apply to HEAD"
        meta = json.load(open(os.path.join(d, "meta.json")))
        props = [prop] + [c for c in meta.get("my_checks", {}) if c != prop]
        rc, mechs = 0, []
        for c in props:
            p = subprocess.run(["./check", c, "--tier", "quick", "--seed", SEED], cwd=V,
                               env=dict(os.environ, RV_REPO=wt, RV_JOBS="4"), capture_output=True, text=True)
            if p.returncode == 1:
                rc = 1
                mechs += [c + ":" + m for m in sorted(set(re.findall(r"violated \[([^\]]+)\]", p.stdout)))[:3]]
                break
            rc = rc or p.returncode
        return name, rc, mechs[:4]
    finally:
        subprocess.run(["git", "-C", "/repo", "worktree", "remove", "--force", wt], capture_output=True)
        shutil.rmtree(wt, ignore_errors=True)


SEED = "0"
if "--seed" in sys.argv:
    i = sys.argv.index("--seed")
    SEED = sys.argv[i + 1]
    del sys.argv[i:i + 2]
names = sys.argv[1:] or sorted(os.path.basename(p) for p in glob.glob(os.path.join(V, "seeded", "*")))
bad = 0
with cf.ThreadPoolExecutor(6) as ex:
    for name, rc, info in ex.map(one, names):
        if rc != 1:
            bad += 1
        print(f"{name}: exit={rc} {info}")
        if rc is not None and SEED == "0":
            p = os.path.join(V, "seeded", name, "meta.json")
            m = json.load(open(p))
            m["caught"] = rc == 1
            m["last_recheck"] = {"exit": rc, "mechanisms": info if isinstance(info, list) else []}
            json.dump(m, open(p, "w"), indent=1); open(p, "a").write("\n")
print("not caught:", bad)
