#!/venv/bin/python
"""selftest/recheck_seeded.py [names...] : re-run the property's quick check against every kept
seeded change (seeded/<name>/patch.diff) on scratch worktrees, 8 at a time; updates meta.json."""
import concurrent.futures as cf
import glob, json, os, re, subprocess, sys, tempfile, shutil
V = os.path.dirname(os.path.dirname(os.path.abspath(__file__)))


def one(name):
    d = os.path.join(V, "seeded", name)
    prop = name[:3]
    wt = tempfile.mkdtemp(prefix="rv-re-"); os.rmdir(wt)
    try:
        subprocess.run(["git", "-C", "/repo", "worktree", "add", "-q", "--detach", wt, "HEAD"], check=True)
        r = subprocess.run(["git", "-C", wt, "apply", os.path.join(d, "patch.diff")], capture_output=True, text=True)
        if r.returncode:
            return name, None, "patch does not apply to HEAD"
        p = subprocess.run(["./check", prop, "--tier", "quick"], cwd=V, env=dict(os.environ, RV_REPO=wt, RV_JOBS="4"),
                           capture_output=True, text=True)
        mechs = sorted(set(re.findall(r"violated \[([^\]]+)\]", p.stdout)))
        return name, p.returncode, mechs[:4]
    finally:
        subprocess.run(["git", "-C", "/repo", "worktree", "remove", "--force", wt], capture_output=True)
        shutil.rmtree(wt, ignore_errors=True)


names = sys.argv[1:] or sorted(os.path.basename(p) for p in glob.glob(os.path.join(V, "seeded", "*")))
bad = 0
with cf.ThreadPoolExecutor(6) as ex:
    for name, rc, info in ex.map(one, names):
        if rc != 1:
            bad += 1
        print(f"{name}: exit={rc} {info}")
        if rc is not None:
            p = os.path.join(V, "seeded", name, "meta.json")
            m = json.load(open(p))
            m.setdefault("my_checks", {})[name[:3]] = {"tier": "quick", "exit": rc, "mechanisms": info if isinstance(info, list) else [],
                                                      "first": m.get("my_checks", {}).get(name[:3], {}).get("first", "")}
            m["caught"] = rc == 1
            json.dump(m, open(p, "w"), indent=1); open(p, "a").write("\n")
print("not caught:", bad)
