#!/venv/bin/python
"""selftest/mark_missed.py <name> <why> : record that a kept seeded change was missed by the check
as it stood when the change arrived (and why), after the check was strengthened and
recheck_seeded.py has confirmed that it is caught now (my_checks is brought up to date from
last_recheck)."""
import json, os, sys
V = os.path.dirname(os.path.dirname(os.path.abspath(__file__)))
name, why = sys.argv[1], sys.argv[2]
p = os.path.join(V, "seeded", name, "meta.json")
m = json.load(open(p))
lr = m.get("last_recheck") or {}
assert lr.get("exit") == 1, f"{name}: last recheck did not catch it: {lr}"
prop = name[:3]
for mech in lr.get("mechanisms", []):
    c, _, mm = mech.partition(":")
    e = m.setdefault("my_checks", {}).setdefault(c, {"tier": "quick", "mechanisms": []})
    e["exit"] = 1
    if mm not in e["mechanisms"]:
        e["mechanisms"].append(mm)
    e.setdefault("first", "")
m["caught"] = True
m["missed_at_first"] = True
m["why_missed_then"] = why
json.dump(m, open(p, "w"), indent=1)
open(p, "a").write("\n")
print(name, "marked")
