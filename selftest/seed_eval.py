#!/venv/bin/python
"""selftest/seed_eval.py <src-dir> <PROP> <variant> [--checks C01,C03] [--tier quick] [--keep]

Confirms one independently written breaking change (src-dir/<variant>.diff, <variant>_demo.py,
<variant>_meta.json) and runs my checks against it, always on a scratch worktree of /repo (never
/repo itself):
  1. the diff applies to /repo's HEAD;  2. the repository's 81 tests still pass with it;
  3. the demonstration fails with it and passes without it;
  4. the given checks (default: the property's own) are run with RV_REPO=<worktree>.
With --keep (and 1-3 confirmed) the change is stored as /verif/seeded/<PROP><variant>/
(patch.diff, demo.py, meta.json incl. what was run and what each check answered).
"""
import json
import os
import re
import shutil
import subprocess
import sys
import tempfile

VERIF = os.path.dirname(os.path.dirname(os.path.abspath(__file__)))


def sh(cmd, cwd=None, env=None, timeout=3000):
    p = subprocess.run(cmd, cwd=cwd, env=env, shell=isinstance(cmd, str), capture_output=True,
                       text=True, timeout=timeout)
    return p.returncode, p.stdout + p.stderr


def main():
    src, prop, var = sys.argv[1:4]
    args = sys.argv[4:]
    checks = [prop]
    tier = "quick"
    keep = "--keep" in args
    if "--checks" in args:
        checks = args[args.index("--checks") + 1].split(",")
    if "--tier" in args:
        tier = args[args.index("--tier") + 1]
    diff = os.path.join(src, f"{var}.diff")
    demo = os.path.join(src, f"{var}_demo.py")
    meta_in = os.path.join(src, f"{var}_meta.json")
    wt = tempfile.mkdtemp(prefix="rv-seed-")
    os.rmdir(wt)
    res = {"property": prop, "variant": var}
    try:
        rc, out = sh(["git", "-C", "/repo", "worktree", "add", "-q", "--detach", wt, "HEAD"])
        assert rc == 0, out
        rc, out = sh(["git", "-C", wt, "apply", diff])
        res["applies"] = rc == 0
        if rc != 0:
            print(json.dumps(res), out[-300:])
            return 4
        env = dict(os.environ, PYTHONPATH=wt, PYTHONDONTWRITEBYTECODE="1")
        rc, out = sh("/venv/bin/python -m pytest -q -p no:cacheprovider 2>&1 | tail -1", cwd=wt,
                     env=env)
        res["tests_with_change"] = out.strip()[-80:]
        res["tests_pass"] = bool(re.search(r"\b81 passed", out)) and "failed" not in out
        shutil.copy(demo, os.path.join(wt, "_demo.py"))
        rc, out = sh(["/venv/bin/python", "_demo.py"], cwd=wt, env=env, timeout=900)
        res["demo_exit_with_change"] = rc
        res["demo_tail_with_change"] = out.strip()[-300:]
        os.remove(os.path.join(wt, "_demo.py"))
        d2 = tempfile.mkdtemp(prefix="rv-seed-demo-")
        shutil.copy(demo, os.path.join(d2, "_demo.py"))
        env2 = dict(os.environ, PYTHONPATH="/repo", PYTHONDONTWRITEBYTECODE="1")
        rc, out = sh(["/venv/bin/python", "_demo.py"], cwd=d2, env=env2, timeout=900)
        shutil.rmtree(d2, ignore_errors=True)
        res["demo_exit_clean"] = rc
        res["confirmed"] = bool(res["tests_pass"] and res["demo_exit_with_change"] != 0
                                and res["demo_exit_clean"] == 0)
        res["checks"] = {}
        for c in checks:
            rc, out = sh(["./check", c, "--tier", tier], cwd=VERIF,
                         env=dict(os.environ, RV_REPO=wt), timeout=6000)
            mechs = sorted(set(re.findall(r"violated \[([^\]]+)\]", out)))
            first = next((l for l in out.splitlines() if "violated [" in l), "")
            res["checks"][c] = {"tier": tier, "exit": rc, "mechanisms": mechs[:8],
                                "first": first[:300]}
    finally:
        sh(["git", "-C", "/repo", "worktree", "remove", "--force", wt])
        shutil.rmtree(wt, ignore_errors=True)
    caught = any(v["exit"] == 1 for v in res["checks"].values())
    print(f"{prop}{var}: applies={res['applies']} tests_pass={res['tests_pass']} "
          f"demo(with/clean)={res['demo_exit_with_change']}/{res['demo_exit_clean']} "
          f"confirmed={res['confirmed']} caught={caught} "
          + " ".join(f"{c}:exit{v['exit']}{v['mechanisms'][:3]}" for c, v in res["checks"].items()))
    if keep and res["confirmed"]:
        dst = os.path.join(VERIF, "seeded", f"{prop}{var}")
        os.makedirs(dst, exist_ok=True)
        shutil.copy(diff, os.path.join(dst, "patch.diff"))
        shutil.copy(demo, os.path.join(dst, "demo.py"))
        m = {}
        if os.path.exists(meta_in):
            try:
                m = json.load(open(meta_in))
            except Exception:
                m = {"raw_meta": open(meta_in).read()[:2000]}
        old = {}
        if os.path.exists(os.path.join(dst, "meta.json")):
            old = json.load(open(os.path.join(dst, "meta.json")))
        chk = dict(old.get("my_checks", {}))
        chk.update(res["checks"])
        m.update({
            "property": prop,
            "origin": "written by an independent sub-agent that saw only the property text and "
                      "a scratch worktree of the repository (nothing from /verif)",
            "confirmed_by_me": {
                "what_i_ran": [
                    "git worktree add <scratch> HEAD; git apply patch.diff",
                    "PYTHONPATH=<scratch> /venv/bin/python -m pytest -q -p no:cacheprovider "
                    "(in the scratch worktree)",
                    "demo.py with PYTHONPATH=<scratch> and with PYTHONPATH=/repo",
                    "RV_REPO=<scratch> ./check <ID> --tier <tier> for each check below",
                ],
                "tests_with_change": res["tests_with_change"],
                "demo_exit_with_change": res["demo_exit_with_change"],
                "demo_exit_clean": res["demo_exit_clean"],
            },
            "my_checks": chk,
            "caught": any(v["exit"] == 1 for v in chk.values()),
        })
        with open(os.path.join(dst, "meta.json"), "w") as f:
            json.dump(m, f, indent=1)
            f.write("\n")
    return 0


if __name__ == "__main__":
    sys.exit(main())
