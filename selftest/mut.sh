#!/bin/bash
# selftest/mut.sh <patch.diff> <ID>[,<ID>...] [--tests] [--tier quick|thorough] [--demo demo.py]
# Applies the patch to a scratch worktree of /repo (never to /repo itself), optionally confirms the
# repository's own tests still pass, runs the given checks against it via RV_REPO, removes the worktree.
patch="$1"; ids="$2"; shift 2
tests=0; tier=quick; demo=""
while [ $# -gt 0 ]; do case "$1" in --tests) tests=1;; --tier) tier="$2"; shift;; --demo) demo="$2"; shift;; esac; shift; done
wt=$(mktemp -d /tmp/rv-mut-XXXXXX); rmdir "$wt"
git -C /repo worktree add -q --detach "$wt" HEAD || exit 3
trap 'git -C /repo worktree remove --force "$wt" >/dev/null 2>&1; rm -rf "$wt"' EXIT
if ! git -C "$wt" apply "$patch"; then echo "PATCH-DOES-NOT-APPLY"; exit 4; fi
if [ $tests = 1 ]; then
  (cd "$wt" && PYTHONPATH="$wt" /venv/bin/python -m pytest -q -p no:cacheprovider -x 2>&1 | tail -1)
fi
if [ -n "$demo" ]; then
  (cd "$wt" && PYTHONPATH="$wt" timeout 300 /venv/bin/python "$demo" >/dev/null 2>&1; echo "demo-exit-with-patch=$?")
  (cd /tmp && timeout 300 /venv/bin/python "$demo" >/dev/null 2>&1; echo "demo-exit-clean=$?")
fi
cd "$(dirname "$0")/.."
rc_all=0
for id in ${ids//,/ }; do
  out=$(RV_REPO="$wt" ./check "$id" --tier "$tier" 2>&1); rc=$?
  echo "$out" | grep -E "VIOLATION|INCONCLUSIVE|violated \[" | head -6
  echo "check $id exit=$rc"
  [ $rc -ne 0 ] && rc_all=$rc
done
exit $rc_all
