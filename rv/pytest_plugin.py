"""pytest plugin: run the repository's own tests with the C03 contract set (and the DSU class
invariant) installed.  Usage:  pytest -p rv.pytest_plugin   (PYTHONPATH must contain /verif)
Writes the recorder's observations to $RV_PLUGIN_OUT (JSON) at session end."""
import json
import os


def pytest_configure(config):
    from rv.core import bootstrap_repo

    bootstrap_repo()
    from rv import contracts
    from rv.checks import c18

    contracts.install()
    c18._install_dsu_invariant()


def pytest_sessionfinish(session, exitstatus):
    from rv import contracts
    from rv.checks import c18

    out = os.environ.get("RV_PLUGIN_OUT")
    data = {"evaluations": dict(contracts.REC.evals),
            "problems": [list(p) for p in contracts.REC.problems],
            "dsu_invariant_evaluations": c18._DsuInv.evals,
            "dsu_problems": list(c18._DsuInv.problems), "exitstatus": int(exitstatus)}
    if out:
        with open(out, "w") as f:
            json.dump(data, f)
    print("\n[rv] contracts during the repository's tests:", json.dumps(data)[:600])
