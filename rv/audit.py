"""sys.addaudithook recorder for file opens below a given root (audit hooks cannot be removed,
so one global hook is installed once and switched by a scope)."""

from __future__ import annotations

import os
import sys

_LOG: list[tuple[str, str]] = []
_ROOT: str | None = None
_INSTALLED = False


def _hook(event, args):
    if _ROOT is None or event != "open":
        return
    try:
        path = args[0]
        if isinstance(path, bytes):
            path = os.fsdecode(path)
        if isinstance(path, str):
            if not path.startswith(_ROOT):
                # another spelling of a file below the root (relative, doubled separators, ..)
                path = os.path.realpath(path)
            if path.startswith(_ROOT):
                _LOG.append((path, str(args[1])))
    except Exception:  # an audit hook must never raise into the program
        pass


def start(root: str) -> None:
    global _ROOT, _INSTALLED
    if not _INSTALLED:
        sys.addaudithook(_hook)
        _INSTALLED = True
    _LOG.clear()
    _ROOT = os.path.realpath(root) + os.sep


def stop() -> list[tuple[str, str]]:
    global _ROOT
    _ROOT = None
    out = list(_LOG)
    _LOG.clear()
    return out


def snapshot() -> list[tuple[str, str]]:
    return list(_LOG)
