import sys

from rv.core import main

if __name__ == "__main__":
    sys.exit(main())
