"""The global C03 contract set: icontract pre-snapshots and post-conditions wrapped around the
library's real tree -> tree entry points.

Conditions *record and return True* (a failing contract never aborts the workload and never
masks later events); the recorder collects verdicts.  Wrapped module-level functions are
re-bound in every loaded ``swcgeom.*`` module that holds the original object (``from m import
f`` references would otherwise bypass the contract); class-level ``__call__`` / methods are
replaced on the class, which no reference can bypass.  Evaluation counters make a bypass visible
(zero evaluations => inconclusive).
"""

from __future__ import annotations

import hashlib
import sys
from collections import Counter

import numpy as np

from rv.oracles import topo


def fingerprint(t) -> tuple:
    cols = tuple(
        (k, v.dtype.str, v.shape, hashlib.sha1(np.ascontiguousarray(v).tobytes()).hexdigest())
        for k, v in sorted(t.ndata.items())
    )
    return (cols, getattr(t, "source", None), tuple(getattr(t, "comments", ()) or ()))


def _is_tree(x) -> bool:
    from swcgeom.core import Tree

    return isinstance(x, Tree)


class FP(list):
    """Input fingerprints taken at the entry of a contracted call, plus the fingerprints (taken at
    the same moment) of the results that the last few contracted calls returned."""

    held: list = []


class Recorder:
    def __init__(self):
        self.evals = Counter()
        self.problems: list[tuple[str, str, str]] = []  # (function, mechanism, detail)
        self.held: list = []  # (function, result tree) of the last two contracted calls

    def snap(self, fps: list) -> "FP":
        out = FP(fps)
        out.held = [(fn, t, fingerprint(t)) for fn, t in self.held]
        return out

    def problem(self, fn, mech, detail):
        if len(self.problems) < 200:
            self.problems.append((fn, mech, detail))

    # ------------------------------------------------------------ the checks themselves
    def check(self, fn: str, inputs: list, old_fps: list, result, mode: str = "general",
              root_pos: int | None = None) -> None:
        self.evals[fn] += 1
        # results handed out by earlier calls belong to the caller: whatever they were when this
        # call began (the harness may have edited them meanwhile), this call must not touch them
        for fn0, t0, fp0 in getattr(old_fps, "held", ()):
            self.evals["earlier_results_rechecked"] += 1
            if t0 is not result and not any(t0 is i_ for i_ in inputs) and fingerprint(t0) != fp0:
                self.problem(fn, "earlier-result-changed",
                             f"the tree returned by an earlier {fn0} call was modified while "
                             f"{fn} ran on other trees (shared scratch storage?)")
        if _is_tree(result):
            self.held = (self.held + [(fn, result)])[-2:]
        if not _is_tree(result):
            return
        ids, pid = result.id(), result.pid()
        n = len(ids)
        if n == 0:
            # nothing survived (a type no node has, everything pruned): the statement's
            # well-formed trees have a root, so this lies outside it; counted, not decided
            self.evals["empty_results"] += 1
            return
        if mode == "root_at":
            # re-rooting with sorting switched off keeps the new root at its old position
            ok = None
            if not np.array_equal(ids, np.arange(n)):
                ok = "ids are not 0..n-1"
            else:
                roots = np.nonzero(pid == -1)[0]
                if len(roots) != 1 or int(roots[0]) != int(root_pos):
                    ok = f"roots at {roots[:4].tolist()}, expected exactly [{root_pos}]"
                elif ((pid < -1) | (pid >= n)).any():
                    ok = "a parent id names no node"
                else:
                    ch = topo.children_lists(pid)
                    if len(topo.descendants(ch, int(root_pos))) != n:
                        ok = "some node does not reach the root"
            if ok:
                self.problem(fn, "malformed-result", ok)
        elif any(_is_tree(t) and topo.well_formed(t.id(), t.pid()) for t in inputs):
            # the statement speaks of operations applied to well-formed trees; an input whose
            # root is not stored at position 0 (legal output of re-rooting without sorting) is
            # outside it, so nothing is demanded of the result's numbering here
            self.evals["skipped_input_not_wellformed"] += 1
        else:
            wf = topo.well_formed(ids, pid)
            if wf:
                self.problem(fn, "malformed-result", wf)
            elif mode == "sorted" and n > 1 and not np.all(pid[1:] < ids[1:]):
                self.problem(fn, "not-sorted", "documented sorted output has a parent after its "
                                               "child")
        for k, v in result.ndata.items():
            if len(v) != n:
                self.problem(fn, "malformed-result", f"column {k!r} has {len(v)} entries for {n} "
                                                     f"nodes")
        for t, fp in zip(inputs, old_fps):
            if not _is_tree(t):
                continue
            if fingerprint(t) != fp:
                self.problem(fn, "input-mutated", "an input tree was modified by the call")
            if result is t:
                self.problem(fn, "result-is-input", "the operation returned its input object")
                continue
            if result.ndata is t.ndata:
                self.problem(fn, "shares-storage", "result and input share the column dict")
            if result.comments is t.comments and isinstance(t.comments, list):
                self.problem(fn, "shares-storage", "result and input share the comment list")
            for a, va in result.ndata.items():
                for b, vb in t.ndata.items():
                    if isinstance(va, np.ndarray) and isinstance(vb, np.ndarray) \
                            and np.shares_memory(va, vb):
                        self.problem(fn, "shares-storage",
                                     f"result column {a!r} shares memory with input column {b!r}")
                        break


REC = Recorder()
_INSTALLED = False


class _Never(Exception):
    pass


def _rebind(original, wrapped):
    for name, mod in list(sys.modules.items()):
        if not name.startswith("swcgeom") or mod is None:
            continue
        for attr, val in list(vars(mod).items()):
            if val is original:
                setattr(mod, attr, wrapped)


def install():
    """Install the contract set (idempotent). Returns the shared recorder."""
    global _INSTALLED
    if _INSTALLED:
        return REC
    _INSTALLED = True
    import icontract

    import swcgeom.transforms  # noqa: make sure every module is loaded before re-binding
    from swcgeom.core import Tree, tree_utils
    from swcgeom.transforms import base as tbase
    from swcgeom.transforms import geometry as geo
    from swcgeom.transforms import tree as ttree

    # ---- condition functions (named, argument names match the wrapped functions) --------
    def snap_tree(tree):
        return REC.snap([fingerprint(tree)] if _is_tree(tree) else [None])

    def snap_swc_like(swc_like):
        return REC.snap([fingerprint(swc_like)] if _is_tree(swc_like) else [None])

    def snap_two(tree1, tree2):
        return REC.snap([fingerprint(tree1), fingerprint(tree2)])

    def snap_x(x):
        return REC.snap([fingerprint(x)] if _is_tree(x) else [None])

    def snap_self_attach(self):
        return REC.snap([fingerprint(self.attach)] if _is_tree(self.attach) else [None])

    def post_sort_tree(tree, result, OLD):
        REC.check("sort_tree", [tree], OLD.fp, result, "sorted")
        return True

    def post_cut_tree(tree, result, OLD):
        REC.check("cut_tree", [tree], OLD.fp, result)
        return True

    def post_to_subtree(swc_like, result, OLD):
        REC.check("to_subtree", [swc_like], OLD.fp, result)
        return True

    def post_get_subtree(swc_like, result, OLD):
        REC.check("get_subtree", [swc_like], OLD.fp, result)
        return True

    def post_redirect(tree, new_root, sort, result, OLD):
        if sort:
            REC.check("redirect_tree", [tree], OLD.fp, result, "sorted")
        else:
            REC.check("redirect_tree", [tree], OLD.fp, result, "root_at", int(new_root))
        return True

    def post_cat(tree1, tree2, result, OLD):
        REC.check("cat_tree", [tree1, tree2], OLD.fp, result)
        return True

    def post_node_subtree(self, result, OLD):
        REC.check("Node.subtree", [self.attach], OLD.fp, result)
        return True

    def make_post_x(label):
        def post_x(self, x, result, OLD):
            if _is_tree(x):
                REC.check(label or type(self).__name__, [x], OLD.fp, result)
            return True

        return post_x

    def wrap(fn, snap, post):
        return icontract.snapshot(snap, name="fp")(icontract.ensure(post, error=_Never)(fn))

    for name, snap, post in [
        ("sort_tree", snap_tree, post_sort_tree),
        ("cut_tree", snap_tree, post_cut_tree),
        ("to_subtree", snap_swc_like, post_to_subtree),
        ("get_subtree", snap_swc_like, post_get_subtree),
        ("redirect_tree", snap_tree, post_redirect),
        ("cat_tree", snap_two, post_cat),
    ]:
        orig = getattr(tree_utils, name)
        _rebind(orig, wrap(orig, snap, post))

    Tree.Node.subtree = wrap(Tree.Node.subtree, snap_self_attach, post_node_subtree)
    for cls in (ttree.CutByType, ttree.CutByFurcationOrder, ttree.CutShortTipBranch,
                ttree.TreeSmoother, ttree.Resampler, geo.AffineTransform, geo.TranslateOrigin,
                geo.Normalizer, geo.RadiusReseter, tbase.Transforms):
        cls.__call__ = wrap(cls.__call__, snap_x, make_post_x(
            None if cls in (geo.AffineTransform, ttree.Resampler) else cls.__name__))
    return REC


def report(ctx, label: str) -> None:
    """Hand the verdicts recorded while another check's workload ran to that check's collector."""
    for fn, mech, detail in REC.problems:
        ctx.violation("c03-contract:" + mech, f"{fn}: {detail}",
                      {"note": f"global C03 contract set during the {label} workload"})
    ctx.count("c03_contract_evaluations", sum(REC.evals.values()))
    ctx.count("earlier_results_rechecked", REC.evals.get("earlier_results_rechecked", 0))
