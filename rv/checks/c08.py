"""C08 — branches, paths, tips and furcations decompose the tree exactly.

Monitor: value comparison of every decomposition call with a children-list reference
(critical nodes, maximal chains between them, root-to-tip paths), compared as sets of id tuples;
the partition property is additionally asserted directly (every edge in exactly one branch,
interiors have exactly one child).  BranchTree is compared through unique tags, and its memory of
the original branches is probed after the source tree has been edited.
"""

from __future__ import annotations

import warnings
from collections import Counter

import numpy as np

from rv import probes
from rv.gen import trees as G
from rv.oracles import topo

PROPERTY = "C08"
LEVEL = "exploration"
TECHNIQUE = ("runtime monitoring: value comparison of get_branches/get_paths/get_tips/"
             "get_furcations/Node.is_tip/is_furcation/Node.branch/BranchTree/ToLongestPath with a "
             "children-list reference; direct edge-partition assertion; tag-based branch-tree "
             "comparison and a poison probe on the remembered branches")
LEVEL_TEXT = ("Exploration: every generated tree (all shape classes with emphasis on roots with one, "
              "two and many children, single nodes, unbranched chains, stems of 1..50 nodes; sorted "
              "and permuted numberings) is decomposed by the real functions and compared with the "
              "reference; every node's predicates and Node.branch are checked on small trees."
              "A third of the trees are derived from an already queried tree (re-rooted, sorted, copied and edited, or edited in place through a node handle); node predicates are also read through negative-position handles."
              " Generated trees come in several representations of the same values (strided, other dtypes / lists, one array as two columns, read-only where the harness never writes) and half of them were queried, a third put through aborted operations, before use. Topology is also edited through the caller's own parent array (the tree holds a read-only view of it)."
              " Fan-outs of exactly 255 / 256 / 257 / 512 / 513 at the root and at an interior node; size sweep to 2050 nodes."
              " BranchTree instances handed to ToBranchTree / from_tree."
              " Decompositions asked for from inside the callbacks of a traversal of another tree."
              " One tree of 40 000 .. 70 000 nodes through the decompositions."
              " The lists handed out are emptied / reversed in place and the decompositions asked for again.")
LEVEL_NOTE = ("Branch / path order is free (sets of id tuples); ToLongestPath ties within 1e-6 "
              "relative are inconclusive; Node.branch is decided for pass-through nodes, tips and a "
              "root with one child (for a furcation the statement says nothing).")
RULE = ("cases = tree recipes (shape, size, numbering, geometry); per tree: branches, paths, tips, "
        "furcations, per-node predicates, Node.branch, BranchTree.from_tree, ToBranchTree, "
        "ToLongestPath; non-trivial when the tree has >= 3 nodes; distinct = distinct recipes")
ASSUMPTIONS = [
    "inputs are well-formed trees (id == position, root 0), any numbering",
    "order of the returned branches / paths / tips / furcations is unspecified",
]
REQUIRED = ["trees_of_tens_of_thousands_of_nodes", "decompositions_asked_again_after_the_lists_were_edited", "branch_tree_from_data_frame", "decompositions_from_inside_a_traversal", "branches_checked", "paths_checked", "tips_checked", "furcations_checked",
            "node_predicates_checked", "node_branch_checked", "branch_tree_checked",
            "branch_tree_memory_probed", "longest_path_checked", "root_one_child_trees",
            "derived_trees_checked", "negative_position_handles", "relinked_through_callers_array",
            "fan_outs_of_256_and_more", "size_sweep_cases", "branch_tree_instances_decomposed",
            "tap_get_branches", "tap_from_tree"]
FLOOR = {"quick": 550, "thorough": 50000}
SHARDS = {"quick": 8, "thorough": 16}


def _ids(p):
    return tuple(int(i) for i in p.origin_id())


def _exec(ctx, case):
    from swcgeom.core.tree_utils import redirect_tree, sort_tree

    spec = G.spec_from_recipe(case["tree"])
    tree = G.build(spec)
    derive = case.get("derive")
    if not derive:
        return _check(ctx, case, tree, spec)
    # the decomposition of a tree *derived* from one that was already queried (copies carry
    # whatever the first queries cached) and of a tree edited in place through a node handle
    n = len(spec["pid"])
    tree.get_branches(), tree.get_paths(), tree.get_furcations(), tree.get_tips()
    rng = np.random.default_rng(case["dseed"])
    if derive == "redirect" and n >= 2:
        t2 = redirect_tree(tree, int(rng.integers(0, n)))
    elif derive == "copy-edit" and n >= 3:
        t2 = tree.copy()
        pid = np.asarray(t2.pid()).astype(np.int64)
        ch = topo.children_lists(pid)
        k = int(rng.integers(1, n))
        sub = set(topo.descendants(ch, k))
        cands = [j for j in range(n) if j not in sub and j != pid[k]]
        if not cands:
            return
        t2.node(k).pid = int(cands[int(rng.integers(0, len(cands)))])
    elif derive == "edit-in-place" and n >= 3:
        t2 = tree
        pid = np.asarray(t2.pid()).astype(np.int64)
        ch = topo.children_lists(pid)
        k = int(rng.integers(1, n))
        sub = set(topo.descendants(ch, k))
        cands = [j for j in range(n) if j not in sub and j != pid[k]]
        if not cands:
            return
        t2.node(k).pid = int(cands[int(rng.integers(0, len(cands)))])
    elif derive == "edit-callers-array" and n >= 3:
        # the tree was built on the caller's own parent array, handed over as a read-only view;
        # the caller then re-links a node in *its* array: the tree shows the new topology
        from swcgeom.core import Tree

        kw = {k: np.array(v, copy=True) for k, v in spec.items()}
        base = kw["pid"].astype(np.int32)
        ro = base.view()
        ro.setflags(write=False)
        kw["pid"] = ro
        t2 = Tree(n, **kw)
        if not np.shares_memory(t2.pid(), base):
            return ctx.skip("the constructor copied the caller's parent array")
        t2.get_branches(), t2.get_tips(), t2.get_furcations()
        for i in range(n):
            nd = t2.node(i)
            nd.is_tip(), nd.is_furcation(), nd.children()
            if i and not nd.is_furcation():
                try:
                    nd.branch()
                except Exception:
                    pass
        pid = base.astype(np.int64)
        ch = topo.children_lists(pid)
        k = int(rng.integers(1, n))
        sub = set(topo.descendants(ch, k))
        cands = [j for j in range(n) if j not in sub and j != pid[k]]
        if not cands:
            return
        base[k] = int(cands[int(rng.integers(0, len(cands)))])
        ctx.count("relinked_through_callers_array")
    elif derive == "branch-tree" and n >= 3:
        # a BranchTree instance is a tree: its decomposition (and *its* branch tree) follow from
        # its own node table, not from the neuron it was once reduced from
        t2, _ = G.as_branch_tree(tree)
        if t2 is None:
            return
        ctx.count("branch_tree_instances_decomposed")
    elif derive == "sort":
        t2 = sort_tree(tree)
    else:
        return
    ctx.count("derived_trees_checked")
    spec2 = {k: np.array(v, copy=True) for k, v in t2.ndata.items() if k != "id"}
    return _check(ctx, case, t2, spec2)


def _check(ctx, case, tree, spec):
    from swcgeom.core import BranchTree, Tree
    from swcgeom.transforms import ToBranchTree, ToLongestPath

    pid = spec["pid"]
    n = len(pid)
    ch = topo.children_lists(pid)
    root, fur, tips = topo.critical_nodes(pid)
    exp_br = set(topo.branches(pid))
    exp_paths = set(topo.paths(pid))
    if len(ch[0]) == 1:
        ctx.count("root_one_child_trees")

    if case.get("nested") and n <= 400:
        # the decompositions asked for by user code that is itself running inside a traversal of
        # another tree (per-node statistics): same answers, and the walk in progress goes on
        def decomp():
            bt_ = BranchTree.from_tree(tree)
            return (sorted(_ids(b) for b in tree.get_branches()),
                    sorted(_ids(p) for p in tree.get_paths()),
                    sorted(int(x.id) for x in tree.get_tips()),
                    sorted(int(x.id) for x in tree.get_furcations()),
                    bt_.number_of_nodes())

        want = (sorted(exp_br), sorted(exp_paths), sorted(tips), sorted(fur),
                len({root, *fur, *tips}))
        e_, l_, prob = G.inside_traversal(decomp, host=G.host_tree(case["tree"].get("seed", 0) % 7,
                                                                    7 + case["tree"].get("seed", 0) % 9))
        ctx.count("decompositions_from_inside_a_traversal")
        if prob:
            return ctx.violation("outer-traversal-disturbed",
                                 f"a traversal of another tree, from whose callbacks the "
                                 f"decompositions of this tree were asked for: {prob}", case)
        r_ = G.same_under_ambient(lambda: list(decomp()), pick=n + len(exp_br))
        if r_:
            return ctx.violation("ambient-state", f"decompositions: {r_}", case)
        for where, res in (("enter", e_), ("leave", l_)):
            if res != want:
                k_ = [i for i in range(5) if res is None or res[i] != want[i]]
                return ctx.violation("nested-decomposition-wrong",
                                     f"asked from inside the {where} callback of a traversal of "
                                     f"another tree, {['branches', 'paths', 'tips', 'furcations', 'branch-tree nodes'][k_[0]]}"
                                     f" differ from the tree's own (n={n})", case)
    # --- branches
    brs = tree.get_branches()
    got = [_ids(b) for b in brs]
    ctx.count("branches_checked")
    if len(got) != len(set(got)):
        return ctx.violation("branch-duplicated", f"get_branches returned a branch twice: "
                                                  f"{[g for g, c in Counter(got).items() if c > 1][:3]}",
                             case)
    if set(got) != exp_br:
        miss, extra = sorted(exp_br - set(got))[:3], sorted(set(got) - exp_br)[:3]
        return ctx.violation("branches-wrong",
                             f"get_branches: missing {miss}, unexpected {extra} "
                             f"(root has {len(ch[0])} child(ren), n={n})", case)
    # partition stated directly
    edges = Counter()
    for b in got:
        if not (b[0] == root or len(ch[b[0]]) >= 2):
            return ctx.violation("branch-start", f"branch {b} does not start at the root or a "
                                                 f"furcation", case)
        if not (len(ch[b[-1]]) >= 2 or len(ch[b[-1]]) == 0):
            return ctx.violation("branch-end", f"branch {b} does not end at a furcation or tip",
                                 case)
        for u in b[1:-1]:
            if len(ch[u]) != 1:
                return ctx.violation("branch-interior", f"branch {b} passes through node {u} with "
                                                        f"{len(ch[u])} children", case)
        for p, c in zip(b[:-1], b[1:]):
            if pid[c] != p:
                return ctx.violation("branch-not-a-chain", f"branch {b}: {p}->{c} is not an edge",
                                     case)
            edges[(p, c)] += 1
    all_edges = {(int(p), i) for i, p in enumerate(pid) if p >= 0}
    if set(edges) != all_edges or any(v != 1 for v in edges.values()):
        return ctx.violation("edge-partition", "the branches do not cover every edge exactly once",
                             case)
    for b in brs:
        if b.attach is not tree or len(b) != len(_ids(b)):
            return ctx.violation("branch-object", "branch is not attached to its tree / wrong len",
                                 case)

    # --- paths
    ps = tree.get_paths()
    gp = [_ids(p) for p in ps]
    ctx.count("paths_checked")
    if len(gp) != len(tips) or set(gp) != exp_paths:
        return ctx.violation("paths-wrong", f"get_paths: {len(gp)} paths for {len(tips)} tips; "
                                            f"missing {sorted(exp_paths - set(gp))[:2]}, unexpected "
                                            f"{sorted(set(gp) - exp_paths)[:2]}", case)
    # --- tips / furcations
    gt = [int(x.id) for x in tree.get_tips()]
    ctx.count("tips_checked")
    if sorted(gt) != sorted(tips):
        return ctx.violation("tips-wrong", f"get_tips = {sorted(gt)[:8]}, childless nodes = "
                                           f"{sorted(tips)[:8]}", case)
    gf = [int(x.id) for x in tree.get_furcations()]
    ctx.count("furcations_checked")
    if sorted(gf) != sorted(fur):
        return ctx.violation("furcations-wrong", f"get_furcations = {sorted(gf)[:8]}, nodes with "
                                                 f">= 2 children = {sorted(fur)[:8]}", case)
    # the lists handed out belong to the caller: emptied / reversed in place, then asked for again
    brs.clear()
    ps.reverse()
    del ps[: len(ps) // 2]
    tl_, fl_ = tree.get_tips(), tree.get_furcations()
    if isinstance(tl_, list):
        tl_.clear()
    if isinstance(fl_, list):
        fl_.clear()
    ctx.count("decompositions_asked_again_after_the_lists_were_edited")
    if {_ids(b) for b in tree.get_branches()} != exp_br or \
            {_ids(p) for p in tree.get_paths()} != exp_paths or \
            sorted(int(x.id) for x in tree.get_tips()) != sorted(tips) or \
            sorted(int(x.id) for x in tree.get_furcations()) != sorted(fur):
        return ctx.violation("handed-out-list-is-internal",
                             "after the caller emptied / reversed the lists get_branches / get_paths "
                             "/ get_tips / get_furcations had returned, the same tree reports other "
                             "decompositions", case)
    if case.get("big"):
        return  # (tens of thousands of nodes: the decompositions above only)
    # --- per node predicates and Node.branch
    nodes = range(n) if n <= 60 else sorted(set(ctx.rng.integers(0, n, 25).tolist()))
    br_of = {}
    for b in exp_br:
        for u in b[1:]:
            br_of[u] = b  # the branch a non-start node lies on
    for v in nodes:
        # the same node addressed by position, from the end, or by item access
        nd = (tree.node(v), tree[v - n], tree.node(v - n), tree[v])[v % 4]
        if v % 4 in (1, 2):
            ctx.count("negative_position_handles")
        if bool(nd.is_tip()) != (len(ch[v]) == 0):
            return ctx.violation("is_tip-wrong", f"node {v} with {len(ch[v])} children: is_tip() = "
                                                 f"{nd.is_tip()}", case)
        if bool(nd.is_furcation()) != (len(ch[v]) >= 2):
            return ctx.violation("is_furcation-wrong", f"node {v} with {len(ch[v])} children: "
                                                       f"is_furcation() = {nd.is_furcation()}", case)
        ctx.count("node_predicates_checked")
        want = None
        if len(ch[v]) <= 1 and v != root:
            want = br_of[v]
        elif v == root and len(ch[v]) == 1:
            want = next(b for b in exp_br if b[0] == root)
        if want is not None:
            gotb = _ids(nd.branch())
            ctx.count("node_branch_checked")
            if gotb != want:
                return ctx.violation("node-branch-wrong", f"node({v}).branch() = {gotb}, the "
                                                          f"branch containing it is {want}", case)

    # --- branch tree
    for via in ("ToBranchTree", "from_tree"):  # (the from_tree pass ends by rebuilding `tree`)
        bt = BranchTree.from_tree(tree) if via == "from_tree" else ToBranchTree()(tree)
        ctx.count("branch_tree_checked")
        wf = topo.well_formed(bt.id(), bt.pid())
        if wf:
            return ctx.violation("branch-tree-malformed", f"{via}: {wf}", case)
        tags = bt.ndata["tag"]
        crit = sorted({root, *fur, *tips})
        if sorted(int(t) for t in tags) != sorted(int(spec["tag"][c]) for c in crit):
            return ctx.violation("branch-tree-nodes", f"{via}: nodes are not exactly root, "
                                                      f"furcations and tips", case)
        pos_in = {int(t): i for i, t in enumerate(spec["tag"])}
        idx = np.array([pos_in[int(t)] for t in tags])
        for k in ("type", "x", "y", "z", "r"):
            if not np.array_equal(bt.ndata[k], spec[k][idx]):
                return ctx.violation("branch-tree-attr", f"{via}: attribute {k} not carried", case)
        rel = {int(tags[i]): (int(tags[p]) if p >= 0 else None) for i, p in enumerate(bt.pid())}
        exp_rel = {int(spec["tag"][root]): None}
        for b in exp_br:
            exp_rel[int(spec["tag"][b[-1]])] = int(spec["tag"][b[0]])
        if rel != exp_rel:
            return ctx.violation("branch-tree-edges", f"{via}: nodes are not joined as the "
                                                      f"branches join them", case)

        def remembered():
            out = []
            for b in bt.get_origin_branches():
                out.append((tuple(int(t) for t in b.get_ndata("tag")),
                            b.xyzr().astype(np.float64).round(6).tobytes()))
            return sorted(out)

        exp_mem = sorted((tuple(int(spec["tag"][u]) for u in b),
                          np.stack([spec[k][list(b)] for k in "xyzr"], axis=1)
                          .astype(np.float64).round(6).tobytes()) for b in exp_br)
        mem = remembered()
        if mem != exp_mem:
            return ctx.violation("branch-tree-memory", f"{via}: get_origin_branches() does not "
                                                       f"return the original branches' points", case)
        # per node view
        for i in range(len(tags)):
            starts = sorted(tuple(int(t) for t in b.get_ndata("tag"))
                            for b in (bt.get_origin_node_branches(i) if i in bt.branches else []))
            want = sorted(tuple(int(spec["tag"][u]) for u in b) for b in exp_br
                          if int(spec["tag"][b[0]]) == int(tags[i]))
            if starts != want:
                return ctx.violation("branch-tree-memory", f"{via}: branches stored at node {i} "
                                                           f"are not those starting there", case)
        if via == "ToBranchTree" and n <= 300:
            # the table-level constructor: the branch tree of the tree a table describes
            import pandas as pd

            df_ = pd.DataFrame({k: np.array(tree.ndata[k]) for k in ("id", "type", "x", "y", "z", "r",
                                                                     "pid")})
            bt2 = BranchTree.from_data_frame(df_)
            ctx.count("branch_tree_from_data_frame")
            if bt2.number_of_nodes() != len(crit) or sorted(
                    tuple(np.round(b.xyzr().astype(np.float64), 6).ravel())
                    for b in bt2.get_origin_branches()) != sorted(
                    tuple(np.round(np.stack([spec[k][list(b)] for k in "xyzr"], axis=1)
                                   .astype(np.float64), 6).ravel()) for b in exp_br):
                return ctx.violation("branch-tree-nodes", "BranchTree.from_data_frame: not the branch "
                                                          "tree of the table's tree", case)
        if via == "from_tree":
            # "remembers each original branch's points": later edits of the source must not show
            for k in "xyz":
                tree.ndata[k] += np.float32(12345.0)
            tree.ndata["r"] *= np.float32(3.0)
            ctx.count("branch_tree_memory_probed")
            if remembered() != exp_mem:
                return ctx.violation("branch-tree-memory-aliased",
                                     "BranchTree: remembered branch points changed after the "
                                     "source tree was edited (they are views, not a memory)", case)
            tree = G.build(spec)

    # --- longest path
    xyz = np.stack([spec["x"], spec["y"], spec["z"]], axis=1).astype(np.float64)
    lens = {p: float(np.linalg.norm(np.diff(xyz[list(p)], axis=0), axis=1).sum()) for p in exp_paths}
    order = sorted(lens.values(), reverse=True)
    if len(order) >= 2 and order[0] - order[1] <= 1e-6 * (1 + order[0]):
        ctx.skip("longest path tie within rounding")
    else:
        best = max(lens, key=lens.get)
        p1 = ToLongestPath(detach=False)(tree)
        p2 = ToLongestPath()(tree)
        ctx.count("longest_path_checked")
        if _ids(p1) != best:
            return ctx.violation("longest-path-wrong", f"ToLongestPath = {_ids(p1)}, longest is "
                                                       f"{best}", case)
        if not np.array_equal(p2.xyz(), np.stack([spec[k][list(best)] for k in "xyz"], axis=1)):
            return ctx.violation("longest-path-wrong", "ToLongestPath(detach=True) has other points",
                                 case)


def execute(ctx, case):
    try:
        with warnings.catch_warnings():
            warnings.simplefilter("ignore")
            _exec(ctx, case)
    except Exception as e:
        ctx.violation("op-raised", f"{type(e).__name__}: {str(e)[:300]}", case)


def run(ctx):
    from swcgeom.core import BranchTree, Tree

    tap = probes.CallTap({"get_branches": Tree.get_branches, "from_tree": BranchTree.from_tree,
                          "get_paths": Tree.get_paths})
    with tap:
        rng = ctx.rng
        n_trees = ctx.scale(1100, 100000)
        for k in range(n_trees):
            if k % 6 == 0:  # stems of length 1..50 before the first furcation, explicit root degrees
                rc = G.random_recipe(rng, max_n=int(rng.integers(3, 80)), shapes=["stem", "chain"],
                                     extras=0)
            elif k % 6 == 1:
                rc = G.random_recipe(rng, max_n=30, shapes=["star", "neuron", "binary", "single",
                                                            "pair"], extras=0)
            else:
                rc = G.random_recipe(rng, max_n=G.size_ladder(ctx, k, 10, 45, 300), extras=0)
            case = {"tree": rc}
            if k % 4 == 1:
                case["nested"] = True
            if k % 3 == 2:
                case["derive"] = str(rng.choice(["redirect", "copy-edit", "edit-in-place", "sort",
                                                   "edit-callers-array", "branch-tree"]))
                case["dseed"] = int(rng.integers(0, 2**31 - 1))
            ctx.case(case, nontrivial=rc["n"] >= 3, klass=rc["shape"] + "/" + rc["numbering"])
            execute(ctx, case)
        # fan-outs no random tree reaches: exactly 255 / 256 / 257 / 512 / 513 children at the root
        # and at an interior node; and node counts on / next to powers of two, big branched trees
        fam = [("star", k + 1) for k in (255, 256, 257, 512, 513)] + \
              [("hub", k + 3) for k in (255, 256, 257, 512, 513)]
        for j, (shape, n_) in enumerate(fam):
            if j % ctx.nshards != ctx.shard:
                continue
            rc = {"shape": shape, "n": n_, "numbering": "perm" if j % 2 else "sorted",
                  "geom": "gauss", "types": "soma", "extras": 0, "seed": 100 + j}
            case = {"tree": rc}
            ctx.case(case, klass="fan-out/" + shape)
            ctx.count("fan_outs_of_256_and_more")
            execute(ctx, case)
        for j, rc in enumerate(G.sweep_recipes(ctx, max_small=2050)):  # (per-node predicates: O(n^2))
            case = {"tree": rc}
            ctx.case(case, klass="size-sweep")
            ctx.count("size_sweep_cases")
            execute(ctx, case)
        # sizes between 2^15 and 2^16 and beyond (16-bit index types wrap there): branches, paths,
        # tips and furcations of one such tree per quick run, all of them in the thorough tier
        bigs = [40000, 50000, 65000, 70000]
        for j, n_ in enumerate(bigs if not ctx.quick else [bigs[ctx.seed % 3]]):
            if (j + 3) % ctx.nshards == ctx.shard:
                case = {"tree": {"shape": "recursive" if (j + ctx.seed) % 2 else "binary", "n": n_,
                                 "numbering": "perm", "geom": "growth", "types": "soma",
                                 "extras": 0, "seed": 500 + n_ + ctx.seed}, "big": True}
                ctx.case(case, klass="size-sweep/large")
                ctx.count("trees_of_tens_of_thousands_of_nodes")
                execute(ctx, case)
        for j, rc in enumerate(G.real_recipes(rng, 1000 if ctx.quick else None)):
            if j % ctx.nshards == ctx.shard:
                case = {"tree": rc}
                ctx.case(case, klass="real-morphology")
                ctx.count("real_morphologies")
                execute(ctx, case)
    for k, v in tap.counts.items():
        ctx.count("tap_" + k, v)


def replay(ctx, case):
    ctx.case(case)
    execute(ctx, case)
