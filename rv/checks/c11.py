"""C11 — morphometrics do not depend on pose or node numbering.

Monitor: metamorphic pairs.  The transformed twin of every generated tree is built by the
*harness* in float64 (random proper rotation from a QR factorisation, translation up to 1e3,
uniform scale s, random root-preserving renumbering) and cast to float32, so the check does not
lean on the library's own transforms; a second pass uses the library's Translate / Rotate* /
Scale as the motion.  Every morphometric the statement lists is evaluated by the library on both
trees and compared: multisets for unordered results, through the permutation for per-node
results; lengths x s, volumes x s^3, counts / orders / angles / ratios unchanged.  Tolerances are
derived per quantity from the float32 rounding of the moved coordinates; Sholl radii within that
rounding of a node distance are skipped and counted.
"""

from __future__ import annotations

import warnings

import numpy as np

from rv import probes
from rv.gen import trees as G
from rv.oracles.morpho import Ref

PROPERTY = "C11"
LEVEL = "exploration"
TECHNIQUE = ("runtime monitoring: metamorphic comparison of library morphometrics (features, Sholl, "
             "L-Measure, volume) between a tree and its harness-built twin under rotation / "
             "translation / uniform scaling / renumbering (and under the library's own transforms), "
             "with rounding-derived tolerances and threshold-margin classification")
LEVEL_TEXT = ("Exploration: thousands of (tree, motion) pairs over all shape classes and geometries "
              "(incl. sub-unit extents and exact-integer layouts): pure rotations, translations up "
              "to 1e3, exact (power of two) and generic scale factors from 0.01 to 100, renumberings "
              "with children before parents, and their combinations; ~30 quantities per pair incl. "
              "Sholl at fixed and at derived radii and volume at accuracy 1-3 (5 on unbranched "
              "trees). Held = held on those executions."
              "Half of the trees carry a file source (as transformed copies of a file-loaded tree do)."
              " Generated trees come in several representations of the same values (strided, other dtypes / lists, one array as two columns, read-only where the harness never writes) and half of them were queried, a third put through aborted operations, before use. Twins with float64 columns and float64 rigid matrices; the first quantities are re-measured after all others."
              " Neurons derived by the library from used ones; size sweep to 2050 nodes with hundreds of Sholl radii."
              " Scales down to 1e-12; radial distances of trees whose root is not typed as soma, in both poses (both must be rejected or both agree)."
              " Twins measured from inside a traversal of the original; Sholl objects read after the neuron was moved in place."
              " Twins under custom column names; a dense chain before / after renumbering and scaling."
              " Front ends used through a caller that overwrites what it is handed."
              " Sholl given the file name of the moved neuron; bundles under other ambient states.")
LEVEL_NOTE = ("Volume terms the library itself samples (accuracy >= 5 on nodes with two or more "
              "children, accuracy 10) are stochastic by design and not compared. Tolerances follow "
              "from float32 rounding of the moved coordinates (eps_pos = 2e-7*(1+max|coord|)): "
              "lengths 8*k*eps_pos + 2e-6*value, angles 2*eps_pos/|ray| + 1e-3 rad (skipped if "
              "that exceeds 1 degree). Volume is compared only while the smallest radius "
              "stays above 1e-2 (the volume code's own absolute eps = 1e-6 band, see C13).")
RULE = ("cases = (tree recipe, motion: rotation?, translation magnitude, scale, renumbering?, by "
        "harness or by the library); non-trivial when the tree has >= 3 nodes and the motion is not "
        "the identity; distinct = distinct case descriptions")
ASSUMPTIONS = [
    "rotations are proper (det +1); scaling is uniform and positive",
    "quantities whose definition is unstable at the input (angles of near-zero rays, Sholl radii "
    "on a node distance) are not compared",
]
REQUIRED = ["twins_measured_under_custom_column_names", "sholl_of_a_file_name", "densely_sampled_long_trees", "sholl_objects_read_after_an_in_place_move", "twins_measured_from_inside_a_traversal", "pairs", "rotations", "translations", "scalings", "renumberings", "library_motions",
            "length_compared", "multisets_compared", "per_node_compared", "sholl_fixed_radii_compared",
            "sholl_steps_compared", "angles_compared", "orders_compared", "volume_compared",
            "small_extent_scalings", "file_sourced_trees", "tap_sholl_get",
            "twins_with_float64_columns", "remeasured_after_all_queries", "size_sweep_cases"]
FLOOR = {"quick": 350, "thorough": 28000}
SHARDS = {"quick": 8, "thorough": 16}
TIMEOUT = {"quick": 400, "thorough": 3000}


class Mismatch(Exception):
    def __init__(self, mech, detail):
        super().__init__(detail)
        self.mech, self.detail = mech, detail


def random_rotation(rng):
    q, r = np.linalg.qr(rng.normal(size=(3, 3)))
    q = q * np.sign(np.diag(r))
    if np.linalg.det(q) < 0:
        q[:, 0] = -q[:, 0]
    return q


def twin_spec(spec, case):
    """Transformed columns, built in float64 and cast to float32. Returns (spec2, new_of_old)."""
    rng = np.random.default_rng(case["mseed"])
    n = len(spec["pid"])
    X = np.stack([spec["x"], spec["y"], spec["z"]], axis=1).astype(np.float64)
    s = case["scale"]
    if case["rotate"]:
        Q = random_rotation(rng)
        c = X[0].copy() if rng.random() < 0.5 else np.zeros(3)
        X = c + (X - c) @ Q.T
    X = X * s
    if case["translate"]:
        t = rng.normal(size=3)
        X = X + t / np.linalg.norm(t) * case["translate"]
    r = spec["r"].astype(np.float64) * s
    pid = spec["pid"].astype(np.int64)
    new_of_old = np.arange(n)
    cols = {"type": spec["type"], "x": X[:, 0], "y": X[:, 1], "z": X[:, 2], "r": r}
    if case["renumber"] and n > 2:
        pid, old_of_new = G.permute_numbering(rng, pid)
        new_of_old = np.empty(n, dtype=np.int64)
        new_of_old[old_of_new] = np.arange(n)
        cols = {k: np.asarray(v)[old_of_new] for k, v in cols.items()}
    spec2 = {"pid": pid.astype(np.int32), "type": np.asarray(cols["type"]).astype(np.int32),
             "x": cols["x"].astype(np.float32), "y": cols["y"].astype(np.float32),
             "z": cols["z"].astype(np.float32), "r": cols["r"].astype(np.float32)}
    return spec2, new_of_old


def library_twin(tree, case):
    from swcgeom.transforms import RotateX, RotateY, RotateZ, Scale, Translate

    rng = np.random.default_rng(case["mseed"])
    t = tree
    if case["rotate"] and case["mseed"] % 3 == 0:
        # a rigid motion given as the caller's own float64 matrix (numpy's default dtype)
        from swcgeom.transforms import AffineTransform

        q, _ = np.linalg.qr(rng.normal(size=(3, 3)))
        if np.linalg.det(q) < 0:
            q[:, 0] = -q[:, 0]
        tm = np.eye(4)
        tm[:3, :3] = q
        t = AffineTransform(tm, center="origin")(t)
    elif case["rotate"]:
        for cls in (RotateX, RotateY, RotateZ):
            t = cls(float(rng.uniform(-np.pi, np.pi)),
                    center=str(rng.choice(["root", "origin"])))(t)
    if case["scale"] != 1:
        t = Scale(case["scale"], case["scale"], case["scale"],
                  center=str(rng.choice(["root", "origin"])))(t)
        t.ndata["r"] = (t.ndata["r"].astype(np.float64) * case["scale"]).astype(np.float32)
    if case["translate"]:
        d = rng.normal(size=3)
        d = d / np.linalg.norm(d) * case["translate"]
        t = Translate(float(d[0]), float(d[1]), float(d[2]))(t)
    return t


def measure(tree, ref: Ref, radii, steps, nodes, want_volume, soma_ok):
    """Everything the statement lists, as computed by the library."""
    from swcgeom.analysis import Sholl, extract_feature
    from swcgeom.analysis.lmeasure import LMeasure
    from swcgeom.analysis.volume import get_volume

    fe = extract_feature(tree)
    if (len(nodes) + int(steps if isinstance(steps, int) else 0)) % 2:
        fe = G.HostileCaller(fe)  # (a caller that edits, in place, what it gets back)
    lm = LMeasure()
    out = {"length": float(tree.length()),
           "length_fe": float(fe.get("length")[0]),
           "branch_length": np.sort(fe.get("branch_length")).astype(np.float64),
           "path_length": np.sort(fe.get("path_length")).astype(np.float64),
           "branch_tortuosity": np.sort(fe.get("branch_tortuosity")).astype(np.float64),
           "path_tortuosity": np.sort(fe.get("path_tortuosity")).astype(np.float64),
           "counts": [float(fe.get(k)[0]) for k in ("node_count", "tip_count", "furcation_count")]
           + [lm.n_bifs(tree), lm.n_branch(tree), lm.n_tips(tree)],
           "node_branch_order": np.sort(fe.get("node_branch_order")).astype(np.float64)}
    if not soma_ok:
        # the library refuses radial distances when the root is not typed as soma; whatever it does
        # -- refuse, or answer -- it must do for the moved neuron as well, with the same numbers
        try:
            out["node_radial_distance"] = np.asarray(fe.get("node_radial_distance"),
                                                     dtype=np.float64)
            out["tip_radial_distance"] = np.sort(fe.get("tip_radial_distance")).astype(np.float64)
        except ValueError:
            out["radial_refused"] = True
    if soma_ok:
        out["node_radial_distance"] = np.asarray(fe.get("node_radial_distance"), dtype=np.float64)
        out["tip_radial_distance"] = np.sort(fe.get("tip_radial_distance")).astype(np.float64)
        out["furcation_radial_distance"] = np.sort(fe.get("furcation_radial_distance")
                                                   ).astype(np.float64)
        out["counts"].append(lm.n_stems(tree))
    if ref.n >= 2 and ref.d.max() > 0:
        sh = Sholl(tree)
        out["rmax"] = float(sh.rmax)
        out["sholl_fixed"] = np.asarray(sh.get(steps=np.asarray(radii)), dtype=np.int64)
        out["sholl_fe"] = np.asarray(fe.get("sholl", steps=np.asarray(radii)), dtype=np.int64)
        out["sholl_steps"] = np.asarray(sh.get(steps), dtype=np.int64)
        out["sholl_steps_rs"] = np.asarray(Sholl.get_rs(sh.rmax, steps), dtype=np.float64)
    pn = {}
    for u in nodes:
        nd = tree.node(int(u))
        d = {"path_distance": lm.path_distance(nd), "branch_order": lm.branch_order(nd),
             "terminal_degree": lm.terminal_degree(nd)}
        if soma_ok:
            d["euc_distance"] = lm.euc_distance(nd)
        if len(ref.ch[int(u)]) == 2:
            d["partition_asymmetry"] = lm.partition_asymmetry(nd)
            for name in ("bif_ampl_local", "bif_ampl_remote"):
                try:
                    d[name] = float(getattr(lm, name)(nd))
                except ValueError:
                    d[name] = None  # zero-length ray
            if ref.pid[int(u)] >= 0:
                for name in ("bif_tilt_local", "bif_tilt_remote"):
                    try:
                        d[name] = float(getattr(lm, name)(nd))
                    except ValueError:
                        d[name] = None
        pn[int(u)] = d
    out["per_node"] = pn
    brs = {}
    for b in tree.get_branches():
        ids = tuple(int(i) for i in b.origin_id())
        L = b.length()
        brs[ids] = (lm.fragmentation(b), lm.contraction(b) if L > 0 else None)
    out["per_branch"] = brs
    if want_volume:
        levels = [1, 2, 3] + ([5] if not ref.furcations else [])
        out["volume"] = {a: float(get_volume(tree, accuracy=a)) for a in levels}
    # measuring is not a motion either: the first quantities asked again, last, of the same object
    out["length_again"] = (float(tree.length()), float(extract_feature(tree).get("length")[0]))
    out["branch_length_again"] = np.sort(fe.get("branch_length")).astype(np.float64)
    return out


def compare(ctx, case, A, B, refA: Ref, refB: Ref, new_of_old, s, radii_margin):
    coordmax = max(float(np.abs(refA.X).max()) * s, float(np.abs(refB.X).max()))
    moved = bool(case["rotate"] or case["translate"] or s != 1 or case["by"] == "library")
    # a pure renumbering leaves every coordinate bit-identical: only summation order may differ
    # float32 rounding of the moved coordinates is relative to their magnitude (no absolute floor:
    # a neuron expressed in metres is as precise, relatively, as one in microns)
    eps_pos = 2e-7 * coordmax if moved else 0.0
    n = refA.n
    extent = float(refB.d.max()) if refB.n > 1 else 1.0
    kb = max((len(b) for b in refA.branches), default=1)
    kp = max((len(p) for p in refA.paths), default=1)

    def len_tol(value, k):
        return 8 * k * eps_pos + 4e-6 * abs(value) + 2e-7 * extent

    def close(name, a, b, k=1, factor=s, mech=None):
        a, b = np.asarray(a, dtype=np.float64) * factor, np.asarray(b, dtype=np.float64)
        if a.shape != b.shape:
            raise Mismatch(mech or name, f"{name}: {a.shape[0] if a.ndim else 1} values before, "
                                         f"{b.shape[0] if b.ndim else 1} after the motion")
        if a.size == 0:
            return
        tol = len_tol(np.abs(b).max(), k)
        if not np.isfinite(b).all() or np.abs(a - b).max() > tol:
            i = int(np.argmax(np.abs(a - b)))
            raise Mismatch(mech or name, f"{name}: {a.ravel()[i]!r} (x{factor:g} applied) before, "
                                         f"{b.ravel()[i]!r} after the motion (tolerance {tol:.3g})")

    for nm, M in (("original", A), ("moved", B)):
        ctx.count("remeasured_after_all_queries")
        if M["length_again"] != (M["length"], M["length_fe"]) or \
                not np.array_equal(M["branch_length_again"], M["branch_length"]):
            raise Mismatch("measuring-changes-the-neuron",
                           f"the {nm} tree's length was {M['length']!r} when first asked and "
                           f"{M['length_again'][0]!r} after the other morphometrics had been "
                           f"computed on the same object")
    if A.get("radial_refused") != B.get("radial_refused"):
        raise Mismatch("radial-distance-availability",
                       "radial distances are refused for one pose of a root that is not typed as "
                       "soma and answered for the other")
    if A.get("radial_refused"):
        ctx.count("radial_distances_refused_in_both_poses")
    close("Tree.length", A["length"], B["length"], n)
    close("length (front end)", A["length_fe"], B["length_fe"], n)
    ctx.count("length_compared")
    close("branch_length", A["branch_length"], B["branch_length"], kb)
    close("path_length", A["path_length"], B["path_length"], kp)
    for k in ("tip_radial_distance", "furcation_radial_distance"):
        if k in A:
            close(k, A[k], B[k], 1)
    ctx.count("multisets_compared")
    if "node_radial_distance" in A:
        close("node_radial_distance (per node)", A["node_radial_distance"],
              B["node_radial_distance"][new_of_old], 1)
    # ratios: tolerance relative to the shortest chain involved
    Ls = [refA.chain_length(b) * s for b in refA.branches if refA.chain_length(b) > 0]
    rtol = 1e-5 + (16 * n * eps_pos / min(Ls) if Ls else 0.0)
    if rtol < 0.05:
        for k in ("branch_tortuosity", "path_tortuosity"):
            a, b = A[k], B[k]
            if a.shape != b.shape or (a.size and np.abs(a - b).max() > rtol):
                raise Mismatch(k, f"{k}: changed by "
                                  f"{np.abs(a - b).max() if a.shape == b.shape else 'shape'} under "
                                  f"the motion (tolerance {rtol:.3g})")
    else:
        ctx.skip("tortuosity of a chain shorter than the coordinate rounding")
    if list(map(float, A["counts"])) != list(map(float, B["counts"])):
        raise Mismatch("counts", f"counts before {A['counts']}, after {B['counts']}")
    if not np.array_equal(A["node_branch_order"], B["node_branch_order"]):
        raise Mismatch("node_branch_order", "branch orders of the critical nodes changed")
    ctx.count("orders_compared")

    # Sholl
    if "sholl_fixed" in A and "sholl_fixed" in B:
        keep = np.array([refA.sholl_margin(r / s) * s >= radii_margin
                         for r in case["_radii_B"]])
        a, b = A["sholl_fixed"][keep], B["sholl_fixed"][keep]
        ctx.count("sholl_fixed_radii_compared", int(keep.sum()))
        if not np.array_equal(a, b):
            i = int(np.nonzero(a != b)[0][0])
            raise Mismatch("sholl-profile", f"Sholl count at radius "
                                            f"{np.asarray(case['_radii_B'])[keep][i]:.6g} (x{s:g}) "
                                            f"changed from {a[i]} to {b[i]}")
        if not np.array_equal(A["sholl_fe"][keep], B["sholl_fe"][keep]):
            raise Mismatch("sholl-profile", "front-end Sholl profile changed under the motion")
        ra, rb = A["sholl_steps_rs"], B["sholl_steps_rs"]
        if len(ra) == len(rb):
            if np.abs(ra * s - rb).max() > len_tol(rb.max(), 1) * 4:
                raise Mismatch("sholl-radii", f"Sholl radii for steps={case['steps']} do not scale "
                                              f"with the neuron: {ra[:3]} x{s:g} vs {rb[:3]}")
            for i in range(len(ra)):
                if refA.sholl_margin(ra[i]) * s < radii_margin or \
                        refB.sholl_margin(rb[i]) < radii_margin:
                    ctx.skip("sholl radius within rounding of a node distance")
                    continue
                ctx.count("sholl_steps_compared")
                if A["sholl_steps"][i] != B["sholl_steps"][i]:
                    raise Mismatch("sholl-profile",
                                   f"Sholl.get({case['steps']}) entry {i} (radius {rb[i]:.6g}) "
                                   f"changed from {A['sholl_steps'][i]} to {B['sholl_steps'][i]}")
        else:
            ctx.skip("sholl radii count differs by one at the float end point")

    # per node
    for u, da in A["per_node"].items():
        db = B["per_node"][int(new_of_old[u])]
        ctx.count("per_node_compared")
        close(f"path_distance(node {u})", da["path_distance"], db["path_distance"], n)
        if "euc_distance" in da:
            close(f"euc_distance(node {u})", da["euc_distance"], db["euc_distance"], 1)
        for k in ("branch_order", "terminal_degree"):
            if da[k] != db[k]:
                raise Mismatch("lmeasure-" + k, f"{k}(node {u}) changed from {da[k]} to {db[k]}")
        if "partition_asymmetry" in da and abs(da["partition_asymmetry"]
                                               - db["partition_asymmetry"]) > 1e-9:
            raise Mismatch("lmeasure-partition_asymmetry", f"partition asymmetry of node {u} "
                                                           f"changed")
        for k in ("bif_ampl_local", "bif_ampl_remote", "bif_tilt_local", "bif_tilt_remote"):
            if k not in da:
                continue
            if da[k] is None or db[k] is None:
                ctx.skip("angle with a zero-length ray is undefined")
                continue
            a_, b_ = refA.ch[u]
            rays = [refA.X[a_] - refA.X[u], refA.X[b_] - refA.X[u]] if "local" in k else \
                [refA.X[refA.remote(a_)] - refA.X[u], refA.X[refA.remote(b_)] - refA.X[u]]
            if "tilt" in k:
                rays.append(refA.X[refA.pid[u]] - refA.X[u])
            mn = min(np.linalg.norm(v) for v in rays) * s
            tol = np.degrees(4 * eps_pos / mn + 1e-3) if mn > 0 else 999
            if tol > 1.0:
                ctx.skip("angle of a ray shorter than the coordinate rounding")
                continue
            ctx.count("angles_compared")
            if abs(da[k] - db[k]) > tol:
                raise Mismatch("lmeasure-" + k, f"{k}(node {u}) changed from {da[k]:.5f} to "
                                                f"{db[k]:.5f} degrees (tolerance {tol:.3g})")
    # per branch (keyed through the permutation)
    mapB = {tuple(int(new_of_old[i]) for i in ids): v for ids, v in A["per_branch"].items()}
    if set(mapB) != set(B["per_branch"]):
        raise Mismatch("branches", "the set of branches changed under the motion")
    for ids, (frag, con) in mapB.items():
        f2, c2 = B["per_branch"][ids]
        if frag != f2:
            raise Mismatch("lmeasure-fragmentation", "fragmentation changed")
        if con is not None and c2 is not None and rtol < 0.05 and abs(con - c2) > rtol:
            raise Mismatch("lmeasure-contraction", f"contraction changed from {con:.6f} to {c2:.6f}")
    if "volume" in A:
        for a_, va in A["volume"].items():
            vb = B["volume"][a_]
            ctx.count("volume_compared")
            tol = 3e-4 * abs(vb) + 64 * eps_pos * float(refB.d.max()) ** 2 * (1 + n)
            if not np.isfinite(vb) or abs(va * s ** 3 - vb) > tol:
                raise Mismatch("volume", f"get_volume(accuracy={a_}): {va:.8g} x s^3 = "
                                         f"{va * s ** 3:.8g} before, {vb:.8g} after (tolerance "
                                         f"{tol:.3g})")


def _exec_dense(ctx, case):
    """A long, finely sampled process (tens of thousands of equal short compartments): its length
    does not depend on the numbering, and scales with the neuron."""
    from swcgeom.analysis import extract_feature
    from swcgeom.core import Tree

    n, step = case["dense"], case["step"]
    x = (np.arange(n) * step).astype(np.float32)
    y = (np.arange(n) % 2 * np.float32(step / 3)).astype(np.float32)
    a = Tree(n, pid=np.arange(-1, n - 1, dtype=np.int32), x=x, y=y)
    # the same chain numbered the other way round below the root (root stays node 0)
    order = np.concatenate([[0], np.arange(n - 1, 0, -1)])          # new position -> old node
    new_of_old = np.empty(n, dtype=np.int64)
    new_of_old[order] = np.arange(n)
    pid_old = np.arange(-1, n - 1)[order]
    b = Tree(n, pid=np.where(pid_old < 0, -1, new_of_old[np.maximum(pid_old, 0)]).astype(np.int32),
             x=x[order].copy(), y=y[order].copy())
    c = Tree(n, pid=np.arange(-1, n - 1, dtype=np.int32), x=x * np.float32(4), y=y * np.float32(4))
    la, lb, lc = float(a.length()), float(b.length()), float(c.length())
    fa = float(np.asarray(extract_feature(a).get("length")).ravel()[0])
    ctx.count("densely_sampled_long_trees")
    for what, got, want in (("after renumbering", lb, la), ("of the neuron scaled by 4", lc, 4 * la),
                            ("through the front end", fa, la)):
        if abs(got - want) > 2e-5 * abs(want):
            raise Mismatch("length", f"length {what}: {got!r}, expected {want!r} ({n - 1} compartments "
                                     f"of about {step}; relative difference "
                                     f"{abs(got - want) / abs(want):.2e})")


def _pose_bundle(t):
    """A cross-section of the pose-independent measurements as plain data."""
    from swcgeom.analysis import Sholl, extract_feature, get_volume

    fe = extract_feature(t)
    sh = Sholl(t)
    radii = np.linspace(0, float(sh.rmax), 8)[1:-1]
    return {"length": float(t.length()), "branch_length": np.asarray(fe.get("branch_length")),
            "path_length": np.asarray(fe.get("path_length")),
            "order": np.asarray(fe.get("node_branch_order")),
            "sholl": np.asarray(sh.get(steps=radii)), "rmax": float(sh.rmax),
            "volume": [float(get_volume(t, accuracy=k)) for k in (1, 2, 3)]}


def execute(ctx, case):
    try:
        with warnings.catch_warnings():
            warnings.simplefilter("ignore")
            if case.get("dense"):
                return _exec_dense(ctx, case)
            _exec(ctx, case)
    except Mismatch as m:
        ctx.violation(m.mech, m.detail + f" | motion: rotate={case['rotate']} translate="
                                         f"{case['translate']} scale={case['scale']} renumber="
                                         f"{case['renumber']} by={case['by']}", case)
    except Exception as e:
        ctx.violation("feature-raised", f"{type(e).__name__}: {str(e)[:300]}", case)


def _exec(ctx, case):
    spec = G.spec_from_recipe(case["tree"])
    # like a tree read from a file: transformed copies keep the source of the original
    src = "/data/cells/neuron.swc" if case["mseed"] % 2 else ""
    tree = G.build(spec, with_tag=False, source=src, frozen_ok=True)
    if case["mseed"] % 5 == 2:
        # the neuron being moved is itself a tree the library derived (sorted / re-rooted / grown
        # by a merged node) from a used one; its twin is built afresh from its columns
        tree, spec = G.derive(tree, spec, int(case["mseed"]))
    n = len(spec["pid"])
    s = case["scale"]
    if src:
        ctx.count("file_sourced_trees")
    if case["by"] == "library":
        tree2 = library_twin(tree, case)
        spec2 = {k: tree2.ndata[k] for k in ("pid", "type", "x", "y", "z", "r")}
        new_of_old = np.arange(n)
        ctx.count("library_motions")
    else:
        spec2, new_of_old = twin_spec(spec, case)
        tree2 = G.build(dict(spec2), with_tag=False, source=src)
        if case["mseed"] % 4 == 1:
            # the same values held in double precision (a caller replacing the columns wholesale)
            for k_ in "xyz":
                tree2.ndata[k_] = tree2.ndata[k_].astype(np.float64)
            ctx.count("twins_with_float64_columns")
    refA = Ref(spec["pid"], np.stack([spec["x"], spec["y"], spec["z"]], axis=1))
    refB = Ref(spec2["pid"], np.stack([spec2["x"], spec2["y"], spec2["z"]], axis=1))
    ctx.count("pairs")
    for k, c in (("rotate", "rotations"), ("translate", "translations"),
                 ("renumber", "renumberings")):
        if case[k]:
            ctx.count(c)
    if s != 1:
        ctx.count("scalings")
        if refA.d.max() * min(s, 1.0) < 2.0:
            ctx.count("small_extent_scalings")
    rng = np.random.default_rng(case["mseed"] + 1)
    rmax = float(refA.d.max())
    radiiA = np.sort(rng.uniform(0, rmax * 1.05, 8)) if rmax > 0 else np.array([1.0])
    case["_radii_B"] = (radiiA * s).tolist()
    coordmax = max(float(np.abs(refA.X).max()) * s, float(np.abs(refB.X).max()))
    margin = 16 * 2e-7 * coordmax + 1e-5 * rmax * s
    nodes = list(range(n)) if n <= 25 else sorted(set(rng.integers(0, n, 15).tolist()))
    zero_seg = bool(((refA.seglen == 0) & (refA.pid >= 0)).any()
                    or ((refB.seglen == 0) & (refB.pid >= 0)).any())  # (also after the motion:
    # a translation far beyond the neuron's extent merges neighbouring float32 positions)
    # (the library evaluates node positions in float32 whatever width the columns have: a twin
    # held in float64 can keep neighbours apart that float32 merges)
    XB32 = refB.X.astype(np.float32)
    zero_seg = zero_seg or bool(any(refB.pid[i] >= 0 and np.array_equal(XB32[i], XB32[refB.pid[i]])
                                    for i in range(refB.n)))
    want_volume = case["volume"] and not zero_seg and n <= 80  # (a zero-length frustum has no axis)
    if want_volume and float(spec["r"].min()) * min(s, 1.0) < 1e-2:
        # the library's closed forms carry an absolute eps = 1e-6 (documented under C13): with
        # radii of that order every pair of radii falls into its fast-path band, which is a
        # stated bound of the volume code, not a pose dependence
        ctx.skip("radii within two decades of the library's absolute eps: volume not compared")
        want_volume = False
    soma_ok = int(spec["type"][0]) == 1
    if case["mseed"] % 5 == 1 and n >= 3 and rmax > 0:
        # a Sholl object made for a neuron whose soma sits at the origin; the neuron is then moved
        # as a whole *in place* (column arithmetic, node handles) and the profile is read
        # afterwards: a translation changes no count (radii midway between node distances)
        from swcgeom.analysis import Sholl
        from swcgeom.core import Tree as _T

        X0 = (refA.X - refA.X[0]).astype(np.float32)
        t0 = _T(n, pid=np.array(spec["pid"]), type=np.array(spec["type"]), x=X0[:, 0].copy(),
                y=X0[:, 1].copy(), z=X0[:, 2].copy(), r=np.array(spec["r"]))
        dist = np.unique(np.linalg.norm(X0.astype(np.float64), axis=1))
        gaps = np.diff(dist)
        big = np.argsort(gaps)[::-1][:6]
        radii = np.sort([float(dist[g] + gaps[g] / 2) for g in big if gaps[g] > 1e-3 * rmax])
        if len(radii):
            # (one object is read before and after the move, another one only after it)
            sh_read = Sholl(t0)
            before = np.array(sh_read.get(steps=radii))
            sh = Sholl(t0)
            shift = np.float32(rmax) * np.array([2.0, -1.0, 0.5], dtype=np.float32)
            t0.ndata["x"] += shift[0]
            t0.ndata["y"] = t0.ndata["y"] + shift[1]
            for i_ in range(n):
                t0.node(i_).z = float(t0.node(i_).z + shift[2])
            after = np.array(sh.get(steps=radii))
            fresh = np.array(Sholl(t0).get(steps=radii))
            again = np.array(sh_read.get(steps=radii))
            ctx.count("sholl_objects_read_after_an_in_place_move")
            if not (np.array_equal(before, after) and np.array_equal(before, fresh)
                    and np.array_equal(before, again)):
                raise Mismatch("sholl-after-in-place-translation",
                               f"Sholl profile at radii {np.round(radii, 4).tolist()}: "
                               f"{before.tolist()} before the neuron was translated in place, "
                               f"{after.tolist()} read from the same object afterwards, "
                               f"{fresh.tolist()} from a new object")
    if case["mseed"] % 7 == 3 and n >= 3 and rmax > 0:
        # the profile of a neuron given as a file name (the constructor reads it) equals the
        # profile of the same neuron given as a tree, wherever the neuron lies
        import os
        import tempfile

        from swcgeom.analysis import Sholl

        d_ = tempfile.mkdtemp(prefix="rv-c11-")
        try:
            f_ = os.path.join(d_, "moved.swc")
            tree2.to_swc(f_)
            from swcgeom.core import Tree as _T2

            back = _T2.from_swc(f_)
            dist = np.unique(np.linalg.norm((back.xyz() - back.xyz()[0]).astype(np.float64), axis=1))
            gaps = np.diff(dist)
            radii = np.sort([float(dist[g] + gaps[g] / 2) for g in np.argsort(gaps)[::-1][:6]
                             if gaps[g] > 1e-3 * dist.max()])
            if len(radii):
                by_path = np.array(Sholl(f_).get(steps=radii))
                by_tree = np.array(Sholl(back).get(steps=radii))
                ctx.count("sholl_of_a_file_name")
                if not np.array_equal(by_path, by_tree):
                    raise Mismatch("sholl-of-file-name",
                                   f"Sholl('<file>') of the moved neuron gives {by_path.tolist()} at "
                                   f"radii {np.round(radii, 3).tolist()}, Sholl(tree) of the same "
                                   f"file gives {by_tree.tolist()}")
        finally:
            import shutil

            shutil.rmtree(d_, ignore_errors=True)
    A = measure(tree, refA, radiiA, case["steps"], nodes, want_volume, soma_ok)
    if case["mseed"] % 6 == 4 and n <= 120:
        # the moved neuron measured by user code running inside a traversal of the original
        # (comparing the two node by node): same numbers, and the walk in progress goes on
        B, _, prob = G.inside_traversal(
            lambda: measure(tree2, refB, radiiA * s, case["steps"],
                            [int(new_of_old[u]) for u in nodes], want_volume, soma_ok),
            host=tree if (n >= 2 and int(spec["pid"][0]) == -1 and
                          np.array_equal(tree.id(), np.arange(n))) else None)
        ctx.count("twins_measured_from_inside_a_traversal")
        if prob:
            raise Mismatch("measured-inside-a-traversal",
                           f"the moved neuron's morphometrics asked for from the callbacks of a "
                           f"traversal of the original: {prob}")
    else:
        B = measure(tree2, refB, radiiA * s, case["steps"], [int(new_of_old[u]) for u in nodes],
                    want_volume, soma_ok)
    # re-key B's per-node dict is already by new ids
    compare(ctx, case, A, B, refA, refB, new_of_old, s, margin)
    if case["mseed"] % 4 == 3 and 3 <= n <= 120 and not zero_seg and type(tree2).__name__ == "Tree":
        # the moved neuron held under custom column names (`names=`): the same measurements
        r = G.same_under_renaming(_pose_bundle, tree2, level=case["mseed"] // 4 % 2)
        ctx.count("twins_measured_under_custom_column_names")
        if r:
            raise Mismatch("custom-column-names", f"morphometrics of the moved neuron: {r}")
        r = G.same_under_ambient(lambda: _pose_bundle(tree2), pick=case["mseed"] // 4)
        if r:
            raise Mismatch("ambient-state", f"morphometrics of the moved neuron: {r}")
    case.pop("_radii_B", None)


def run(ctx):
    from swcgeom.analysis import Sholl

    rng = ctx.rng
    tap = probes.CallTap({"sholl_get": Sholl.get})
    geoms = ["growth", "plane", "gauss", "far", "int", "pythag", "tiny", "micro", "axis", "coincident",
             "quarter"]
    with tap:
        for k in range(ctx.scale(640, 51200)):
            shapes = ["binary", "neuron"] if k % 3 == 0 else None
            rc = G.random_recipe(rng, max_n=G.size_ladder(ctx, k, 10, 40, 150), shapes=shapes,
                                 geoms=geoms, types="soma" if rng.random() < 0.8 else "nonsoma",
                                 extras=0)
            m = k % 8
            case = {"tree": rc, "mseed": int(rng.integers(0, 2**31 - 1)), "rotate": False,
                    "translate": 0.0, "scale": 1.0, "renumber": False, "by": "harness",
                    "steps": int(rng.choice([5, 20])), "volume": bool(rng.random() < 0.4)}
            if m == 0:
                case["rotate"] = True
            elif m == 1:
                case["translate"] = float(rng.choice([1.0, 37.5, 1000.0]))
            elif m == 2:
                case["scale"] = float(rng.choice([0.5, 2.0, 4.0, 0.25, 8.0, 0.0078125]))
            elif m == 3:
                case["scale"] = float(rng.choice([1.7, 0.013, 0.3, 25.0, 100.0, 0.01, 1e-6, 3e-7,
                                                  1e-9, 2.5e-10, 1e-12]))
            elif m == 4:
                case["renumber"] = True
            elif m == 5:
                case.update(rotate=True, translate=float(rng.choice([5.0, 300.0])),
                            scale=float(rng.choice([1.0, 2.0, 0.37])), renumber=True)
            elif m == 6:
                case.update(by="library", rotate=bool(rng.random() < 0.7),
                            translate=float(rng.choice([0.0, 12.0, 500.0])),
                            scale=float(rng.choice([1.0, 1.0, 2.0, 0.5])))
                if not (case["rotate"] or case["translate"] or case["scale"] != 1):
                    case["rotate"] = True
            else:
                case.update(rotate=bool(rng.random() < 0.5), renumber=bool(rng.random() < 0.5),
                            scale=float(rng.choice([1.0, 3.0, 0.02])),
                            translate=float(rng.choice([0.0, 80.0])))
                if not (case["rotate"] or case["renumber"] or case["translate"]
                        or case["scale"] != 1):
                    case["renumber"] = True
            ctx.case(case, nontrivial=rc["n"] >= 3, klass=f"motion{m}/{case['by']}")
            execute(ctx, case)
        for j, rc in enumerate(G.sweep_recipes(ctx, max_small=2050, numbering="sorted")):
            # node counts on / next to powers of two and block sizes, renumbered and moved
            case = {"tree": rc, "mseed": 1000 + 13 * j, "rotate": bool(j % 2), "translate": 0.0,
                    "scale": 1.0, "renumber": True, "by": "harness", "steps": [200, 333][j % 2],
                    "volume": False}
            ctx.case(case, klass="size-sweep")
            ctx.count("size_sweep_cases")
            execute(ctx, case)
        if ctx.shard == 3 % ctx.nshards:
            case = {"dense": 30001 if ctx.quick else 120001,
                    "step": float(rng.choice([0.013, 0.0081, 0.3])), "rotate": False,
                    "translate": 0.0, "scale": 4.0, "renumber": True, "by": "harness"}
            ctx.case(case, klass="dense-chain")
            execute(ctx, case)
        for j, rc in enumerate(G.real_recipes(rng, 1000)):
            if j % ctx.nshards == ctx.shard:
                case = {"tree": rc, "mseed": int(rng.integers(0, 2**31 - 1)), "rotate": True,
                        "translate": 120.0, "scale": 0.5, "renumber": True, "by": "harness",
                        "steps": 20, "volume": False}
                ctx.case(case, klass="real-morphology")
                ctx.count("real_morphologies")
                execute(ctx, case)
    ctx.count("tap_sholl_get", tap.counts["sholl_get"])


def replay(ctx, case):
    ctx.case(case)
    execute(ctx, case)
