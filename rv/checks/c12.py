"""C12 — geometric transforms apply the stated affine map about the stated centre.

Monitor: value comparison of every transform call with ``p' = c + M (p - c)`` evaluated in
float64 from the float32 input (M from the mathematical definition: right-handed Rodrigues
rotation, diagonal scaling, translation; c = origin or the root's position), plus directly stated
sub-properties (centre fixed, distances preserved, inverse restores, topology / types / radii /
extra columns bit-identical, input untouched).  Every transform *instance* is applied to two
trees with different roots in sequence (state carried between calls would show), to trees whose
root is not stored at position 0, through the ``.transform`` classmethods and inside
``Transforms(...)`` compositions.  The matrix builders are compared with reference matrices.
"""

from __future__ import annotations

import warnings

import numpy as np

from rv import contracts, probes
from rv.gen import trees as G

PROPERTY = "C12"
LEVEL = "exploration"
TECHNIQUE = ("runtime monitoring: value comparison of Translate/TranslateOrigin/Scale/Rotate/"
             "RotateX/Y/Z/AffineTransform results with a float64 reference c + M(p - c) (Rodrigues "
             "formula, right-handed); centre-fixed, isometry, inverse and bit-identity "
             "post-conditions; instance reuse across trees with different roots; matrix builders "
             "against reference matrices; C03 contract set active")
LEVEL_TEXT = ("Exploration: thousands of (tree, transform, centre mode) cases: roots at the origin "
              "and up to 1e3 away, roots stored at a position other than 0, coordinate axes and "
              "generic unit axes, angles 0, +-pi/2, pi, 2pi, 1e-3 and generic, anisotropic and <1 "
              "scales, instance reuse on a second tree, classmethod and composed forms. Held = held "
              "on those executions."
              "Scale factors include zero (flattening) and negative (mirror) values."
              " One tree in three is edited in place (node handle, item or column write, the root included) and transformed again by the same instance."
              " Generated trees come in several representations of the same values (strided, other dtypes / lists, one array as two columns, read-only where the harness never writes) and half of them were queried, a third put through aborted operations, before use. Integer-typed matrices; matrix builders are called again after the caller edited the first result in place."
              " Trees read from tables with their own column labels."
              " Small-unit (metre, millimetre) trees; tolerances purely relative to the magnitudes involved."
              " Rotations under two-decimal print options right after a rotation about an almost identical axis.")
LEVEL_NOTE = ("Tolerance 3e-5*(1+largest coordinate magnitude) on float32 results (measured noise "
              "~1e-6 relative); rotation axes are unit vectors (the documented formula presumes "
              "|n| = 1).")
RULE = ("cases = (tree recipe, second tree recipe, transform kind + parameters, centre mode, call "
        "form); non-trivial when the tree has >= 2 nodes; distinct = distinct case descriptions")
ASSUMPTIONS = [
    "rotation axes are unit vectors; scale factors are non-zero",
    "float32 coordinates: results compared within 3e-5*(1+scale)",
]
REQUIRED = ["small_unit_trees_compared", "rotations_after_a_near_twin_under_coarse_print_options", "transform_calls", "rotations_checked", "scales_checked", "translations_checked",
            "centre_root_far", "centre_origin", "root_not_at_position_0", "instance_reused",
            "inverse_checked", "isometry_checked", "builders_checked", "composed_checked",
            "classmethod_checked", "translate_origin_checked", "singular_scalings", "tap_apply",
            "edited_in_place_then_transformed", "integer_matrices", "trees_custom_column_names",
            "builder_results_edited_then_rebuilt"]
FLOOR = {"quick": 1200, "thorough": 150000}
SHARDS = {"quick": 8, "thorough": 16}
TOL = 3e-5

ANGLES = [0.0, np.pi / 2, -np.pi / 2, np.pi, 2 * np.pi, 1e-3, -1e-3]


def rodrigues(n, th):
    n = np.asarray(n, dtype=np.float64)
    K = np.array([[0, -n[2], n[1]], [n[2], 0, -n[0]], [-n[1], n[0], 0]])
    return np.cos(th) * np.eye(3) + (1 - np.cos(th)) * np.outer(n, n) + np.sin(th) * K


def ref_matrix(t):
    """(3x3 linear part, translation) of the stated map, float64."""
    k = t["kind"]
    if k == "translate":
        return np.eye(3), np.array(t["t"], dtype=np.float64)
    if k == "scale":
        return np.diag(np.array(t["s"], dtype=np.float64)), np.zeros(3)
    if k in ("rotx", "roty", "rotz"):
        axis = {"rotx": [1, 0, 0], "roty": [0, 1, 0], "rotz": [0, 0, 1]}[k]
        return rodrigues(axis, t["theta"]), np.zeros(3)
    if k == "rotate":
        return rodrigues(t["n"], t["theta"]), np.zeros(3)
    if k == "affine":
        m = np.array(t["m"], dtype=np.float64)
        return m[:3, :3], m[:3, 3]
    raise ValueError(k)


def make(t, center):
    from swcgeom.transforms import (AffineTransform, Rotate, RotateX, RotateY, RotateZ, Scale,
                                    Translate)

    k = t["kind"]
    kw = {} if center is None else {"center": center}
    if k == "translate":
        return Translate(*t["t"], **kw)
    if k == "scale":
        return Scale(*t["s"], **kw)
    if k == "rotx":
        return RotateX(t["theta"], **kw)
    if k == "roty":
        return RotateY(t["theta"], **kw)
    if k == "rotz":
        return RotateZ(t["theta"], **kw)
    if k == "rotate":
        n = np.array(t["n"], dtype=np.float32 if t.get("n32") else np.float64)
        return Rotate(n if not t.get("nlist") else list(t["n"]), t["theta"], **kw)
    if k == "affine":
        # the caller's own matrix, float32 or float64; it must come back untouched
        m = np.array(t["m"], dtype=np.float64 if t.get("m64") else np.float32)
        if t.get("mint"):  # an integer-valued map typed in as integers
            m = np.array(t["m"], dtype=np.int64 if t["mint"] == "int64" else np.int32)
        tf = AffineTransform(m, **kw)
        tf._rv_matrix, tf._rv_matrix_copy = m, m.copy()
        return tf
    raise ValueError(k)


def via_classmethod(t, center, tree):
    from swcgeom.transforms import Rotate, RotateX, RotateY, RotateZ, Scale, Translate

    k = t["kind"]
    kw = {} if center is None else {"center": center}
    if k == "translate":
        return Translate.transform(tree, *t["t"], **kw)
    if k == "scale":
        return Scale.transform(tree, *t["s"], **kw)
    if k == "rotx":
        return RotateX.transform(tree, t["theta"], **kw)
    if k == "roty":
        return RotateY.transform(tree, t["theta"], **kw)
    if k == "rotz":
        return RotateZ.transform(tree, t["theta"], **kw)
    if k == "rotate":
        return Rotate.transform(tree, np.array(t["n"]), t["theta"], **kw)
    return None


def inverse_of(t):
    k = t["kind"]
    if k == "translate":
        return {"kind": k, "t": [-v for v in t["t"]]}
    if k == "scale":
        return {"kind": k, "s": [1.0 / v for v in t["s"]]}
    if k == "affine":
        return {"kind": k, "m": np.linalg.inv(np.array(t["m"], dtype=np.float64)).tolist()}
    return dict(t, theta=-t["theta"])


def default_center(kind):
    return "origin" if kind in ("translate", "affine") else "root"


def xyz64(tree):
    # through the accessors: a tree read from a table with its own column labels keeps them
    return np.stack([tree.x(), tree.y(), tree.z()], axis=1).astype(np.float64)


def build_tree(rc, reroot):
    from swcgeom.core.tree_utils import redirect_tree

    spec = G.spec_from_recipe(rc)
    if int(rc["seed"]) % 6 == 0 and reroot is None:
        # a tree read from a table that labels its columns differently (from_data_frame with names)
        import pandas as pd

        from swcgeom.core import Tree
        from swcgeom.core.swc import SWCNames

        nm = SWCNames(x="pos_x", y="pos_y", z="pos_z", r="radius")
        df = pd.DataFrame({"id": np.arange(len(spec["pid"])), "type": spec["type"],
                           "pos_x": spec["x"], "pos_y": spec["y"], "pos_z": spec["z"],
                           "radius": spec["r"], "pid": spec["pid"]})
        G.WARM_STATS["custom_column_names"] = G.WARM_STATS.get("custom_column_names", 0) + 1
        return Tree.from_data_frame(df, names=nm)
    tree = G.build(spec, frozen_ok=True)
    if reroot is not None and len(spec["pid"]) > 2:
        v = 1 + int(reroot) % (len(spec["pid"]) - 1)
        tree = redirect_tree(tree, v, sort=False)  # the root is now stored at position v
    return tree


def expected(tree, t, center):
    A, b = ref_matrix(t)
    p = xyz64(tree)
    root = int(np.nonzero(tree.pid() == -1)[0][0])
    c = p[root] if center in ("root", "soma") else np.zeros(3)
    return c + (p - c) @ A.T + b, c, A, root


def _compare(ctx, case, what, tree, out, t, center):
    want, c, A, root = expected(tree, t, center)
    got = xyz64(out)
    # (purely relative to the magnitudes involved: a neuron expressed in metres or millimetres is
    # moved as exactly, relative to its size, as one expressed in micrometres)
    scale = max(float(np.abs(xyz64(tree)).max()), float(np.abs(want).max()), 1e-30) / 2
    if scale < 1e-2:
        ctx.count("small_unit_trees_compared")
    err = float(np.abs(got - want).max()) if len(got) else 0.0
    if not np.isfinite(got).all() or err > TOL * (1 + scale) or err > 2 * TOL * scale:
        i = int(np.unravel_index(np.nanargmax(np.abs(got - want)), got.shape)[0]) \
            if np.isfinite(got).all() else 0
        return ctx.violation(
            "wrong-map", f"{what}: node {i} at {xyz64(tree)[i].round(4).tolist()} moved to "
                         f"{got[i].round(4).tolist()}, the stated map about centre "
                         f"{c.round(4).tolist()} gives {want[i].round(4).tolist()} (max error "
                         f"{err:.3g}, scale {scale:.3g})", case)
    if center in ("root", "soma") and t["kind"] != "translate" and not (
            t["kind"] == "affine" and np.abs(np.array(t["m"])[:3, 3]).max() > 0):
        if np.abs(got[root] - xyz64(tree)[root]).max() > TOL * (1 + scale):
            return ctx.violation("centre-moved", f"{what}: the root (centre) moved from "
                                                 f"{xyz64(tree)[root].tolist()} to "
                                                 f"{got[root].tolist()}", case)
    if t["kind"] in ("rotx", "roty", "rotz", "rotate", "translate") and len(got) > 1:
        idx = ctx.rng.integers(0, len(got), (min(40, len(got) ** 2), 2))
        d0 = np.linalg.norm(xyz64(tree)[idx[:, 0]] - xyz64(tree)[idx[:, 1]], axis=1)
        d1 = np.linalg.norm(got[idx[:, 0]] - got[idx[:, 1]], axis=1)
        ctx.count("isometry_checked")
        if np.abs(d0 - d1).max() > 4 * TOL * (1 + scale):
            return ctx.violation("distance-changed", f"{what}: an inter-node distance changed by "
                                                     f"{np.abs(d0 - d1).max():.3g}", case)
    coord_cols = {tree.names.x, tree.names.y, tree.names.z}
    for k, v in tree.ndata.items():
        if k in coord_cols:
            continue
        w = out.ndata.get(k)
        if w is None or w.dtype != v.dtype or not np.array_equal(w, v):
            return ctx.violation("column-changed", f"{what}: column {k!r} is not bit-identical "
                                                   f"after the transform", case)
    if set(out.ndata) != set(tree.ndata):
        return ctx.violation("column-changed", f"{what}: columns {sorted(out.ndata)}", case)
    return None


def _exec(ctx, case):
    from swcgeom.transforms import Transforms, TranslateOrigin

    t, center, form = case["t"], case["center"], case["form"]
    eff = center if center is not None else default_center(t["kind"])
    trees = [build_tree(case["tree"], case.get("reroot")),
             build_tree(case["tree2"], case.get("reroot2"))]
    for tr in trees:
        root = int(np.nonzero(tr.pid() == -1)[0][0])
        if root != 0:
            ctx.count("root_not_at_position_0")
    c0 = xyz64(trees[0])[int(np.nonzero(trees[0].pid() == -1)[0][0])]
    ctx.count("centre_origin" if eff == "origin" else
              ("centre_root_far" if np.abs(c0).max() > 50 else "centre_root_near"))
    if t.get("mint"):
        ctx.count("integer_matrices")
    ctx.count({"translate": "translations_checked", "scale": "scales_checked"}.get(
        t["kind"], "rotations_checked" if t["kind"] != "affine" else "affine_checked"))
    fps = [contracts.fingerprint(tr) for tr in trees]

    if form == "instance":
        if case.get("print_options") and t["kind"] == "rotate":
            # ... and has just rotated about an almost identical axis by the same angle
            n_ = np.array(t["n"], dtype=np.float64)
            e_ = np.eye(3)[int(np.argmin(np.abs(n_)))]
            near = n_ + 3e-4 * (e_ - (e_ @ n_) * n_)
            make(dict(t, n=(near / np.linalg.norm(near)).tolist()), center)(trees[1])
            ctx.count("rotations_after_a_near_twin_under_coarse_print_options")
        tf = make(t, center)
        outs = []
        for i, tr in enumerate(trees):  # the same instance, trees with different roots
            out = tf(tr)
            ctx.count("transform_calls")
            if i == 1:
                ctx.count("instance_reused")
            outs.append(out)
            if _compare(ctx, case, f"{type(tf).__name__} call {i + 1} on the same instance", tr,
                        out, t, eff):
                return
        # first tree again after the second: still the same answer
        again = tf(trees[0])
        if getattr(tf, "_rv_matrix", None) is not None and not np.array_equal(
                tf._rv_matrix, tf._rv_matrix_copy):
            return ctx.violation("caller-matrix-mutated", "AffineTransform modified the matrix "
                                                          "array it was constructed with", case)
        if not np.array_equal(xyz64(again), xyz64(outs[0])):
            return ctx.violation("call-history-dependence", "applying the same transform to the same "
                                                            "tree again gave different coordinates",
                                 case)
        # the caller edits the first tree in place (node handle / column write) and transforms it
        # again: the stated map applies to the tree as it is *now*
        if case.get("edit") and len(trees[0]) >= 2 and trees[0].names.x == "x" and all(
                trees[0].ndata[k_].flags.writeable for k_ in "xyz"):
            tr = trees[0]
            for (pos, col, val, how) in case["edit"]:
                pos = int(pos) % len(tr)
                if how == "node":
                    setattr(tr.node(pos), col, np.float32(val))
                elif how == "item":
                    tr[pos][col] = np.float32(val)
                else:
                    tr.ndata[col][pos] = np.float32(val)
            fps[0] = contracts.fingerprint(tr)
            out = tf(tr)
            ctx.count("transform_calls")
            ctx.count("edited_in_place_then_transformed")
            if _compare(ctx, case, f"{type(tf).__name__} after an in-place coordinate edit of the "
                                   f"same tree object", tr, out, t, eff):
                return
            outs[0] = out
        # inverse (built by the harness) restores the original coordinates
        if t["kind"] == "affine" and eff != "origin" and np.abs(np.array(t["m"])[:3, 3]).max() > 0:
            return  # the root itself moves: "inverse about the (moved) root" is another map
        if t["kind"] == "scale" and 0.0 in t["s"]:
            ctx.count("singular_scalings")
            return  # no inverse
        inv = make(inverse_of(t), center)
        back = inv(outs[0])
        ctx.count("inverse_checked")
        p0 = xyz64(trees[0])
        scale = max(1.0, float(np.abs(p0).max()), float(np.abs(xyz64(outs[0])).max()))
        if t["kind"] == "scale":
            scale *= max(1.0, max(1 / abs(s) for s in t["s"]))
        if np.abs(xyz64(back) - p0).max() > 6 * TOL * (1 + scale):
            return ctx.violation("inverse-does-not-restore",
                                 f"transform followed by its inverse moved a node by "
                                 f"{np.abs(xyz64(back) - p0).max():.3g}", case)
    elif form == "classmethod":
        out = via_classmethod(t, center, trees[0])
        if out is None:
            return
        ctx.count("transform_calls")
        ctx.count("classmethod_checked")
        if _compare(ctx, case, f"{t['kind']}.transform(...)", trees[0], out, t, eff):
            return
    elif form == "composed":
        t2 = case["t_second"]
        tf = Transforms(make(t, center), make(t2, center))
        out = tf(trees[0])
        ctx.count("transform_calls", 2)
        ctx.count("composed_checked")
        mid_want, _, _, _ = expected(trees[0], t, eff)
        # reference for the composition: apply the second stated map to the first's reference
        A2, b2 = ref_matrix(t2)
        root = int(np.nonzero(trees[0].pid() == -1)[0][0])
        eff2 = center if center is not None else default_center(t2["kind"])
        c2 = mid_want[root] if eff2 in ("root", "soma") else np.zeros(3)
        want = c2 + (mid_want - c2) @ A2.T + b2
        got = xyz64(out)
        scale = max(1.0, float(np.abs(want).max()), float(np.abs(mid_want).max()),
                    float(np.abs(xyz64(trees[0])).max()))
        if not np.isfinite(got).all() or np.abs(got - want).max() > 3 * TOL * (1 + scale):
            return ctx.violation("wrong-map", f"Transforms({t['kind']}, {t2['kind']}) is not the "
                                              f"second map after the first (max error "
                                              f"{np.abs(got - want).max():.3g})", case)
    elif form == "origin":
        out = TranslateOrigin()(trees[0]) if case.get("origin_call", True) else \
            TranslateOrigin.transform(trees[0])
        ctx.count("transform_calls")
        ctx.count("translate_origin_checked")
        root = int(np.nonzero(trees[0].pid() == -1)[0][0])
        tt = {"kind": "translate", "t": (-xyz64(trees[0])[root]).tolist()}
        if _compare(ctx, case, "TranslateOrigin", trees[0], out, tt, "origin"):
            return
    for tr, fp in zip(trees, fps):
        if contracts.fingerprint(tr) != fp:
            return ctx.violation("input-mutated", "a transform modified the tree it was given", case)


def check_builders(ctx, case):
    from swcgeom.utils import rotate3d, rotate3d_x, rotate3d_y, rotate3d_z, scale3d, translate3d

    th, n, s, tv = case["theta"], case["n"], case["s"], case["tv"]
    ctx.count("builders_checked")
    pairs = [
        ("rotate3d_x", rotate3d_x(th), rodrigues([1, 0, 0], th), np.zeros(3)),
        ("rotate3d_y", rotate3d_y(th), rodrigues([0, 1, 0], th), np.zeros(3)),
        ("rotate3d_z", rotate3d_z(th), rodrigues([0, 0, 1], th), np.zeros(3)),
        ("rotate3d", rotate3d(np.array(n), th), rodrigues(n, th), np.zeros(3)),
        ("rotate3d(list)", rotate3d(list(n), th), rodrigues(n, th), np.zeros(3)),
        ("scale3d", scale3d(*s), np.diag(s), np.zeros(3)),
        ("translate3d", translate3d(*tv), np.eye(3), np.array(tv)),
    ]
    again = {"rotate3d_x": lambda: rotate3d_x(th), "rotate3d_y": lambda: rotate3d_y(th),
             "rotate3d_z": lambda: rotate3d_z(th), "rotate3d": lambda: rotate3d(np.array(n), th),
             "rotate3d(list)": lambda: rotate3d(list(n), th), "scale3d": lambda: scale3d(*s),
             "translate3d": lambda: translate3d(*tv)}
    for name, got, A, b in list(pairs):
        # the returned matrix is the caller's: editing it (assembling a composite motion in place)
        # must not change what the builder returns for the same arguments next time
        if isinstance(got, np.ndarray) and got.flags.writeable:
            got_copy = got.copy()
            got[:3, 3] = 25.0
            got[:3, :3] *= 1.5
            pairs.append((name + " (again, after the first result was edited)",
                          np.array(again[name](), copy=True), A, b))
            got[...] = got_copy
            ctx.count("builder_results_edited_then_rebuilt")
    for name, got, A, b in pairs:
        got = np.asarray(got)
        if got.shape != (4, 4):
            return ctx.violation("builder-shape", f"{name} returned shape {got.shape}", case)
        want = np.eye(4)
        want[:3, :3] = A
        want[:3, 3] = b
        tol = 2e-6 * (1 + np.abs(want).max())
        if not np.allclose(got.astype(np.float64), want, atol=tol, rtol=0):
            return ctx.violation("builder-wrong", f"{name}(theta={th:.4f}) =\n{got.round(4)}\n"
                                                  f"reference\n{want.round(4)}", case)
        if name.startswith("rotate"):
            R = got[:3, :3].astype(np.float64)
            if abs(np.linalg.det(R) - 1) > 1e-5 or np.abs(R @ R.T - np.eye(3)).max() > 1e-5:
                return ctx.violation("builder-wrong", f"{name} is not a proper rotation", case)


def execute(ctx, case):
    try:
        with warnings.catch_warnings():
            warnings.simplefilter("ignore")
            if case.get("kind") == "builders":
                check_builders(ctx, case)
            elif case.get("print_options"):
                # the caller prints its arrays with two decimals (np.set_printoptions): how arrays
                # print is none of the transforms' business
                with np.printoptions(precision=2, suppress=True, floatmode="fixed"):
                    _exec(ctx, case)
            else:
                _exec(ctx, case)
    except Exception as e:
        ctx.violation("op-raised", f"{type(e).__name__}: {str(e)[:300]}", case)


def unit(rng):
    v = rng.normal(size=3)
    return (v / np.linalg.norm(v)).tolist()


def draw_transform(rng):
    k = str(rng.choice(["translate", "scale", "rotx", "roty", "rotz", "rotate", "rotate",
                        "affine"]))
    th = float(rng.choice(ANGLES)) if rng.random() < 0.4 else float(rng.uniform(-2 * np.pi,
                                                                                  2 * np.pi))
    if k == "translate":
        return {"kind": k, "t": (rng.normal(0, 1, 3) * 10.0 ** rng.integers(-1, 4)).round(3).tolist()}
    if k == "scale":
        s = np.exp(rng.normal(0, 0.8, 3))
        if rng.random() < 0.3:
            s[:] = s[0]
        if rng.random() < 0.15:
            s[int(rng.integers(0, 3))] = 1.0
        if rng.random() < 0.12:   # flatten along one axis: a legitimate (singular) scaling
            s[int(rng.integers(0, 3))] = 0.0
        if rng.random() < 0.12:   # mirror
            s[int(rng.integers(0, 3))] *= -1.0
        return {"kind": k, "s": s.round(4).tolist()}
    if k == "rotate":
        n = unit(rng) if rng.random() < 0.75 else [[1., 0, 0], [0, 1., 0], [0, 0, 1.],
                                                  [0, -1., 0]][int(rng.integers(0, 4))]
        return {"kind": k, "n": n, "theta": th, "n32": bool(rng.random() < 0.3),
                "nlist": bool(rng.random() < 0.2)}
    if k == "affine" and rng.random() < 0.3:
        # axis swaps, mirrors, quarter turns, integer stretches: an integer matrix
        perm = rng.permutation(3)
        m = np.zeros((4, 4))
        for i_ in range(3):
            m[i_, perm[i_]] = float(rng.choice([-1, 1, 1, 2]))
        m[3, 3] = 1.0
        if rng.random() < 0.4:
            m[:3, 3] = rng.integers(-9, 10, 3)
        return {"kind": k, "m": m.tolist(), "m64": True,
                "mint": str(rng.choice(["int64", "int32"]))}
    if k == "affine":
        m = np.eye(4)
        m[:3, :3] = rodrigues(unit(rng), th) @ np.diag(np.exp(rng.normal(0, .4, 3)))
        if rng.random() < 0.5:
            m[:3, 3] = rng.normal(0, 5, 3)
        return {"kind": k, "m": m.round(5).tolist(), "m64": bool(rng.random() < 0.5)}
    return {"kind": k, "theta": th}


def run(ctx):
    from swcgeom.transforms import AffineTransform

    contracts.install()
    rng = ctx.rng
    tap = probes.CallTap({"apply": AffineTransform.apply})
    with tap:
        for k in range(ctx.scale(2200, 264000)):
            if k % 25 == 0:
                case = {"kind": "builders", "theta": float(rng.uniform(-7, 7)), "n": unit(rng),
                        "s": np.exp(rng.normal(0, 1, 3)).round(4).tolist(),
                        "tv": rng.normal(0, 50, 3).round(3).tolist()}
                ctx.case(case, klass="builders")
                execute(ctx, case)
                continue
            geoms = ["far", "far", "plane", "gauss", "growth", "int", "big", "quarter", "micro", "tiny"]
            rc = G.random_recipe(rng, max_n=G.size_ladder(ctx, k, 8, 40, 200), geoms=geoms)
            rc2 = G.random_recipe(rng, max_n=12, geoms=geoms)
            t = draw_transform(rng)
            center = [None, None, "root", "origin", "soma"][int(rng.integers(0, 5))]
            form = str(rng.choice(["instance", "instance", "instance", "classmethod", "composed",
                                   "origin"]))
            case = {"tree": rc, "tree2": rc2, "t": t, "center": center, "form": form}
            if t["kind"] == "rotate" and rng.random() < 0.5:
                case["print_options"], case["form"] = True, "instance"
            if rng.random() < 0.25:
                case["reroot"] = int(rng.integers(0, 1000))
            if rng.random() < 0.25:
                case["reroot2"] = int(rng.integers(0, 1000))
            if form == "composed":
                case["t_second"] = draw_transform(rng)
            if form == "origin":
                case["origin_call"] = bool(rng.random() < 0.5)
            if form == "instance" and rng.random() < 0.35:
                case["edit"] = [[int(rng.integers(0, 1000)), str(rng.choice(["x", "y", "z"])),
                                 float(np.round(rng.normal(0, 30), 3)),
                                 str(rng.choice(["node", "item", "ndata"]))]
                                for _ in range(int(rng.integers(1, 4)))]
                if rng.random() < 0.5:   # move the root itself: the centre changes
                    case["edit"][0][0] = 0
            ctx.case(case, nontrivial=rc["n"] >= 2, klass=f"{t['kind']}/{form}")
            execute(ctx, case)
    ctx.count("tap_apply", tap.counts["apply"])
    for fn, mech, detail in contracts.REC.problems:
        ctx.violation("c03-contract:" + mech, f"{fn}: {detail}", {"note": "global C03 contract set "
                                                                       "during the C12 workload"})
    ctx.count("c03_contract_evaluations", sum(contracts.REC.evals.values()))


def replay(ctx, case):
    if "note" in case:
        return
    ctx.case(case)
    execute(ctx, case)
