"""C10 — morphometric features equal their textbook definitions.

Monitor: value comparison of every feature call (Tree.length, Path/Branch length and tortuosity,
NodeFeatures / TipFeatures / FurcationFeatures / PathFeatures / BranchFeatures, Sholl.get /
intersect, LMeasure.*, and the extract_feature front end for one tree and for a population) with
a float64 reference written from the definitions (rv.oracles.morpho) that never calls the
library.  Sholl radii exactly on node distances are decided on layouts whose radial distances are
exact small integers in float32; radii within rounding of a node distance elsewhere are skipped
and counted.
"""

from __future__ import annotations

import warnings

import numpy as np

from rv import probes
from rv.gen import trees as G
from rv.oracles.morpho import Ref

PROPERTY = "C10"
LEVEL = "exploration"
TECHNIQUE = ("runtime monitoring: value comparison of every morphometric entry point (Tree.length, "
             "feature classes, Sholl.get/intersect, LMeasure.*, extract_feature for trees and "
             "populations) with an independent float64 reference written from the definitions; "
             "exact-integer layouts decide Sholl threshold cases; near-threshold radii and undefined "
             "angles classified inconclusive; call taps on the anchored evaluators")
LEVEL_TEXT = ("Exploration: thousands of trees (all shape classes incl. single nodes, roots that are "
              "tips, roots with one child, binary trees for bifurcation measures, high-degree nodes; "
              "sorted and permuted numberings; generic, far-from-origin, integer and exact-radial-"
              "distance geometries; zero-length segments) x ~30 quantities, per-node quantities on "
              "every node of small trees; populations of 1-6 trees incl. single-node trees for the "
              "zero-padded front end. Held = held on those executions."
              "Each extractor object is queried repeatedly with different arguments."
              " Generated trees come in several representations of the same values (strided, other dtypes / lists, one array as two columns, read-only where the harness never writes) and half of them were queried, a third put through aborted operations, before use. Feature queries come in random order with repeats; half of the populations consist of trees naming one source file."
              " Trees derived by the library from used ones; size sweep to 2050 nodes."
              " BranchTree instances as inputs."
              " One tree in six is also measured from inside the callbacks of a traversal of another tree."
              " Measurement bundles of twins under custom column names; a densely sampled chain of 40 000 compartments; Sholl with a fixed step and its summary shortcuts."
              " Half of the front ends are used through a caller that overwrites, in place, every value it is handed."
              " Population Sholl profiles at explicit (descending, over-long) radii; bundles under other ambient states.")
LEVEL_NOTE = ("Encodes these readings: node branch order = depth of a critical node in the branch "
              "tree; L-Measure branch order = furcations on the root path, ends included; tilt = "
              "the smaller angle at the bifurcation between the ray to the parent and a daughter "
              "ray; Sholl counts segments with one end <= r and the other > r. Tolerance "
              "1e-4*(1+scale) for lengths, 0.01 degree for angles (0.1 near 0/180). Features that "
              "need a soma-typed root run on such trees only; bif_torque_* not claimed.")
RULE = ("cases = tree recipes (shape, size, numbering, geometry, root type) with the set of checked "
        "quantities derived from the tree, or population recipes; non-trivial when the tree has >= "
        "3 nodes; distinct = distinct recipes")
ASSUMPTIONS = [
    "well-formed trees; finite float32 coordinates",
    "angles are undefined (not checked) when one of the rays has zero length; contraction is "
    "undefined for a zero-length branch",
]
REQUIRED = ["trees_measured_from_inside_a_traversal", "trees", "length_checked", "branch_features_checked", "path_features_checked",
            "node_features_checked", "counts_checked", "branch_order_checked", "sholl_intersect_checked",
            "sholl_get_checked", "sholl_exact_threshold_radii", "sholl_fixed_step_checked",
            "sholl_summaries_checked", "trees_measured_under_custom_column_names",
            "densely_sampled_long_trees", "front_ends_whose_results_the_caller_overwrites",
            "population_sholl_at_explicit_radii", "lmeasure_tree_checked",
            "lmeasure_node_checked", "lmeasure_bif_checked", "lmeasure_branch_checked",
            "frontend_tree_checked", "frontend_population_checked", "population_padding_checked",
            "frontend_requeried", "feature_queries_in_random_order",
            "populations_of_trees_with_one_source", "size_sweep_cases",
            "branch_tree_instances_measured",
            "single_node_trees", "root_is_tip_or_one_child", "tap_sholl_get", "tap_features_get"]
FLOOR = {"quick": 500, "thorough": 40000}
SHARDS = {"quick": 8, "thorough": 16}
TIMEOUT = {"quick": 400, "thorough": 3000}
TOL = 1e-4


class Mismatch(Exception):
    def __init__(self, mech, detail):
        super().__init__(detail)
        self.mech, self.detail = mech, detail


def close(ctx, name, got, want, scale=1.0, tol=TOL, mech=None):
    got = np.asarray(got, dtype=np.float64)
    want = np.asarray(want, dtype=np.float64)
    if got.shape != want.shape:
        raise Mismatch(mech or name, f"{name}: shape {got.shape}, expected {want.shape} "
                                     f"(got {np.round(got, 4).tolist()[:6]}, expected "
                                     f"{np.round(want, 4).tolist()[:6]})")
    thr = tol * scale if scale > 0 else tol  # relative to the quantity's own magnitude
    if got.size and not (np.isfinite(got).all() and np.abs(got - want).max() <= thr):
        i = int(np.argmax(np.abs(got - want))) if got.ndim else 0
        g = got.ravel()[i] if got.size else got
        w = want.ravel()[i] if want.size else want
        raise Mismatch(mech or name, f"{name}: got {g!r}, the definition gives {w!r} "
                                     f"(entry {i} of {got.size})")


def msort(v):
    return np.sort(np.asarray(v, dtype=np.float64))


def check_tree(ctx, case, tree, spec, ref: Ref, soma_ok: bool):
    from swcgeom.analysis import Sholl, extract_feature
    from swcgeom.analysis.features import (BranchFeatures, FurcationFeatures, NodeFeatures,
                                           PathFeatures, TipFeatures)
    from swcgeom.analysis.lmeasure import LMeasure

    rng = np.random.default_rng(case["seed"])
    n = ref.n
    scale = float(np.abs(ref.X - ref.X[ref.root]).max()) or 1.0
    L = ref.length()
    fe = extract_feature(tree)
    if case["seed"] % 2:
        # a caller that edits what it gets back in place (normalising, sorting, trimming): every
        # later query through the same extractor still answers for the tree
        fe = G.HostileCaller(fe)
        ctx.count("front_ends_whose_results_the_caller_overwrites")

    # ---- length
    close(ctx, "Tree.length()", tree.length(), L, L)
    close(ctx, "extract_feature.get('length')", fe.get("length"), [L], L)
    bl = [ref.chain_length(b) for b in ref.branches]
    close(ctx, "sum of branch lengths vs tree length", sum(b.length() for b in tree.get_branches()),
          L, L)
    ctx.count("length_checked")

    # ---- branches / paths: the same evaluator objects are asked in a random order (tortuosity
    # before length as well as after) and some questions are asked a second time at the end
    bf = BranchFeatures(tree)
    bt = [ref.tortuosity(b) for b in ref.branches]
    pf = PathFeatures(tree)
    pl = [ref.chain_length(p) for p in ref.paths]
    pt = [ref.tortuosity(p) for p in ref.paths]
    qs = [
        lambda: close(ctx, "BranchFeatures.get_length", msort(bf.get_length()), msort(bl), scale),
        lambda: close(ctx, "branch_length (front end)", msort(fe.get("branch_length")), msort(bl),
                      scale),
        lambda: close(ctx, "BranchFeatures.get_tortuosity", msort(bf.get_tortuosity()), msort(bt),
                      0.0),
        lambda: close(ctx, "branch_tortuosity (front end)", msort(fe.get("branch_tortuosity")),
                      msort(bt), 0.0),
        lambda: close(ctx, "PathFeatures.get_length", msort(pf.get_length()), msort(pl), L),
        lambda: close(ctx, "path_length (front end)", msort(fe.get("path_length")), msort(pl), L),
        lambda: close(ctx, "PathFeatures.get_tortuosity", msort(pf.get_tortuosity()), msort(pt),
                      0.0),
        lambda: close(ctx, "path_tortuosity (front end)", msort(fe.get("path_tortuosity")),
                      msort(pt), 0.0),
        lambda: close(ctx, "extract_feature.get('length') again", fe.get("length"), [L], L),
    ]
    order = [int(i) for i in rng.permutation(len(qs))]
    for i in order + order[:4]:
        qs[i]()
    ctx.count("feature_queries_in_random_order", len(order) + 4)
    if bf.get_count() != len(ref.branches):
        raise Mismatch("branch-count", f"BranchFeatures.get_count = {bf.get_count()}, "
                                       f"{len(ref.branches)} branches")
    ctx.count("branch_features_checked")
    for p in tree.get_paths()[:5]:
        ids = [int(i) for i in p.origin_id()]
        close(ctx, "Path.length", p.length(), ref.chain_length(ids), L)
        close(ctx, "Path.tortuosity", p.tortuosity(), ref.tortuosity(ids), 0.0)
    ctx.count("path_features_checked")

    # ---- counts
    nf = NodeFeatures(tree)
    close(ctx, "node_count", [nf.get_count()[0], fe.get("node_count")[0]], [n, n], 0, 0.1)
    tf_, ff = TipFeatures(nf), FurcationFeatures(nf)
    close(ctx, "tip_count", [tf_.get_count()[0], fe.get("tip_count")[0],
                             TipFeatures.from_tree(tree).get_count()[0]],
          [len(ref.tips)] * 3, 0, 0.1, mech="tip-count")
    close(ctx, "furcation_count", [ff.get_count()[0], fe.get("furcation_count")[0]],
          [len(ref.furcations)] * 2, 0, 0.1, mech="furcation-count")
    ctx.count("counts_checked")

    # ---- branch order of critical nodes (branch-tree depth)
    depth = ref.critical_depth()
    close(ctx, "node_branch_order", msort(nf.get_branch_order()), msort(list(depth.values())), 0,
          0.1)
    close(ctx, "node_branch_order (front end)", msort(fe.get("node_branch_order")),
          msort(list(depth.values())), 0, 0.1)
    ctx.count("branch_order_checked")

    # ---- radial distances (need a soma-typed root)
    if soma_ok:
        close(ctx, "node_radial_distance", nf.get_radial_distance(), ref.d, scale)
        close(ctx, "node_radial_distance (front end)", fe.get("node_radial_distance"), ref.d, scale)
        close(ctx, "tip_radial_distance", tf_.get_radial_distance(), ref.d[sorted(ref.tips)], scale)
        close(ctx, "tip_radial_distance (front end)", fe.get("tip_radial_distance"),
              ref.d[sorted(ref.tips)], scale)
        close(ctx, "furcation_radial_distance", ff.get_radial_distance(),
              ref.d[sorted(ref.furcations)], scale)
        close(ctx, "furcation_radial_distance (front end)", fe.get("furcation_radial_distance"),
              ref.d[sorted(ref.furcations)], scale)
        ctx.count("node_features_checked")

    # ---- Sholl
    if n >= 2:
        sh = Sholl(tree)
        rmax = float(ref.d.max())
        close(ctx, "Sholl.rmax", sh.rmax, rmax, scale)
        exact = case["tree"]["geom"] == "pythag" and not case.get("_derived")
        radii = list(rng.uniform(0, rmax * 1.1, 6))
        if exact:  # radii exactly on node distances, and half-way between
            ds = sorted(set(ref.d.tolist()))
            radii += [ds[int(rng.integers(0, len(ds)))] for _ in range(6)]
            radii += [0.0, rmax]
        margin = 1e-5 * rmax + 1e-30
        for r in radii:
            m = ref.sholl_margin(r)
            if 0 < m < margin or (m == 0 and not exact):
                ctx.skip("sholl radius within rounding of a node distance")
                continue
            if m == 0:
                ctx.count("sholl_exact_threshold_radii")
            got = sh.intersect(float(r))
            ctx.count("sholl_intersect_checked")
            if int(got) != ref.sholl(r):
                raise Mismatch("sholl-count", f"Sholl.intersect({r!r}) = {int(got)}, "
                                              f"{ref.sholl(r)} segments have one end within and "
                                              f"the other beyond that radius")
        arr = np.array([r for r in radii if ref.sholl_margin(r) >= margin
                        or (exact and ref.sholl_margin(r) == 0)])
        if len(arr):
            want = [ref.sholl(r) for r in arr]
            close(ctx, "Sholl.get(steps=array)", sh.get(steps=arr), want, 0, 0.1, mech="sholl-count")
            close(ctx, "sholl (front end, steps=array)", fe.get("sholl", steps=arr), want, 0, 0.1,
                  mech="sholl-count")
            ctx.count("sholl_get_checked")
            # the same extractor object asked again with other radii (and with fewer of them)
            arr2 = np.array([r for r in rng.uniform(0, rmax * 1.1, 4)
                             if ref.sholl_margin(r) >= margin])
            if len(arr2):
                close(ctx, "sholl (front end, second query with other radii)",
                      fe.get("sholl", steps=arr2), [ref.sholl(r) for r in arr2], 0, 0.1,
                      mech="sholl-count")
                close(ctx, "sholl (front end, first radii again)", fe.get("sholl", steps=arr), want,
                      0, 0.1, mech="sholl-count")
                ctx.count("frontend_requeried")
        if rmax == 0:
            ctx.skip("all nodes coincide with the root: no Sholl radii")
            steps = None
        else:
            steps = int(rng.choice([3, 7, 20]))
    if n >= 2 and steps is not None:
        rs = np.asarray(Sholl.get_rs(sh.rmax, steps), dtype=np.float64)
        got = np.asarray(sh.get(steps))
        got2 = np.asarray(sh.get())  # default steps
        if len(got) != len(rs):
            raise Mismatch("sholl-count", f"Sholl.get({steps}) has {len(got)} entries for "
                                          f"{len(rs)} radii")
        if len(got2) != len(Sholl.get_rs(sh.rmax, 20)):
            raise Mismatch("sholl-count", "Sholl.get() length differs from its default radii")
        for r, g in zip(rs, got):
            if ref.sholl_margin(r) < margin:
                ctx.skip("sholl radius within rounding of a node distance")
                continue
            ctx.count("sholl_get_checked")
            if int(g) != ref.sholl(r):
                raise Mismatch("sholl-count", f"Sholl.get({steps}) at radius {r!r}: {int(g)}, "
                                              f"definition gives {ref.sholl(r)}")

    if n >= 2 and steps is not None and rmax >= 2:
        # the older spelling the library still accepts: a fixed step between the circles, given
        # at construction; and the summary shortcuts over the default profile
        import warnings as _w

        st_ = float(np.round(rmax / float(rng.choice([2.5, 4.2, 9.7])), 3))
        with _w.catch_warnings():
            _w.simplefilter("ignore")
            sh2 = Sholl(tree, step=st_)
            rs2 = np.arange(st_, int(np.ceil(sh2.rmax)), st_)
            got = np.asarray(sh2.get())
            if len(got) != len(rs2):
                raise Mismatch("sholl-count", f"Sholl(tree, step={st_}).get() has {len(got)} entries "
                                              f"for the {len(rs2)} radii {st_}, {2 * st_:.4g}, ... "
                                              f"below ceil(rmax)")
            for r, g in zip(rs2, got):
                if ref.sholl_margin(float(r)) < margin:
                    continue
                ctx.count("sholl_fixed_step_checked")
                if int(g) != ref.sholl(float(r)):
                    raise Mismatch("sholl-count", f"Sholl(tree, step={st_}) at radius {r!r}: "
                                                  f"{int(g)}, definition gives {ref.sholl(float(r))}")
            base = np.asarray(sh.get())
            if not (np.array_equal(np.asarray(sh.get_count()), base)
                    and np.isclose(sh.avg(), base.mean()) and np.isclose(sh.std(), base.std())
                    and int(sh.sum()) == int(base.sum())):
                raise Mismatch("sholl-count", "Sholl.get_count / avg / std / sum disagree with the "
                                              "profile Sholl.get() returns")
            ctx.count("sholl_summaries_checked")

    # ---- L-Measure
    lm = LMeasure()
    if soma_ok:
        if lm.n_stems(tree) != len(ref.ch[ref.root]):
            raise Mismatch("lmeasure-n_stems", f"n_stems = {lm.n_stems(tree)}, the root has "
                                               f"{len(ref.ch[ref.root])} children")
    for name, got, want in (("n_bifs", lm.n_bifs(tree), len(ref.furcations)),
                            ("n_branch", lm.n_branch(tree), len(ref.branches)),
                            ("n_tips", lm.n_tips(tree), len(ref.tips))):
        if got != want:
            raise Mismatch("lmeasure-" + name, f"{name} = {got}, definition gives {want}")
    ctx.count("lmeasure_tree_checked")
    nodes = range(n) if n <= 40 else sorted(set(rng.integers(0, n, 20).tolist()))
    for u in nodes:
        nd = tree.node(u)
        close(ctx, f"path_distance(node {u})", lm.path_distance(nd), ref.pathdist[u], L,
              mech="lmeasure-path_distance")
        if soma_ok:
            close(ctx, f"euc_distance(node {u})", lm.euc_distance(nd), ref.d[u], scale,
                  mech="lmeasure-euc_distance")
        if lm.branch_order(nd) != ref.order[u]:
            raise Mismatch("lmeasure-branch_order", f"branch_order(node {u}) = "
                                                    f"{lm.branch_order(nd)}, furcations on its "
                                                    f"root path: {ref.order[u]}")
        if lm.terminal_degree(nd) != ref.ntips[u]:
            raise Mismatch("lmeasure-terminal_degree", f"terminal_degree(node {u}) = "
                                                       f"{lm.terminal_degree(nd)}, tips below it: "
                                                       f"{ref.ntips[u]}")
        ctx.count("lmeasure_node_checked")
        if len(ref.ch[u]) == 2:
            a, b = ref.ch[u]
            n1, n2 = ref.ntips[a], ref.ntips[b]
            close(ctx, f"partition_asymmetry(node {u})", lm.partition_asymmetry(nd),
                  0 if n1 == n2 else abs(n1 - n2) / (n1 + n2 - 2), 0, 1e-6,
                  mech="lmeasure-partition_asymmetry")
            ctx.count("lmeasure_bif_checked")
            X = ref.X
            ra, rb = ref.remote(a), ref.remote(b)
            specs = [("bif_ampl_local", lm.bif_ampl_local, [(X[a] - X[u], X[b] - X[u])]),
                     ("bif_ampl_remote", lm.bif_ampl_remote, [(X[ra] - X[u], X[rb] - X[u])])]
            p = int(ref.pid[u])
            if p >= 0:
                v = X[p] - X[u]
                specs += [("bif_tilt_local", lm.bif_tilt_local, [(v, X[a] - X[u]), (v, X[b] - X[u])]),
                          ("bif_tilt_remote", lm.bif_tilt_remote, [(v, X[ra] - X[u]),
                                                                   (v, X[rb] - X[u])])]
            for name, fn, pairs in specs:
                angs = [Ref.angle_deg(x, y) for x, y in pairs]
                if any(a_ is None for a_ in angs):
                    ctx.skip("angle with a zero-length ray is undefined")
                    continue
                want = min(angs)
                tol = 0.01 if all(5 < a_ < 175 for a_ in angs) else 0.1
                if len(angs) == 2 and abs(angs[0] - angs[1]) < 1e-9:
                    pass
                got = float(fn(nd))
                if not np.isfinite(got) or abs(got - want) > tol:
                    raise Mismatch("lmeasure-" + name, f"{name}(node {u}) = {got:.5f} deg, the "
                                                       f"definition gives {want:.5f} deg")
    for b in tree.get_branches()[:12]:
        ids = [int(i) for i in b.origin_id()]
        bl_ = ref.chain_length(ids)
        if lm.fragmentation(b) != len(ids) - 1:
            raise Mismatch("lmeasure-fragmentation", f"fragmentation = {lm.fragmentation(b)} for a "
                                                     f"branch of {len(ids) - 1} compartments")
        close(ctx, "branch_pathlength", lm.branch_pathlength(b), bl_, scale,
              mech="lmeasure-branch_pathlength")
        if bl_ > 0:
            close(ctx, "contraction", lm.contraction(b), ref.straight(ids) / bl_, 0,
                  mech="lmeasure-contraction")
        else:
            ctx.skip("contraction of a zero-length branch is undefined")
        ctx.count("lmeasure_branch_checked")
    ctx.count("frontend_tree_checked")


def exec_tree(ctx, case):
    spec = G.spec_from_recipe(case["tree"])
    tree = G.build(spec, with_tag=False, frozen_ok=True)
    if case["seed"] % 5 == 0:
        # a tree the library derived (sorted / re-rooted / grown by a merged node) from a used one
        tree, spec = G.derive(tree, spec, int(case["seed"]))
        case = dict(case, _derived=True)  # (a re-rooted lattice no longer has exact distances)
    elif case["seed"] % 5 == 3 and len(spec["pid"]) >= 4:
        # a BranchTree instance is a tree: its morphometrics follow from its own node table
        bt, spec_bt = G.as_branch_tree(tree)
        if bt is not None:
            tree, spec = bt, spec_bt
            ctx.count("branch_tree_instances_measured")
    n = len(spec["pid"])
    xyz = np.stack([spec["x"], spec["y"], spec["z"]], axis=1)
    ref = Ref(spec["pid"], xyz)
    ctx.count("trees")
    if n == 1:
        ctx.count("single_node_trees")
    if len(ref.ch[0]) <= 1:
        ctx.count("root_is_tip_or_one_child")
    soma_ok = int(spec["type"][0]) == 1
    try:
        if case["seed"] % 6 == 1 and n <= 120:
            # the same measurements taken by user code that runs inside a traversal of another
            # tree (statistics per visited node): same numbers, and the walk in progress goes on
            _, _, prob = G.inside_traversal(lambda: check_tree(ctx, case, tree, spec, ref, soma_ok),
                                            host=G.host_tree(case["seed"] % 11, 6 + case["seed"] % 8))
            ctx.count("trees_measured_from_inside_a_traversal")
            if prob:
                raise Mismatch("measured-inside-a-traversal",
                               f"morphometrics asked for from the callbacks of a traversal of "
                               f"another tree: {prob}")
        check_tree(ctx, case, tree, spec, ref, soma_ok)
        if case["seed"] % 4 == 2 and 3 <= n <= 150 and type(tree).__name__ == "Tree":
            # the same neuron held under custom column names (`names=`): the same measurements
            r = G.same_under_renaming(_feature_bundle, tree, level=case["seed"] // 4 % 2)
            ctx.count("trees_measured_under_custom_column_names")
            if r:
                raise Mismatch("custom-column-names", f"morphometrics: {r}")
            r = G.same_under_ambient(lambda: _feature_bundle(tree), pick=case["seed"] // 4)
            if r:
                raise Mismatch("ambient-state", f"morphometrics: {r}")
    except Mismatch as m:
        ctx.violation(m.mech, m.detail + f" | n={n}, shape={case['tree']['shape']}, geom="
                                         f"{case['tree']['geom']}", case)


def exec_population(ctx, case):
    from swcgeom.analysis import Sholl, extract_feature
    from swcgeom.core import Population

    rng = np.random.default_rng(case["seed"])
    trees, refs = [], []
    for rc in case["trees"]:
        spec = G.spec_from_recipe(rc)
        # half of the populations consist of trees that all name the same file as their origin
        # (neurites, copies and transformed versions of one reconstruction do)
        src = "/data/cells/neuron.swc" if case["seed"] % 2 else ""
        trees.append(G.build(spec, with_tag=False, frozen_ok=True, source=src))
        refs.append(Ref(spec["pid"], np.stack([spec["x"], spec["y"], spec["z"]], axis=1)))
    if case["seed"] % 2:
        ctx.count("populations_of_trees_with_one_source")
    with warnings.catch_warnings():
        warnings.simplefilter("ignore")
        pop = Population(trees)
    fe = extract_feature(pop)
    feats = {
        "length": lambda r: [r.length()],
        "node_count": lambda r: [r.n],
        "tip_count": lambda r: [len(r.tips)],
        "furcation_count": lambda r: [len(r.furcations)],
        "branch_length": lambda r: [r.chain_length(b) for b in r.branches],
        "path_length": lambda r: [r.chain_length(p) for p in r.paths],
        "path_tortuosity": lambda r: [r.tortuosity(p) for p in r.paths],
        "branch_tortuosity": lambda r: [r.tortuosity(b) for b in r.branches],
        "node_radial_distance": lambda r: r.d.tolist(),
        "tip_radial_distance": lambda r: r.d[sorted(r.tips)].tolist(),
        "node_branch_order": lambda r: list(r.critical_depth().values()),
    }
    try:
        names = list(feats)
        names = [names[int(i)] for i in rng.permutation(len(names))]
        for name in names + names[:3]:  # any order; some features are asked twice
            fn = feats[name]
            got = np.asarray(fe.get(name))
            want = [fn(r) for r in refs]
            width = max(len(w) for w in want)
            ctx.count("frontend_population_checked")
            if got.shape != (len(trees), width):
                raise Mismatch("population-shape", f"{name}: shape {got.shape}, expected one row "
                                                   f"per tree padded to the longest: "
                                                   f"({len(trees)}, {width})")
            for i, w in enumerate(want):
                scale = (float(np.abs(refs[i].X - refs[i].X[0]).max()) + refs[i].length()) or 1.0
                row = got[i]
                ordered = name in ("node_radial_distance", "tip_radial_distance", "length",
                                   "node_count", "tip_count", "furcation_count")
                g = row[:len(w)] if ordered else msort(row[:len(w)])
                e = np.asarray(w, dtype=float) if ordered else msort(w)
                dimensionless = "tortuosity" in name or "count" in name or "order" in name
                close(ctx, f"population row {i} of {name}", g, e, 0.0 if dimensionless else scale,
                      tol=1e-4 if "tortuosity" in name else (0.1 if dimensionless else TOL),
                      mech="population-value:" + name)
                ctx.count("population_padding_checked")
                if len(w) < width and np.any(row[len(w):] != 0):
                    raise Mismatch("population-padding", f"{name}: row {i} is not zero-padded "
                                                         f"beyond its {len(w)} values")
        if any(r.n < 2 or r.d.max() == 0 for r in refs):
            return  # a tree without segments / extent has no Sholl profile (the library rejects it)
        first = int(rng.choice([2, 6]))
        fe.get("sholl", steps=first)  # an earlier query with other radii must not stick
        if rng.random() < 0.5:
            fe.get("sholl")
        ctx.count("frontend_requeried")
        steps = int(rng.choice([4, 9]))
        got = np.asarray(fe.get("sholl", steps=steps))
        rmax = max(Sholl(t).rmax for t in trees)  # as reported (whatever float width it has)
        rs = np.asarray(Sholl.get_rs(rmax, steps), dtype=np.float64)
        rmax = float(rmax)
        if got.shape != (len(trees), len(rs)):
            raise Mismatch("population-shape", f"sholl: shape {got.shape}, expected "
                                               f"({len(trees)}, {len(rs)})")
        for i, r in enumerate(refs):
            for j, rad in enumerate(rs):
                if r.sholl_margin(rad) < 1e-5 * rmax + 1e-30:
                    ctx.skip("sholl radius within rounding of a node distance")
                    continue
                if int(got[i, j]) != r.sholl(rad):
                    raise Mismatch("sholl-count", f"population sholl row {i} radius {rad!r}: "
                                                  f"{got[i, j]}, definition gives {r.sholl(rad)}")
        # explicit radii for the whole population: descending, and reaching beyond every tree
        arr = np.concatenate([np.linspace(1.3 * rmax, 0.05 * rmax, 7), [2.5 * rmax]])
        got = np.asarray(fe.get("sholl", steps=arr))
        if got.shape != (len(trees), len(arr)):
            raise Mismatch("population-shape", f"sholl at {len(arr)} explicit radii: shape "
                                               f"{got.shape}, expected ({len(trees)}, {len(arr)})")
        for i, r in enumerate(refs):
            for j, rad in enumerate(arr):
                if r.sholl_margin(float(rad)) < 1e-5 * rmax + 1e-30:
                    continue
                ctx.count("population_sholl_at_explicit_radii")
                if int(got[i, j]) != r.sholl(float(rad)):
                    raise Mismatch("sholl-count", f"population sholl (explicit descending radii) row "
                                                  f"{i} radius {float(rad)!r}: {got[i, j]}, "
                                                  f"definition gives {r.sholl(float(rad))}")
        ctx.count("frontend_population_checked")
    except Mismatch as m:
        ctx.violation(m.mech, m.detail, case)


def _feature_bundle(t):
    """A cross-section of the measurements as plain data (for the custom-names comparison)."""
    from swcgeom.analysis import Sholl, extract_feature
    from swcgeom.analysis.lmeasure import LMeasure

    fe = extract_feature(t)
    out = {k: np.asarray(fe.get(k)) for k in ("length", "branch_length", "path_length",
                                              "branch_tortuosity", "node_branch_order",
                                              "tip_count", "furcation_count")}
    out["tree_length"] = float(t.length())
    sh = Sholl(t)
    radii = np.linspace(0, float(sh.rmax), 9)[1:-1]
    out["sholl"], out["rmax"] = np.asarray(sh.get(steps=radii)), float(sh.rmax)
    out["sholl_frontend"] = np.asarray(fe.get("sholl", steps=radii))
    lm = LMeasure()
    out["lm"] = [lm.n_tips(t), lm.n_bifs(t), lm.n_branch(t)]
    out["lm_nodes"] = [[float(lm.path_distance(t.node(i))), float(lm.euc_distance(t.node(i))),
                        int(lm.branch_order(t.node(i)))] for i in range(0, t.number_of_nodes(), 3)]
    return out


def exec_dense(ctx, case):
    """A long, finely sampled process: tens of thousands of equal short compartments (what a
    small fixed resampling step gives). The length is the sum of the compartment lengths whatever
    their number."""
    from swcgeom.analysis import extract_feature
    from swcgeom.core import Tree

    n, step = case["n"], case["step"]
    x = (np.arange(n) * step).astype(np.float32)
    t = Tree(n, pid=np.arange(-1, n - 1, dtype=np.int32), x=x,
             y=(np.arange(n) % 2 * np.float32(step / 3)).astype(np.float32))
    X = np.stack([t.x(), t.y(), t.z()], axis=1).astype(np.float64)
    want = float(np.linalg.norm(X[1:] - X[:-1], axis=1).sum())
    ctx.count("densely_sampled_long_trees")
    for name, got in (("Tree.length", t.length()),
                      ("extract_feature(...).get('length')", float(np.asarray(
                          extract_feature(t).get("length")).ravel()[0]))):
        if abs(float(got) - want) > 2e-5 * want:
            return ctx.violation("length", f"{name} of {n - 1} compartments of about {step} each = "
                                           f"{float(got)!r}, their summed length is {want!r} "
                                           f"(relative difference {abs(float(got) - want) / want:.2e})",
                                 case)


def execute(ctx, case):
    try:
        with warnings.catch_warnings():
            warnings.simplefilter("ignore")
            if case["kind"] == "dense":
                exec_dense(ctx, case)
            elif case["kind"] == "tree":
                exec_tree(ctx, case)
            else:
                exec_population(ctx, case)
    except Exception as e:
        ctx.violation("feature-raised", f"{type(e).__name__}: {str(e)[:300]}", case)


def run(ctx):
    from swcgeom.analysis import Sholl
    from swcgeom.analysis.feature_extractor import Features

    rng = ctx.rng
    tap = probes.CallTap({"sholl_get": Sholl.get, "features_get": Features.get})
    geoms = ["growth", "plane", "gauss", "far", "int", "pythag", "pythag", "coincident", "axis", "big",
             "tiny", "micro"]
    with tap:
        for k in range(ctx.scale(900, 72000)):
            if k % 12 == 11:
                m = int(rng.integers(1, 7))
                rcs = []
                for _ in range(m):
                    rc = G.random_recipe(rng, max_n=int(rng.choice([1, 2, 8, 30])), geoms=geoms,
                                         types="soma", extras=0)
                    rcs.append(rc)
                if rng.random() < 0.5:
                    rcs[int(rng.integers(0, m))] = G.random_recipe(rng, max_n=1, shapes=["single"],
                                                                   geoms=geoms, types="soma",
                                                                   extras=0)
                case = {"kind": "population", "trees": rcs, "seed": int(rng.integers(0, 2**31 - 1))}
                ctx.case(case, klass="population")
                execute(ctx, case)
                continue
            shapes = ["binary", "neuron", "binary"] if k % 3 == 0 else None
            rc = G.random_recipe(rng, max_n=G.size_ladder(ctx, k, 10, 40, 200), shapes=shapes,
                                 geoms=geoms, types="soma" if rng.random() < 0.7 else "nonsoma",
                                 extras=0)
            case = {"kind": "tree", "tree": rc, "seed": int(rng.integers(0, 2**31 - 1))}
            ctx.case(case, nontrivial=rc["n"] >= 3, klass=f"tree/{rc['shape']}/{rc['geom']}")
            execute(ctx, case)
        for j, rc in enumerate(G.sweep_recipes(ctx, max_small=2050, geoms=["growth", "pythag"])):
            case = {"kind": "tree", "tree": rc, "seed": 500 + j}
            ctx.case(case, klass="size-sweep")
            ctx.count("size_sweep_cases")
            execute(ctx, case)
        if ctx.shard == 2 % ctx.nshards:
            case = {"kind": "dense", "n": 40001 if ctx.quick else 150001,
                    "step": float(rng.choice([0.013, 0.0081, 0.3]))}
            ctx.case(case, klass="dense-chain")
            execute(ctx, case)
        for j, rc in enumerate(G.real_recipes(rng, 1000 if ctx.quick else None)):
            if j % ctx.nshards == ctx.shard:
                case = {"kind": "tree", "tree": rc, "seed": int(rng.integers(0, 2**31 - 1))}
                ctx.case(case, klass="real-morphology")
                ctx.count("real_morphologies")
                execute(ctx, case)
    ctx.count("tap_sholl_get", tap.counts["sholl_get"])
    ctx.count("tap_features_get", tap.counts["features_get"])


def replay(ctx, case):
    ctx.case(case)
    execute(ctx, case)
