"""C03 — every tree operation returns a well-formed tree and leaves its inputs untouched.

Monitor: the global contract set of rv.contracts (icontract snapshots + post-conditions on the
real entry points: well-formedness, input fingerprints, np.shares_memory) stays installed while
random *pipelines* of operations run; in addition two mutation probes follow every step,
because "later edits of either side cannot leak into the other" is a statement about the
future of the call: (1) every output array is overwritten with poison and the inputs are
re-fingerprinted; (2) the same operation is re-run on sacrificial copies of the inputs, those
inputs are poisoned afterwards and the second output must still equal the first one.
"""

from __future__ import annotations

import io
import warnings

import numpy as np

from rv import contracts, probes
from rv.checks.c06 import tip_branches
from rv.gen import trees as G
from rv.oracles import topo

PROPERTY = "C03"
LEVEL = "exploration"
TECHNIQUE = ("runtime monitoring: icontract contract set (well-formedness, input fingerprints, "
             "np.shares_memory) on the real tree->tree entry points, active during random "
             "operation pipelines; poison-write probes on outputs and on inputs after every step")
LEVEL_TEXT = ("Exploration over programs: thousands of random pipelines (1-8 steps quick, 1-25 "
              "thorough) over the operation alphabet with admissible arguments drawn from the current "
              "tree, from every shape class; every call of a contracted entry point (also nested "
              "ones) is checked, and both mutation probes run after every pipeline step."
              " Generated trees come in several representations of the same values (strided, other dtypes / lists, one array as two columns, read-only where the harness never writes) and half of them were queried, a third put through aborted operations, before use. cat_tree(t, t, ...) with one object in both positions; steps on trees with read-only columns."
              " Pipelines with forced renumbering / pruning / file steps on trees of 255 .. 4097 nodes."
              " Pipelines that start from a BranchTree instance (its remembered branches compared for shared storage); removal sets with hundreds of generations below them."
              " The first steps of every pipeline are repeated on twins under custom column names; one big branched, permuted tree (50 000 .. 100 000 nodes) through the renumbering operations; Transforms compared with its members taken out by index."
              " After every step the poisoned result is followed by the same operation once more (same untouched inputs, same content)."
              " Steps repeated under other ambient states (numpy error state, warnings as errors, print options, gc off, another cwd, low recursion limit); round trips through a file with a non-ASCII remark.")
LEVEL_NOTE = ("Contracts cannot see a reference bound before installation that is not a module "
              "attribute; evaluation counters per entry point make that visible (a zero count is "
              "inconclusive). NaN-producing Normalizer inputs (constant columns) are not generated.")
RULE = ("cases = (tree recipe, pipeline seed, length); each step draws an operation and admissible "
        "arguments from the current tree; non-trivial when the pipeline has >= 2 steps on a tree of "
        ">= 3 nodes; distinct = distinct (recipe, pipeline seed)")
ASSUMPTIONS = [
    "start trees are well-formed with finite coordinates; arguments are admissible (existing node "
    "ids, root never removed, types present in the tree, furcation order >= 1, spacing > 0)",
    "dtype changes (int32 -> int64 ids) and sibling order are free",
    "operations are deterministic (needed by the input-poison probe; a non-reproducible result "
    "is counted inconclusive, not a violation)",
]
OPS_REQUIRED = ["sort_tree", "get_subtree", "to_subtree", "cut_tree", "redirect_tree", "cat_tree",
                "Node.subtree", "CutByType", "CutByFurcationOrder", "CutShortTipBranch",
                "TreeSmoother", "IsometricResampler", "AffineTransform", "Translate", "Scale", "Rotate",
                "TranslateOrigin", "Normalizer",
                "RadiusReseter", "Transforms"]
REQUIRED = ["contract_evals_" + o for o in OPS_REQUIRED] + [
    "compositions_compared_with_their_members", "steps_compared_under_custom_column_names",
    "big_branched_trees", "probe_repeat_after_output_poison",
    "roundtrip_steps_through_a_file_with_non_ascii_remark",
    "steps_executed", "probe_output_poison", "probe_input_poison", "roundtrip_steps",
    "identity_transform_steps", "same_tree_in_two_argument_positions", "size_sweep_cases",
    "pipelines_starting_from_a_branch_tree", "deep_pruning_cases",
    "steps_on_readonly_columns"]
FLOOR = {"quick": 300, "thorough": 30000}
SHARDS = {"quick": 8, "thorough": 16}

POISON_F, POISON_I = np.float32(-7.77e7), -77


def clone(t):
    from swcgeom.core import Tree

    return Tree(len(t), source=t.source, comments=list(t.comments), names=t.names,
                **{k: np.array(v, copy=True) for k, v in t.ndata.items()})


def content(t):
    return {k: np.array(v, copy=True) for k, v in t.ndata.items()}, list(t.comments), t.source


def same_content(c, t):
    cols, comments, source = c
    if set(cols) != set(t.ndata) or comments != list(t.comments):
        return False
    return all(v.shape == t.ndata[k].shape and
               bool(np.all((v == t.ndata[k]) | ((v != v) & (t.ndata[k] != t.ndata[k]))))
               for k, v in cols.items())


def poison(t):
    for k, v in t.ndata.items():
        if isinstance(v, np.ndarray) and v.flags.writeable:
            v[...] = POISON_F if v.dtype.kind == "f" else POISON_I
    if isinstance(t.comments, list):
        t.comments.append("rv-poison")


def _arrays_of_extra_state(t):
    """Arrays reachable from a tree's state beyond its columns (a BranchTree's branches)."""
    out = []
    br = getattr(t, "branches", None)
    if isinstance(br, dict):
        for lst in br.values():
            for b in lst:
                at = getattr(b, "attach", None)
                nd = getattr(at, "ndata", None)
                if isinstance(nd, dict):
                    out.extend(v for v in nd.values() if isinstance(v, np.ndarray))
                if isinstance(getattr(b, "idx", None), np.ndarray):
                    out.append(b.idx)
    return out


def _extra_state_shared(out, x):
    if getattr(out, "branches", None) is None or getattr(x, "branches", None) is None:
        return False
    if out.branches is x.branches:
        return True
    mine = {a.__array_interface__["data"][0] for a in _arrays_of_extra_state(x) if a.size}
    return any(a.size and a.__array_interface__["data"][0] in mine
               for a in _arrays_of_extra_state(out))


def spec_of(t):
    return {"pid": t.pid(), "x": t.x(), "y": t.y(), "z": t.z(), "type": t.type()}


def draw_op(rng, t, allow_grow=True, force=None):
    """Returns (label, fn(tree, *more), extra_inputs, expect) with admissible arguments."""
    from swcgeom.core import (cat_tree, cut_tree, get_subtree, redirect_tree, sort_tree,
                              to_subtree, Tree)
    from swcgeom import transforms as T

    n = len(t)
    choices = ["sort_tree", "get_subtree", "node_subtree", "to_subtree", "cut_enter", "cut_leave",
               "cut_noop", "redirect", "redirect_nosort", "cat", "cat_self", "CutByType", "CutAxon",
               "CutByFurcationOrder", "CutShortTipBranch", "Translate", "TranslateT", "Scale",
               "Rotate", "RotateXYZ", "TranslateOrigin", "AffineTransform", "Normalizer",
               "RadiusReseter", "TreeSmoother", "IsometricResampler", "Transforms", "roundtrip",
               "identity"]
    name = str(rng.choice(choices)) if force is None else force
    if name == "sort_tree":
        return name, lambda a: sort_tree(a), [], None
    if name == "get_subtree":
        v = int(rng.integers(0, n))
        return f"get_subtree({v})", lambda a: get_subtree(a, v), [], None
    if name == "node_subtree":
        v = int(rng.integers(0, n))
        return f"node({v}).subtree", lambda a: a.node(v).subtree(), [], None
    if name == "to_subtree":
        m = int(rng.integers(0, min(n - 1, 4) + 1)) if n > 1 else 0
        rem = [int(x) for x in rng.choice(np.arange(1, n), size=m, replace=False)] if m else []
        return f"to_subtree({rem})", lambda a: to_subtree(a, rem), [], None
    if name == "cut_enter":
        d = int(rng.integers(1, 6))
        return f"cut_tree(enter depth>={d})", lambda a: cut_tree(
            a, enter=lambda nd, p: ((0 if p is None else p + 1), (0 if p is None else p + 1) >= d)
        ), [], None
    if name == "cut_leave":
        salt = int(rng.integers(1, 1000))
        return f"cut_tree(leave salt={salt})", lambda a: cut_tree(
            a, leave=lambda nd, vals: (1 + sum(vals), nd.id != 0 and (nd.id * salt) % 5 == 0)
        ), [], None
    if name == "cut_noop":
        return "cut_tree()", lambda a: cut_tree(a), [], None
    if name in ("redirect", "redirect_nosort"):
        v = int(rng.integers(0, n))
        if name == "redirect":
            return f"redirect_tree({v})", lambda a: redirect_tree(a, v), [], None
        # sort=False output has its root at position v: legal, but only as a last step / before sort
        return (f"redirect_tree({v}, sort=False)+sort_tree",
                lambda a: sort_tree(redirect_tree(a, v, sort=False)), [], None)
    if name == "cat_self":
        # a copy of the tree grafted onto the tree itself: one object in both argument positions
        if not allow_grow or n > 60:
            return draw_op(rng, t, allow_grow)
        a_, b_ = int(rng.integers(0, n)), int(rng.integers(0, n))
        tr = bool(rng.random() < .6)
        return (f"cat_tree(t, t, a={a_}, b={b_}, translate={tr})",
                lambda a: cat_tree(a, a, a_, b_, translate=tr), [], "self")
    if name == "cat":
        if not allow_grow:
            return draw_op(rng, t, allow_grow)
        rb = G.random_recipe(rng, max_n=12, extras=0,
                             geoms=["growth", "gauss", "int", "coincident", "plane"])
        b = G.build(G.spec_from_recipe(rb), with_tag=False, comments=["second"], frozen_ok=True)
        a_, b_ = int(rng.integers(0, n)), int(rng.integers(0, len(b)))
        tr = bool(rng.random() < .5)
        return (f"cat_tree(a={a_}, b={b_}, translate={tr})",
                lambda a, bb: cat_tree(a, bb, a_, b_, translate=tr), [b], None)
    if name == "CutByType":
        ty = int(rng.choice(t.type()))
        return f"CutByType({ty})", lambda a: T.CutByType(ty)(a), [], None
    if name == "CutAxon":
        if 2 in t.type():
            return "CutAxonTree", lambda a: T.CutAxonTree()(a), [], None
        if 3 in t.type():
            return "CutDendriteTree", lambda a: T.CutDendriteTree()(a), [], None
        return draw_op(rng, t, allow_grow)
    if name == "CutByFurcationOrder":
        k = int(rng.integers(1, 5))
        return f"CutByFurcationOrder({k})", lambda a: T.CutByFurcationOrder(k)(a), [], None
    if name == "CutShortTipBranch":
        cands = tip_branches(spec_of(t))
        th = float(rng.choice([L for L, _ in cands])) * float(rng.choice([0.5, 1.01, 2.0])) \
            if cands else 5.0
        return f"CutShortTipBranch({th:.4g})", lambda a: T.CutShortTipBranch(th)(a), [], None
    if name == "Translate":
        v = [float(x) for x in rng.normal(0, 20, 3)]
        return f"Translate{tuple(round(x, 2) for x in v)}", lambda a: T.Translate(*v)(a), [], None
    if name == "TranslateT":
        v = [float(x) for x in rng.normal(0, 20, 3)]
        return "Translate.transform", lambda a: T.Translate.transform(a, *v), [], None
    if name == "Scale":
        s = [float(x) for x in rng.choice([0.5, 1.0, 2.0, 1.5, 0.25], 3)]
        c = str(rng.choice(["root", "origin"]))
        return f"Scale({s}, {c})", lambda a: T.Scale(*s, center=c)(a), [], None
    if name == "Rotate":
        ax = rng.normal(0, 1, 3)
        ax = ax / np.linalg.norm(ax)
        th = float(rng.choice([0.0, 0.3, -1.2, np.pi, 2 * np.pi]))
        c = str(rng.choice(["root", "origin"]))
        return f"Rotate(theta={th:.3g}, {c})", lambda a: T.Rotate(ax, th, center=c)(a), [], None
    if name == "RotateXYZ":
        th = float(rng.choice([0.0, 0.4, -2.0, np.pi / 2]))
        cls = [T.RotateX, T.RotateY, T.RotateZ][int(rng.integers(0, 3))]
        return f"{cls.__name__}({th:.3g})", lambda a: cls(th)(a), [], None
    if name == "TranslateOrigin":
        return "TranslateOrigin", lambda a: T.TranslateOrigin()(a), [], None
    if name == "AffineTransform":
        from swcgeom.utils import scale3d, translate3d

        tm = translate3d(1, -2, 3).dot(scale3d(2, 2, 2))
        return "AffineTransform(tm)", lambda a: T.AffineTransform(tm, center="root")(a), [], None
    if name == "Normalizer":
        if any(float(np.max(t.ndata[k])) == 0.0 for k in "xyzr"):
            return draw_op(rng, t, allow_grow)
        return "Normalizer", lambda a: T.Normalizer()(a), [], None
    if name == "RadiusReseter":
        r = float(rng.choice([0.5, 1.0, 2.5]))
        return f"RadiusReseter({r})", lambda a: T.RadiusReseter(r)(a), [], None
    if name == "TreeSmoother":
        w = int(rng.choice([1, 3, 5, 9]))
        return f"TreeSmoother({w})", lambda a: T.TreeSmoother(w)(a), [], None
    if name == "IsometricResampler":
        xyz = t.xyz().astype(np.float64)
        L = float(np.linalg.norm(xyz[1:] - xyz[t.pid()[1:]], axis=1).sum()) if n > 1 else 0.0
        sp = float(np.exp(rng.uniform(np.log(max(L / 300, 1e-3)), np.log(max(L, 1e-2))))) \
            if L > 0 and np.isfinite(L) else 1.0
        return f"IsometricResampler({sp:.4g})", lambda a: T.IsometricResampler(sp)(a), [], None
    if name == "Transforms":
        k = int(rng.integers(1, 4))

        def composed(a):
            pipe = T.Transforms(T.RotateZ(0.2), T.Transforms(T.CutByFurcationOrder(k)),
                                T.TranslateOrigin())
            out_ = pipe(a)
            # sequential composition: the wrapper is its members applied one after another
            # (nested wrappers flattened), also when they are taken out by index
            step_ = a
            for i_ in range(len(pipe)):
                step_ = pipe[i_](step_)
            COMPOSED[0] += 1
            if len(pipe) != 3 or fingerprint_cols(step_) != fingerprint_cols(out_) or \
                    not isinstance(repr(pipe), str):
                COMPOSED_BAD.append(f"Transforms of {len(pipe)} members differs from its members "
                                    f"applied one after another")
            return out_

        return f"Transforms(RotateZ, CutByFurcationOrder({k}), TranslateOrigin)", composed, [], None
    if name == "roundtrip":
        if int(rng.integers(0, 2)):
            def via_file(a):
                # through a file, the tree carrying a remark that is not ASCII ("units: µm")
                import os
                import tempfile

                d_ = tempfile.mkdtemp(prefix="rv-c03-")
                try:
                    b = a.copy()
                    b.comments = list(b.comments) + ["units: \u00b5m"]
                    f_ = os.path.join(d_, "t.swc")
                    b.to_swc(f_)
                    ROUNDTRIP_FILES[0] += 1
                    return Tree.from_swc(f_)
                finally:
                    import shutil

                    shutil.rmtree(d_, ignore_errors=True)

            return "swc round trip through a file", via_file, [], "roundtrip"
        return "swc round trip", lambda a: Tree.from_swc(io.StringIO(a.to_swc())), [], "roundtrip"
    if name == "identity":
        which = int(rng.integers(0, 4))
        fns = [lambda a: T.Translate(0, 0, 0)(a), lambda a: T.Scale(1, 1, 1)(a),
               lambda a: T.RotateZ(0.0)(a),
               lambda a: T.TranslateOrigin()(T.TranslateOrigin()(a))]
        return ("identity-transform#" + str(which)), fns[which], [], "identity"
    raise AssertionError(name)


COMPOSED, COMPOSED_BAD = [0], []
ROUNDTRIP_FILES = [0]


def fingerprint_cols(t):
    return [(k_, v_.shape, v_.tobytes()) for k_, v_ in sorted(t.ndata.items())]


def _run_pipeline(ctx, case):
    from swcgeom.core import Tree as Tree_

    rec = contracts.install()
    rng = np.random.default_rng(case["pseed"])
    spec = G.spec_from_recipe(case["tree"])
    t = G.build(spec, with_tag=False, comments=["first", "  second"], frozen_ok=True)
    if case.get("as_branch_tree"):
        # the pipeline starts from a BranchTree instance (a Tree subclass with state of its own:
        # the remembered branches) -- results must not share *that* state with their input either
        bt, _ = G.as_branch_tree(t)
        if bt is not None:
            t = bt
            ctx.count("pipelines_starting_from_a_branch_tree")
    max_n = 300 if ctx.quick else 3000
    for step in range(case["length"]):
        forced = case.get("ops")
        label, fn, extra, kind = draw_op(rng, t, allow_grow=len(t) < max_n,
                                         force=forced[step] if forced else None)
        inputs = [t] + extra
        copies = [clone(x) for x in inputs]
        before = [contracts.fingerprint(x) for x in inputs]
        n_prob = len(rec.problems)
        try:
            out = fn(*inputs)
        except Exception as e:
            ctx.violation("op-raised", f"step {step} {label} on a {len(t)}-node tree raised "
                                       f"{type(e).__name__}: {str(e)[:200]}", case)
            return
        ctx.count("steps_executed")
        if kind == "roundtrip":
            ctx.count("roundtrip_steps")
        if kind == "identity":
            ctx.count("identity_transform_steps")
        if kind == "self":
            ctx.count("same_tree_in_two_argument_positions")
        # direct checks (also for steps not covered by a contract, e.g. the SWC round trip)
        wf = topo.well_formed(out.id(), out.pid())
        if wf:
            ctx.violation("malformed-result", f"step {step} {label}: {wf}", case)
            return
        for x, fp in zip(inputs, before):
            if contracts.fingerprint(x) != fp:
                ctx.violation("input-mutated", f"step {step} {label}: an input tree was modified",
                              case)
                return
            if out is x:
                ctx.violation("result-is-input", f"step {step} {label}: returned its input object",
                              case)
                return
            if _extra_state_shared(out, x):
                ctx.violation("shares-storage", f"step {step} {label}: the result shares the "
                                                f"input's remembered branches (a {type(x).__name__}"
                                                f" carries state beyond its columns)", case)
                return
            for a, va in out.ndata.items():
                for b, vb in x.ndata.items():
                    if np.shares_memory(va, vb):
                        ctx.violation("shares-storage", f"step {step} {label}: result column {a!r} "
                                                        f"shares memory with input column {b!r}", case)
                        return
        for fnname, mech, detail in rec.problems[n_prob:]:
            ctx.violation(f"{mech}", f"step {step} {label}: contract on {fnname}: {detail}", case)
        if len(rec.problems) > n_prob:
            return
        if kind != "roundtrip" and all(type(x) is Tree_ for x in inputs) and step < 3:
            # the same step on twins that hold the same values under custom column names (the
            # library's `names=` mechanism): the same tree, under the twins' names
            r = G.same_under_renaming(fn, *inputs, level=(step + case["pseed"]) % 2)
            ctx.count("steps_compared_under_custom_column_names")
            if r:
                ctx.violation("custom-column-names", f"step {step} {label}: {r}", case)
                return
            r = G.same_under_ambient(lambda: fn(*inputs), pick=step + case["pseed"])
            if r:
                ctx.violation("ambient-state", f"step {step} {label}: {r}", case)
                return
        # probe 1: poison the output, inputs must not notice
        saved = content(out)
        poison(out)
        ctx.count("probe_output_poison")
        for x, fp in zip(inputs, before):
            if contracts.fingerprint(x) != fp:
                ctx.violation("edit-leaks-to-input", f"step {step} {label}: overwriting the result "
                                                     f"changed an input tree", case)
                return
        # probe 3: the overwritten result belongs to the caller; the same operation asked for again
        # (same, untouched inputs) gives the same tree as the first time
        try:
            again = fn(*inputs)
        except Exception as e:
            ctx.violation("op-raised", f"step {step} {label} (asked again after its first result "
                                       f"was overwritten by the caller) raised {type(e).__name__}: "
                                       f"{str(e)[:200]}", case)
            return
        ctx.count("probe_repeat_after_output_poison")
        if not same_content(saved, again) and not same_content(content(again), fn(*inputs)):
            ctx.skip("operation not reproducible bit-for-bit; repeat-after-poison probe skipped")
        elif not same_content(saved, again):
            ctx.violation("edit-leaks-to-later-result",
                          f"step {step} {label}: after the caller overwrote the first result in "
                          f"place, the same operation on the same (untouched) inputs returned a "
                          f"different tree", case)
            return
        # probe 2: re-run on sacrificial inputs, poison those, the result must not notice
        try:
            out2 = fn(*copies)
        except Exception as e:
            ctx.violation("op-raised", f"step {step} {label} (second run) raised "
                                       f"{type(e).__name__}: {str(e)[:200]}", case)
            return
        if not same_content(saved, out2):
            ctx.skip("operation not reproducible bit-for-bit; input-poison probe skipped")
        else:
            for x in copies:
                poison(x)
            ctx.count("probe_input_poison")
            if not same_content(saved, out2):
                ctx.violation("edit-leaks-to-result", f"step {step} {label}: overwriting the inputs "
                                                      f"after the call changed the result", case)
                return
            out2 = None
        # continue from a pristine rebuild of the result
        from swcgeom.core import Tree

        cols, comments, source = saved
        t = Tree(len(cols["id"]), source=source, comments=comments, **cols)
        for k_, v_ in cols.items():
            # keep the result's own dtypes (the constructor re-casts ids to int32): an operation
            # that aliases its input only for some dtype must meet that dtype in the next step
            t.ndata[k_] = np.array(v_, copy=True)
        if rng.random() < 0.2:  # the caller froze its arrays: operations copy, they never write
            for v_ in t.ndata.values():
                v_.setflags(write=False)
            ctx.count("steps_on_readonly_columns")
        if not np.all(np.isfinite(t.xyz())):
            ctx.skip("non-finite coordinates reached; pipeline stopped")
            return


def execute(ctx, case):
    with warnings.catch_warnings():
        warnings.simplefilter("ignore")
        with np.errstate(all="ignore"):
            _run_pipeline(ctx, case)


def run(ctx):
    from swcgeom.core import Tree, cat_tree, get_subtree, redirect_tree, sort_tree

    rec = contracts.install()
    rng = ctx.rng
    n_pipes = ctx.scale(700, 60000)
    for k in range(n_pipes):
        rc = G.random_recipe(rng, max_n=G.size_ladder(ctx, k, 10, 40, 150), extras=0,
                             geoms=["growth", "gauss", "far", "int", "quarter", "coincident", "plane",
                                    "axis", "big"])
        case = {"tree": rc, "pseed": int(rng.integers(0, 2**31 - 1)),
                "length": int(rng.integers(1, 9 if ctx.quick else 26))}
        if k % 7 == 3 and rc["n"] >= 4:
            case["as_branch_tree"] = True
            case["length"] = min(case["length"], 2)
        ctx.case(case, nontrivial=case["length"] >= 2 and rc["n"] >= 3,
                 klass=f"{rc['shape']}")
        execute(ctx, case)
    for j, rc in enumerate(G.sweep_recipes(ctx, max_small=4097, large=0)):
        # node counts on / next to powers of two and block sizes through the renumbering, pruning
        # and file operations
        ops = [["roundtrip", "sort_tree"], ["redirect", "roundtrip"], ["to_subtree", "roundtrip"],
               ["sort_tree", "get_subtree"]][j % 4]
        case = {"tree": rc, "pseed": 11 + j, "length": len(ops), "ops": ops}
        ctx.case(case, klass="size-sweep")
        ctx.count("size_sweep_cases")
        execute(ctx, case)
    deep = [("chain", 300), ("bamboo", 400), ("chain", 1000), ("caterpillar", 600), ("stem", 500),
            ("bamboo", 1500), ("chain", 130), ("broom", 700)]
    for j, (shape, n_) in enumerate(deep):
        # pruning near the root of deep structures: whatever is removed has hundreds of
        # generations below it, all of which go with it
        if j % ctx.nshards != ctx.shard:
            continue
        rc = {"shape": shape, "n": n_, "numbering": "perm" if j % 2 else "sorted", "geom": "growth",
              "types": "soma", "extras": 0, "seed": 300 + j + 10 * ctx.seed}
        for ops in (["to_subtree"], ["cut_leave"], ["CutShortTipBranch"], ["cut_enter"]):
            case = {"tree": rc, "pseed": 21 + j, "length": 1, "ops": ops}
            ctx.case(case, klass="deep-pruning")
            ctx.count("deep_pruning_cases")
            execute(ctx, case)
    if ctx.shard == 0:  # one deep chain through the stack-based operations

        n_deep = 20000 if ctx.quick else 100000
        case = {"deep_chain": n_deep}
        ctx.case(case, klass="deep-chain")
        try:
            t = Tree(n_deep, x=np.arange(n_deep, dtype=np.float32))
            for o in (sort_tree(t), get_subtree(t, n_deep // 2), redirect_tree(t, n_deep - 1)):
                wf = topo.well_formed(o.id(), o.pid())
                if wf:
                    ctx.violation("malformed-result", f"deep chain: {wf}", case)
        except RecursionError as e:
            ctx.violation("recursion-limit", f"deep chain of {n_deep}: {e}", case)
    if ctx.shard == 1 % ctx.nshards:
        # one big *branched* tree with permuted numbering (products of ids and the node count pass
        # 2^31 beyond 46 340 nodes) through the renumbering operations
        n_big = (50000, 70000, 100000)[ctx.seed % 3] if ctx.quick else 100000
        rc = {"shape": "recursive", "n": n_big, "numbering": "perm", "geom": "growth",
              "types": "soma", "extras": 1, "seed": 70 + ctx.seed}
        case = {"big_branched": rc}
        ctx.case(case, klass="big-branched")
        ctx.count("big_branched_trees")
        try:
            t = G.build(G.spec_from_recipe(rc), with_tag=False)
            small = Tree(3, x=np.array([1, 2, 3], dtype=np.float32))
            fp = contracts.fingerprint(t)
            for label, o in (("sort_tree", sort_tree(t)),
                             ("redirect_tree", redirect_tree(t, n_big - 7)),
                             ("cat_tree", cat_tree(small, t, 1, 0))):
                wf = topo.well_formed(o.id(), o.pid())
                if wf or len(o.id()) < n_big:
                    ctx.violation("malformed-result", f"{label} of a {n_big}-node branched tree: "
                                                      f"{wf or 'nodes lost'}", case)
                    break
            if contracts.fingerprint(t) != fp:
                ctx.violation("input-mutated", f"an operation on a {n_big}-node tree modified it",
                              case)
        except Exception as e:
            ctx.violation("op-raised", f"{n_big}-node branched tree: {type(e).__name__}: "
                                       f"{str(e)[:200]}", case)
    for name, v in rec.evals.items():
        ctx.count("contract_evals_" + name, v)
    ctx.count("compositions_compared_with_their_members", COMPOSED[0])
    ctx.count("roundtrip_steps_through_a_file_with_non_ascii_remark", ROUNDTRIP_FILES[0])
    for msg in COMPOSED_BAD[:3]:
        ctx.violation("composition-differs", msg, {"note": "Transforms(...) step of a pipeline"})


def replay(ctx, case):
    ctx.case(case)
    if "deep_chain" in case or "big_branched" in case:
        return
    execute(ctx, case)
