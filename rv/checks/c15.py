"""C15 — Neurolucida ASC conversion is faithful to the document.

Monitor: model-based result-or-exception recorder.  The generator draws a *document model*
(label; a branch = points followed optionally by a split = alternatives, each again a branch,
possibly empty; any depth), computes the expected node table from the model, and only then
renders the model to text with random layout, comments and colour markers.  Mutilated documents
(every token-boundary prefix, character prefixes of small documents, malformed points) must be
rejected with an exception.  A logical step budget (sys.monitoring LINE counter over the
converter module) turns a hang into a decided outcome.
"""

from __future__ import annotations

import io
import os
import shutil
import sys
import tempfile
import warnings

import numpy as np

from rv import probes

PROPERTY = "C15"
LEVEL = "exploration"
TECHNIQUE = ("runtime monitoring: model-based result-or-exception recorder around "
             "NeurolucidaAscToSwc.from_stream / convert / __call__; expected node table computed "
             "from the generated document model (never from the text); metamorphic re-rendering "
             "with and without comments / colour markers; fault injection (all token-boundary "
             "prefixes, character prefixes, malformed points) must raise; sys.monitoring step "
             "budget and RAISE tap on the parser")
LEVEL_TEXT = ("Exploration: thousands of generated documents (1-6 alternatives per split, empty "
              "alternatives in every position, nesting to depth 200, branches to 5000 points, points "
              "after a nested split, number spellings, mixed-case labels, comments after points / "
              "brackets / bars / colour markers, colour markers before the label and between "
              "points) through all three entry points; every token-boundary prefix of sampled "
              "documents, every character prefix of small ones, and every point as a corruption "
              "site. Held = held on those executions."
              " Zero-radius samples; long documents in which almost every point carries a long annotation (most of the text is comment text, > 250 000 characters per document)."
              " Files are also reached through relative, doubled-separator and '<link>/..' spellings (with a decoy where a lexical clean-up would look)."
              " from_stream on real file objects and FileReader streams; comments with unbalanced brackets; documents of exactly 4096k points."
              " Form feed and Unicode line-boundary characters inside comments."
              " Streams whose reads convert another document; the same unchanged file converted twice."
              " One document of more than 2^20 characters per shard; conversions with a custom type table and column names (directly and through a converter subclass)."
              " One parsed document converted twice.")
LEVEL_NOTE = ("Comments are placed at line ends anywhere between tokens except inside a point or a "
              "marker (before the document, after brackets, bars, points, colour markers and the "
              "label); colour markers before the label and between points. Expected coordinates are float32(float(token)). The step budget is "
              "5000 line events per character + 10^6.")
RULE = ("cases = (document seed, shape class, rendering seed, entry point) and for fault cases the "
        "mutilation (prefix length or corrupted point + corruption kind); non-trivial when the "
        "document has >= 2 points; distinct = distinct case descriptions")
ASSUMPTIONS = [
    "single-tree documents: ( [colour] (Axon|Dendrite) point+ [split] ... )",
    "every branch that carries a split has at least one point before it; the document's first "
    "branch is non-empty",
]
REQUIRED = ["documents_beyond_2_pow_20_characters", "conversions_with_custom_types_and_names", "parsed_documents_converted_twice", "unchanged_files_converted_again", "conversions_started_inside_a_conversion", "documents_converted", "rows_compared", "nested_splits", "empty_first_alt",
            "empty_later_alt", "empty_split", "points_after_split", "documents_with_repeated_points",
            "path_converted_again_after_rewrite", "with_comments", "with_colours",
            "deep_documents", "long_branches", "densely_commented_long_documents",
            "documents_with_zero_radius_points", "paths_spelled_through_links_or_relative",
            "documents_of_4096k_points",
            "prefixes_tried", "prefixes_rejected",
            "corruptions_tried", "corruptions_rejected", "entry_from_stream", "entry_convert",
            "entry_call", "entry_stream_file", "entry_stream_reader", "comment_invariance_checked", "tap_parser_raise"]
FLOOR = {"quick": 1500, "thorough": 30000}
SHARDS = {"quick": 8, "thorough": 16}
TIMEOUT = {"quick": 400, "thorough": 3000}


# -------------------------------------------------------------------------------- model
def gen_model(seed, shape="generic"):
    rng = np.random.default_rng(seed)
    cnt = [0]

    def num():
        k = int(rng.integers(0, 7))
        v = float(rng.integers(-4000, 4000)) / float(rng.choice([1, 4, 8, 100]))
        if k == 0:
            s = str(int(v))
        elif k == 1:
            s = repr(v)
        elif k == 2:
            s = "%.2f" % v
        elif k == 3:
            s = "%.3e" % v
        elif k == 4:
            s = ("+" if v >= 0 else "") + repr(v)
        elif k == 5:
            f = abs(v) - int(abs(v))
            s = ("-" if v < 0 else "") + (".%03d" % int(f * 1000))
        else:
            s = "%d." % int(v) + "0"
        return s

    last = [None]

    def point():
        cnt[0] += 1
        if last[0] is not None and rng.random() < 0.06:
            # a sample repeated at the same position (another radius): still its own point
            toks = last[0][:3] + ["%.2f" % (abs(float(rng.integers(1, 400))) / 16)]
            cnt.append("dup")
        else:
            toks = [str(cnt[0]) if rng.random() < 0.7 else "%d.0" % cnt[0], num(), num(),
                    "%.2f" % (abs(float(rng.integers(1, 400))) / 16)]
            if rng.random() < 0.04:  # a zero-diameter sample (marker / tapered-out tip)
                toks[3] = str(rng.choice(["0", "0.0", "0.00", ".0"]))
                cnt.append("zero")
        last[0] = toks
        return toks

    def branch(depth, allow_empty, max_pts=4, p_split=0.6, max_alts=4):
        npts = int(rng.integers(0 if allow_empty else 1, max_pts + 1))
        items = [("pt", point()) for _ in range(npts)]
        if npts > 0 and depth > 0 and rng.random() < p_split:
            nalt = int(rng.integers(1, max_alts + 1))
            empties = [bool(rng.random() < 0.25) for _ in range(nalt)]
            if all(empties) and rng.random() < 0.7:  # '( )' / '( | )' stay possible, rarely
                empties[int(rng.integers(0, nalt))] = False
            alts = [branch(depth - 1, allow_empty=False, max_pts=max_pts, p_split=p_split,
                           max_alts=max_alts) if not e else [] for e in empties]
            items.append(("split", alts))
            if rng.random() < 0.12:  # points after a nested split, same branch
                for _ in range(int(rng.integers(1, 3))):
                    items.append(("pt", point()))
                if depth > 1 and rng.random() < 0.3:
                    items.append(("split", [branch(depth - 2, False, max_pts, p_split, max_alts)
                                            for _ in range(2)]))
        return items

    label = str(rng.choice(["Axon", "Dendrite", "AXON", "dendrite", "axon", "DENDRITE",
                            "DeNdRiTe"]))
    if shape == "generic":
        top = branch(int(rng.integers(0, 5)), False)
    elif shape == "wide":
        top = branch(2, False, max_pts=3, p_split=0.9, max_alts=6)
    elif shape == "deep":
        # a ladder: depth d, each split has one alternative that continues and side twigs
        d = int(rng.choice([20, 60, 120, 200]))
        top = [("pt", point())]
        cur = top
        for _ in range(d):
            cont = [("pt", point())]
            side = [("pt", point())] if rng.random() < 0.7 else []
            alts = [cont, side] if rng.random() < 0.5 else [side, cont]
            if rng.random() < 0.2:
                alts.append([("pt", point())])
            cur.append(("split", alts))
            cur = cont
    elif shape.startswith("block"):
        # a total point count on / next to a multiple of 4096 ("block4096", "block8192", ...)
        total = int(shape[5:])
        m1 = int(rng.integers(1, 40))
        top = [("pt", point()) for _ in range(total - m1 - 1)]
        top.append(("split", [[("pt", point()) for _ in range(m1)], [("pt", point())]]))
    elif shape == "long":
        m = int(rng.choice([1200, 2500, 5000]))
        top = [("pt", point()) for _ in range(m)]
        top.append(("split", [[("pt", point()) for _ in range(int(rng.integers(1, 1500)))],
                              [("pt", point())]]))
    else:
        raise ValueError(shape)
    return {"label": label, "top": top, "npoints": cnt[0], "repeated_points": cnt.count("dup"),
            "zero_radius_points": cnt.count("zero")}


def expected_rows(model):
    typ = 2 if model["label"].upper() == "AXON" else 3
    rows = []
    stack = [(model["top"], 0, -1)]  # (items, position, parent)  iterative: documents are deep
    # an explicit machine instead of recursion
    out_parent = {}

    def walk(items, parent):
        work = [("branch", items, parent)]
        while work:
            kind, a, b = work.pop()
            if kind == "branch":
                cur = b
                pending = []
                for it in a:
                    if it[0] == "pt":
                        # flush pending splits first (document order)
                        pending.append(("pt", it[1]))
                    else:
                        pending.append(("split", it[1]))
                # process in document order with an explicit continuation
                work.append(("seq", pending, cur))
            else:  # seq: list of pending entries, current parent
                seq, cur = a, b
                i = 0
                while i < len(seq):
                    k, v = seq[i]
                    if k == "pt":
                        idx = len(rows)
                        rows.append((idx, typ, np.float32(float(v[0])), np.float32(float(v[1])),
                                     np.float32(float(v[2])), np.float32(float(v[3])), cur))
                        cur = idx
                        i += 1
                    else:
                        # alternatives are whole sub-documents that come before the rest of seq
                        rest = seq[i + 1:]
                        work.append(("seq", rest, cur))
                        for alt in reversed(v):
                            work.append(("branch", alt, cur))
                        break

    walk(model["top"], -1)
    return rows


def features(model):
    f = set()
    work = [(model["top"], 0)]
    maxd = 0
    while work:
        items, d = work.pop()
        maxd = max(maxd, d)
        seen_split = False
        for it in items:
            if it[0] == "split":
                seen_split = True
                if d > 0:
                    f.add("nested_splits")
                if not any(it[1]):
                    f.add("empty_split")
                for i, alt in enumerate(it[1]):
                    if not alt:
                        f.add("empty_first_alt" if i == 0 else "empty_later_alt")
                    work.append((alt, d + 1))
            elif seen_split:
                f.add("points_after_split")
    if maxd >= 20:
        f.add("deep_documents")
    return f


# ---------------------------------------------------------------------------- rendering
def render(model, rseed, *, comments=True, colours=True, dense=False):
    """Token list (each token a string; '\\n'-terminated comments are single tokens).
    ``dense``: almost every point carries a long annotation (an exported file with per-point
    notes), so that most of the text is comment text."""
    rng = np.random.default_rng(rseed)
    toks = []
    used = set()

    def maybe_comment(p):
        if comments and rng.random() < (max(p, 0.9) if dense else p):
            c = str(rng.choice(["a comment", "( | ) 1 2 3", "Root", "R-1-2", "",
                                "tab\there ; again", "tip a)", "(see note", ")))", "| ( (",
                                "page\x0cbreak (1 2 3 4)", "unit\x1fsep \x85 nel", "ls\u2028ps\u2029 x",
                                "vt\x0b (9 9 9 9)"]))
            if dense:
                c += " ; (7 7 7 1) removed, 1281, R-2 " * int(rng.integers(1, 4))
            toks.append("; " + c + "\n")
            used.add("comments")

    def maybe_colour(p):
        if colours and rng.random() < p:
            toks.extend(["(", str(rng.choice(["Color", "color", "COLOR"])),
                         str(rng.choice(["Red", "RGB", "Blue", "DarkYellow"])), ")"])
            used.add("colours")
            maybe_comment(0.3)

    if comments and rng.random() < 0.15:  # the usual header line(s) of an exported file
        toks.append("; V3 text file written for MicroBrightField products.\n")
        if rng.random() < 0.3:
            toks.append(";\n")
        used.add("comments")
    toks.append("(")
    maybe_comment(0.05)
    maybe_colour(0.35)
    toks.extend(["(", model["label"], ")"])
    maybe_comment(0.1)
    work = [("items", model["top"])]
    while work:
        kind, a = work.pop()
        if kind == "tok":
            toks.append(a)
            if a in (")", "|", "("):
                maybe_comment(0.06)
            continue
        if kind == "items":
            seq = []
            for it in a:
                if it[0] == "pt":
                    seq.append(("point", it[1]))
                else:
                    seq.append(("tok", "("))
                    for i, alt in enumerate(it[1]):
                        if i:
                            seq.append(("tok", "|"))
                        seq.append(("items", alt))
                    seq.append(("tok", ")"))
            work.extend(reversed(seq))
        else:  # point
            toks.extend(["(", *a, ")"])
            maybe_comment(0.12)
            maybe_colour(0.05)
    toks.append(")")
    return toks, used


def to_text(toks, rseed, upto=None):
    rng = np.random.default_rng(rseed + 7)
    out = []
    for t in (toks if upto is None else toks[:upto]):
        out.append(t)
        if not t.endswith("\n"):
            out.append(str(rng.choice([" ", "  ", "\n", "\n    ", "\t", " "])))
    return "".join(out)


# ------------------------------------------------------------------------------ monitors
_BUDGET = None
_PATH_SPELLINGS = [0]


def budget():
    global _BUDGET
    if _BUDGET is None:
        from swcgeom.transforms import neurolucida_asc as asc

        _BUDGET = probes.StepBudget([asc]).install()
    return _BUDGET


_PATH_REUSE = [0]


class RepeatDiffers(Exception):
    pass


_SIDE_DOC = "( (Dendrite) (10.25 20.5 30.75 1.5) (11.25 21.5 31.75 2.5) ( (12 22 32 3) | (13 23 33 4) ) )\n"
_SIDE_ROWS = [(0, 3, 10.25, 20.5, 30.75, 1.5, -1), (1, 3, 11.25, 21.5, 31.75, 2.5, 0),
              (2, 3, 12.0, 22.0, 32.0, 3.0, 1), (3, 3, 13.0, 23.0, 33.0, 4.0, 1)]
_REENTRANT = [0]


class _BusyStream(io.StringIO):
    """A text stream whose reads run user code that converts another document (a progress
    callback, a logging wrapper): the conversion in progress must not notice."""

    def __init__(self, text):
        super().__init__(text)
        self._k = 0
        self.side_problem = None

    def _side(self):
        self._k += 1
        if (self._k in (2, 3) or self._k % 37 == 5) and self._k < 2000:
            from swcgeom.transforms import NeurolucidaAscToSwc as _A

            t = _A.from_stream(io.StringIO(_SIDE_DOC))
            _REENTRANT[0] += 1
            if table_of(t) != _SIDE_ROWS and self.side_problem is None:
                self.side_problem = "a conversion started from inside another one returned a wrong table"

    def read(self, *a):
        self._side()
        return super().read(*a)

    def readline(self, *a):
        self._side()
        return super().readline(*a)


def convert(entry, text, tmp):
    from swcgeom.transforms import NeurolucidaAscToSwc

    lim = 5000 * len(text) + 10**6
    if os.environ.get("RV_ASCII_LOCALE") and entry != "from_stream" and not text.isascii():
        # (this shard runs with an ASCII preferred encoding: the converter opens files with the
        # preferred encoding, which is the caller's choice -- non-ASCII documents go by stream)
        entry = "from_stream"
    if entry == "from_stream" and len(text) % 4 == 1:
        def fn():
            st = _BusyStream(text)
            t = NeurolucidaAscToSwc.from_stream(st)
            if st.side_problem:
                raise RepeatDiffers(st.side_problem)
            return t
        lim += 4000 * 2000
    elif entry == "from_stream":
        fn = lambda: NeurolucidaAscToSwc.from_stream(io.StringIO(text))  # noqa: E731
    else:
        path = os.path.join(tmp, "doc.asc")
        if len(text) % 2:
            # the same path held another document a moment ago (files get re-exported): every
            # conversion reads what the file holds now
            from swcgeom.transforms import NeurolucidaAscToSwc as _A

            with open(path, "w", encoding="utf-8") as f:
                f.write("( (Axon) (1 2 3 0.5) (2 2 3 0.5) )\n")
            (_A.convert(path) if entry == "convert" else _A()(path))
            _PATH_REUSE[0] += 1
        with open(path, "w", encoding="utf-8") as f:
            f.write(text)
        sp = (len(text) // 2) % 5
        if sp == 1:
            # reached through '<link to a directory>/..': the operating system resolves the link
            # first (the parent of the link's target), a lexical clean-up of the string would
            # land next to the link instead, where another file of the same name lies
            os.makedirs(os.path.join(tmp, "store", "s1"), exist_ok=True)
            os.makedirs(os.path.join(tmp, "work"), exist_ok=True)
            real = os.path.join(tmp, "store", "doc.asc")
            os.replace(path, real)
            with open(os.path.join(tmp, "work", "doc.asc"), "w") as f:
                f.write("( (Dendrite) (9 9 9 9) (8 8 8 8) (7 7 7 7) )\n")
            link = os.path.join(tmp, "work", "current")
            if not os.path.islink(link):
                os.symlink(os.path.join(tmp, "store", "s1"), link)
            path = os.path.join(link, "..", "doc.asc")
            _PATH_SPELLINGS[0] += 1
        elif sp == 2:
            path = os.path.relpath(path, os.getcwd())
            _PATH_SPELLINGS[0] += 1
        elif sp == 3:
            path = os.path.join(tmp, ".", "") + os.sep + "doc.asc"
            _PATH_SPELLINGS[0] += 1
        if entry == "convert":
            fn = lambda: NeurolucidaAscToSwc.convert(path)  # noqa: E731
        elif entry == "stream_file":
            def fn():  # from_stream on a real file object (read in blocks by the io layer)
                with open(path, encoding="utf-8") as fh:
                    return NeurolucidaAscToSwc.from_stream(fh)
        elif entry == "stream_reader":
            def fn():  # ... and on the stream the library's own FileReader hands out
                from swcgeom.utils.file import FileReader

                src_ = path if len(text) % 3 else io.BytesIO(text.encode("utf-8"))
                with FileReader(src_) as fh:
                    return NeurolucidaAscToSwc.from_stream(fh)
        else:
            fn = lambda: NeurolucidaAscToSwc()(path)  # noqa: E731
    tree, _ = budget().run(lim, fn)
    if entry in ("convert", "call") and len(text) < 200000:
        # the same, unchanged file converted once more: the same table
        again, _ = budget().run(lim, fn)
        _SAME_FILE_AGAIN[0] += 1
        if table_of(again) != table_of(tree):
            raise RepeatDiffers(f"converting the same unchanged file a second time gave "
                                f"{again.number_of_nodes()} nodes, the first time "
                                f"{tree.number_of_nodes()}")
    return tree


_SAME_FILE_AGAIN = [0]


def table_of(tree):
    return list(zip(tree.id().tolist(), tree.type().tolist(), tree.x().tolist(), tree.y().tolist(),
                    tree.z().tolist(), tree.r().tolist(), tree.pid().tolist()))


def compare(ctx, case, rows, tree, what):
    got = table_of(tree)
    if len(got) != len(rows):
        return ctx.violation("node-count", f"{what}: {len(got)} nodes for {len(rows)} points", case)
    for g, r in zip(got, rows):
        r = (r[0], r[1], float(r[2]), float(r[3]), float(r[4]), float(r[5]), r[6])
        if g != r:
            field = ["id", "type", "x", "y", "z", "r", "parent"][next(
                i for i in range(7) if g[i] != r[i])]
            return ctx.violation("wrong-" + field, f"{what}: point #{r[0]} (x={r[2]}) converted to "
                                                   f"{g}, the document says {r}", case)
    ctx.count("rows_compared", len(rows))
    return None


def check_doc(ctx, case, tmp):
    model = gen_model(case["seed"], case["shape"])
    rows = expected_rows(model)
    toks, used = render(model, case["rseed"], dense=bool(case.get("dense")))
    text = to_text(toks, case["rseed"])
    if case.get("dense"):
        ctx.count("densely_commented_long_documents")
        ctx.count("characters_in_densely_commented_documents", len(text))
    entry = case["entry"]
    for f in features(model):
        ctx.count(f)
    if "comments" in used:
        ctx.count("with_comments")
    if "colours" in used:
        ctx.count("with_colours")
    if case["shape"] == "long":
        ctx.count("long_branches")
    if case["shape"].startswith("block"):
        ctx.count("documents_of_4096k_points" if model["npoints"] % 4096 == 0
                  else "documents_next_to_4096k_points")
    if model.get("repeated_points"):
        ctx.count("documents_with_repeated_points")
    if model.get("zero_radius_points"):
        ctx.count("documents_with_zero_radius_points")
    ctx.count("entry_" + entry)
    try:
        tree = convert(entry, text, tmp)
    except probes.StepBudgetExceeded:
        return ctx.violation("converter-hangs", "conversion did not finish within the step budget",
                             case)
    except RecursionError as e:
        return ctx.violation("recursion-limit", f"RecursionError on a document with "
                                                f"{model['npoints']} points: {str(e)[:80]}", case)
    except RepeatDiffers as e:
        return ctx.violation("conversion-depends-on-other-conversions", str(e), case)
    except Exception as e:
        return ctx.violation("well-formed-document-rejected",
                             f"{type(e).__name__}: {str(e)[:100]} <- {str(e.__cause__)[:200]} "
                             f"(features {sorted(features(model))}, decorations {sorted(used)})",
                             case)
    ctx.count("documents_converted")
    if compare(ctx, case, rows, tree, f"{entry}"):
        return
    if case["seed"] % 4 == 1 and model["npoints"] <= 600:
        # the same document converted with the caller's own type table and column names (the
        # parsed document handed to from_ast, directly and through a converter subclass that
        # fixes them): the same table, typed by that table's axon / dendrite codes
        from swcgeom.core.swc_utils import SWCNames, SWCTypes
        from swcgeom.transforms import NeurolucidaAscToSwc
        from swcgeom.transforms.neurolucida_asc import Parser

        ty = SWCTypes(axon=20, basal_dendrite=30)
        nm = SWCNames(id="n", type="kind", x="X", pid="parent")

        class LabConverter(NeurolucidaAscToSwc):
            @staticmethod
            def from_ast(ast, **kw):
                return NeurolucidaAscToSwc.from_ast(ast, types=ty, names=nm)

        # (the caller's parsed document is read, not consumed: it converts the same way twice)
        ast_ = Parser(io.StringIO(text)).parse()
        for turn in ("first", "second"):
            try:
                t_ = NeurolucidaAscToSwc.from_ast(ast_)
            except Exception as e:
                return ctx.violation("other-implementer", f"from_ast, {turn} conversion of one parsed "
                                                          f"document: {type(e).__name__}: "
                                                          f"{str(e)[:100]}", case)
            if compare(ctx, case, rows, t_, f"from_ast ({turn} conversion of one parsed document)"):
                return
        ctx.count("parsed_documents_converted_twice")
        try:
            direct = NeurolucidaAscToSwc.from_ast(Parser(io.StringIO(text)).parse(), types=ty,
                                                  names=nm)
            via_sub = LabConverter.from_stream(io.StringIO(text))
        except Exception as e:
            return ctx.violation("other-implementer", f"conversion with a custom type table and "
                                                      f"column names raised {type(e).__name__}: "
                                                      f"{str(e)[:120]}", case)
        ctx.count("conversions_with_custom_types_and_names")
        want = [(r_[0], {2: 20, 3: 30}.get(r_[1], r_[1]), *r_[2:]) for r_ in rows]
        for label, t_ in (("from_ast(types=, names=)", direct), ("a converter subclass", via_sub)):
            if tuple(t_.names) != tuple(nm):
                return ctx.violation("other-implementer", f"{label}: the tree carries column names "
                                                          f"{tuple(t_.names)}", case)
            if compare(ctx, case, want, t_, f"{label} with SWCTypes(axon=20, basal_dendrite=30)"):
                return
    if used and case.get("invariance", True) and model["npoints"] <= 400:
        # the same model without comments / colour markers must convert to the same table
        plain, _ = render(model, case["rseed"], comments=False, colours=False)
        try:
            t2 = convert("from_stream", to_text(plain, case["rseed"] + 1), tmp)
        except Exception as e:
            return ctx.violation("well-formed-document-rejected",
                                 f"plain rendering: {type(e).__name__}: {e.__cause__}", case)
        ctx.count("comment_invariance_checked")
        if table_of(t2) != table_of(tree):
            return ctx.violation("decoration-changes-result", "comments / colour markers changed "
                                                              "the converted table", case)


def check_megabyte(ctx, case, tmp):
    """A document of more than 2^20 characters (a finely traced axon): one long trunk with a few
    splits, numbers of varying width, read through from_stream and through a file."""
    from swcgeom.transforms import NeurolucidaAscToSwc

    rng = np.random.default_rng(case["seed"])
    n = case["points"]
    vals = np.round(rng.normal(0, 300, (n, 3)), 2)
    rad = np.round(rng.uniform(0.1, 3, n), 2)
    f32 = lambda v: float(np.float32(v))  # noqa: E731
    parts = ["; " + "x" * int(case["seed"] % 23) + "\n", "( (Color Red) (Axon)\n"]
    rows, last, opens = [], -1, 0
    split_at = {n // 3: 2, 2 * n // 3: 3}
    for i in range(n):
        parts.append(f"  ( {vals[i, 0]:.2f} {vals[i, 1]:.2f} {vals[i, 2]:.2f} {rad[i]:.2f} )\n")
        rows.append((len(rows), 2, f32(f"{vals[i, 0]:.2f}"), f32(f"{vals[i, 1]:.2f}"),
                     f32(f"{vals[i, 2]:.2f}"), f32(f"{rad[i]:.2f}"), last))
        last = len(rows) - 1
        if i in split_at and i < n - 1:
            # a split: short side branches first, the trunk goes on in the last alternative; the
            # first point of every alternative hangs on the last point before the split
            parts.append("  (\n")
            for _ in range(split_at[i] - 1):
                parts.append("    ( 1.5 2.5 3.5 0.5 )\n    |\n")
                rows.append((len(rows), 2, 1.5, 2.5, 3.5, 0.5, last))
            opens += 1
    parts.append("  )\n" * opens + ")\n")
    text = "".join(parts)
    ctx.count("documents_beyond_2_pow_20_characters")
    ctx.count("characters_in_megabyte_documents", len(text))
    if len(text) <= 2**20:
        return ctx.skip("generated document shorter than 2^20 characters")
    for entry in (("from_stream", "convert") if not case.get("entry") else (case["entry"],)):
        try:
            if entry == "from_stream":
                tree = NeurolucidaAscToSwc.from_stream(io.StringIO(text))
            else:
                path = os.path.join(tmp, "big.asc")
                with open(path, "w", encoding="utf-8") as f:
                    f.write(text)
                tree = NeurolucidaAscToSwc.convert(path)
        except Exception as e:
            return ctx.violation("well-formed-document-rejected",
                                 f"a well-formed document of {len(text)} characters ({len(rows)} "
                                 f"points) via {entry}: {type(e).__name__}: {str(e)[:80]} <- "
                                 f"{str(e.__cause__)[:160]}", case)
        if compare(ctx, case, rows, tree, f"{entry} (document of {len(text)} characters)"):
            return


def _must_reject(ctx, case, text, tmp, mech, what, counter):
    try:
        tree = convert("from_stream", text, tmp)
    except probes.StepBudgetExceeded:
        ctx.violation("converter-hangs", f"{what}: conversion did not finish within the step budget",
                      case)
        return
    except RecursionError:
        ctx.count(counter)  # loud enough
        return
    except Exception:
        ctx.count(counter)
        return
    ctx.violation(mech, f"{what}: converted to a tree of {tree.number_of_nodes()} nodes instead of "
                        f"being rejected", case)


def check_prefixes(ctx, case, tmp):
    model = gen_model(case["seed"], case["shape"])
    toks, _ = render(model, case["rseed"])
    n = len(toks)
    cuts = range(0, n) if n <= 400 else sorted(set(
        np.random.default_rng(case["rseed"]).integers(0, n, 120).tolist()) | {n - 1, n - 2, 1})
    for k in cuts:
        # a strict prefix that drops at least the final ')'
        text = to_text(toks, case["rseed"], upto=k)
        ctx.count("prefixes_tried")
        c = dict(case, cut_tokens=k)
        _must_reject(ctx, c, text, tmp, "truncated-document-accepted",
                     f"prefix of {k} of {n} tokens", "prefixes_rejected")
    if case.get("chars"):
        text = to_text(toks, case["rseed"])
        last = text.rstrip().rfind(")")
        if last <= 300:
            for k in range(0, last + 1):
                ctx.count("prefixes_tried")
                ctx.count("char_prefixes_tried")
                c = dict(case, cut_chars=k)
                _must_reject(ctx, c, text[:k], tmp, "truncated-document-accepted",
                             f"prefix of {k} of {len(text)} characters", "prefixes_rejected")


def check_corruptions(ctx, case, tmp):
    model = gen_model(case["seed"], case["shape"])
    toks, _ = render(model, case["rseed"], colours=False)
    # token index ranges of points: "(" n n n n ")"
    pts = [i for i in range(len(toks) - 5) if toks[i] == "(" and toks[i + 5] == ")"
           and all(_isnum(t) for t in toks[i + 1:i + 5])]
    rng = np.random.default_rng(case["rseed"] + 3)
    sites = pts if len(pts) <= 60 else [pts[int(j)] for j in rng.integers(0, len(pts), 40)]
    for i in sites:
        kind = str(rng.choice(["three", "five", "nonnumeric", "missing-close", "glued"]))
        t = list(toks)
        if kind == "three":
            del t[i + 1 + int(rng.integers(0, 4))]
        elif kind == "five":
            t.insert(i + 1 + int(rng.integers(0, 5)), "7.5")
        elif kind == "nonnumeric":
            t[i + 1 + int(rng.integers(0, 4))] = str(rng.choice(
                ["abc", "x", "1x", "0,75", "0.75um", "0.7.5", "1/2", "0x10", "NaN", "--1", "1e"]))
        elif kind == "missing-close":
            del t[i + 5]
        else:  # two numbers glued by a sign-less letter
            j = i + 1 + int(rng.integers(0, 3))
            t[j:j + 2] = [t[j] + "_" + t[j + 1]]
        ctx.count("corruptions_tried")
        ctx.count("corruption_" + kind)
        c = dict(case, site=i, corruption=kind)
        if kind == "missing-close" and t == toks:
            continue
        _must_reject(ctx, c, to_text(t, case["rseed"]), tmp, "malformed-point-accepted",
                     f"{kind} at point starting at token {i} ({' '.join(toks[i:i + 6])})",
                     "corruptions_rejected")


def _isnum(t):
    try:
        float(t)
        return True
    except ValueError:
        return False


def execute(ctx, case):
    tmp = tempfile.mkdtemp(prefix="rv-c15-")
    old = sys.getrecursionlimit()
    try:
        with warnings.catch_warnings():
            warnings.simplefilter("ignore")
            {"doc": check_doc, "prefix": check_prefixes, "corrupt": check_corruptions,
             "megabyte": check_megabyte}[case["kind"]](ctx, case, tmp)
    finally:
        sys.setrecursionlimit(old)
        shutil.rmtree(tmp, ignore_errors=True)


def run(ctx):
    from swcgeom.transforms import neurolucida_asc as asc

    rng = ctx.rng
    rt = probes.ReturnTap({"parse": asc.Parser.parse})
    with rt:
        for k in range(ctx.scale(2400, 48000)):
            u = rng.random()
            shape = "generic" if u < 0.75 else ("wide" if u < 0.9 else "deep")
            if k % 400 in (7, 207):
                shape = "long"
            case = {"kind": "doc", "seed": int(rng.integers(0, 2**31 - 1)), "shape": shape,
                    "rseed": int(rng.integers(0, 2**31 - 1)),
                    "entry": str(rng.choice(["from_stream", "from_stream", "convert", "call",
                                             "stream_file", "stream_reader"]))}
            if k % 400 == 207:
                case["dense"] = True
            if k % 400 == 107 and (ctx.shard % 2 == 0 or not ctx.quick):
                case["shape"] = shape = "block" + str([4096, 8192, 4095, 4097, 12288, 4096, 8191,
                                                       8193][(ctx.shard // 2 + k // 400) % 8])
            npts = gen_model(case["seed"], shape)["npoints"]
            ctx.case(case, nontrivial=npts >= 2, klass="doc/" + shape)
            execute(ctx, case)
        for k in range(ctx.scale(120, 2400)):
            shape = "generic" if rng.random() < 0.8 else "wide"
            case = {"kind": "prefix", "seed": int(rng.integers(0, 2**31 - 1)), "shape": shape,
                    "rseed": int(rng.integers(0, 2**31 - 1)), "chars": bool(rng.random() < 0.4)}
            ctx.case(case, klass="prefix")
            execute(ctx, case)
        for k in range(ctx.scale(160, 3200)):
            case = {"kind": "corrupt", "seed": int(rng.integers(0, 2**31 - 1)), "shape": "generic",
                    "rseed": int(rng.integers(0, 2**31 - 1))}
            ctx.case(case, klass="corrupt")
            execute(ctx, case)
        # one document of more than 2^20 characters per shard (each with another alignment of its
        # tokens against any block boundary)
        case = {"kind": "megabyte", "seed": int(rng.integers(0, 2**31 - 1)),
                "points": 42000 if ctx.quick else 130000}
        if ctx.quick:
            case["entry"] = ("from_stream", "convert")[ctx.shard % 2]
        ctx.case(case, klass="megabyte")
        execute(ctx, case)
    ctx.count("path_converted_again_after_rewrite", _PATH_REUSE[0])
    ctx.count("paths_spelled_through_links_or_relative", _PATH_SPELLINGS[0])
    ctx.count("unchanged_files_converted_again", _SAME_FILE_AGAIN[0])
    ctx.count("conversions_started_inside_a_conversion", _REENTRANT[0])
    ctx.count("tap_parser_raise", rt.raises["parse"])
    ctx.count("tap_parser_return", rt.returns["parse"])


def replay(ctx, case):
    ctx.case(case)
    execute(ctx, case)
