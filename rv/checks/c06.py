"""C06 — subtree extraction and pruning keep exactly the specified nodes.

Monitor: post-condition per extraction / cut call.  The oracle computes the survivor set from
children lists only (descendant sets, removal closure, the documented cut rules); unique node
tags then decide "survivors keep all attributes and their parent relation" and the reported
new->old id mapping as dictionary comparisons.
"""

from __future__ import annotations

import itertools
import warnings

import numpy as np

from rv import probes, contracts
from rv.gen import trees as G
from rv.oracles import topo

PROPERTY = "C06"
LEVEL = "exploration"
TECHNIQUE = ("runtime monitoring: post-condition on every subtree/cut call against a children-list "
             "reference model (descendant closure, threaded cut-callback values, type / furcation-"
             "order / short-tip rules); survivors, attributes, parents and id mapping compared via "
             "unique node tags; exhaustive removal subsets on small trees")
LEVEL_TEXT = ("Exploration with exhaustive pockets: every (tree, node) pair and, for trees up to 9 "
              "nodes, every removal subset of the generated trees is executed through the real "
              "functions and compared with the reference model; larger trees and the rule-based "
              "cuts are sampled (thresholds on / just below / just above actual branch lengths)."
              "Cut transform instances are first applied to a decoy tree (no state may carry over)."
              " Mapping containers are handed over fresh and re-used (still holding an earlier, larger result)."
              " Generated trees come in several representations of the same values (strided, other dtypes / lists, one array as two columns, read-only where the harness never writes) and half of them were queried, a third put through aborted operations, before use. Cut transforms are also re-used after a call that the caller's callback aborted."
              " Operations on trees the library derived from used ones; threshold 0 against zero-length tip branches and thresholds ulps below exact lengths."
              " Neurite generators consumed one by one with extractions in the loop body; the C03 contract set (incl. re-verification of earlier results) is active."
              " Twins under custom column names; a 64-bit label column; the older to_sub_tree entry point."
              " cut_tree callbacks keep the node handles they are given and read them after the call.")
LEVEL_NOTE = ("Encodes my reading of the documented cut rules (DESIGN.md C06); near-threshold "
              "tip-branch lengths (within float32 rounding of the threshold) are classified "
              "inconclusive, exact ties are decided on integer-length geometry.")
RULE = ("cases = (tree recipe, operation, arguments) over get_subtree, Node.subtree, to_subtree, "
        "cut_tree(enter|leave), CutByType/CutAxonTree/CutDendriteTree, CutByFurcationOrder, "
        "CutShortTipBranch, get_neurites, get_dendrites; non-trivial when the result differs from "
        "the input and is not a single node; distinct = distinct (recipe, op, args)")
ASSUMPTIONS = [
    "inputs are well-formed trees (id == position, root 0), any numbering",
    "the root is never requested to be removed (an empty result is not a tree)",
    "order of survivors in the result is free (compared through tags)",
]
REQUIRED = ["op_get_subtree", "op_node_subtree", "op_to_subtree", "op_cut_enter", "op_cut_leave",
            "op_cut_type", "op_cut_order", "op_cut_tip", "op_neurites", "op_dendrites",
            "neurites_consumed_with_extractions_in_between", "op_to_sub_tree_older_name",
            "operations_under_custom_column_names", "trees_with_64_bit_labels",
            "callback_nodes_kept_and_read_later",
            "transform_instance_reused", "numpy_scalar_node_ids", "removals_as_iterator_or_set",
            "mappings_checked", "mapping_container_reused", "transform_reused_after_aborted_call",
            "zero_length_tip_branches_at_threshold_zero", "trees_derived_by_the_library_from_a_used_tree", "tip_exact_threshold_cases", "exhaustive_subsets",
            "tap_to_sub_topology", "tap_propagate_removal", "tap_get_subtree_impl"]
FLOOR = {"quick": 2500, "thorough": 300000}
SHARDS = {"quick": 8, "thorough": 16}

ATTRS = ["type", "x", "y", "z", "r"]


def _compare(ctx, case, spec, out, survivors, new_root_tag, what, mapping=None, mapping_kind=None):
    """Compare a result tree with the oracle's survivor set (positions in the input)."""
    ids, pid = out.id(), out.pid()
    wf = topo.well_formed(ids, pid)
    if wf:
        return ctx.violation("malformed-result", f"{what}: {wf}", case)
    if "tag" not in out.ndata:
        return ctx.violation("column-lost", f"{what}: extra column 'tag' missing", case)
    tags_in, tags_out = spec["tag"], out.ndata["tag"]
    exp = sorted(int(tags_in[i]) for i in survivors)
    got = sorted(int(t) for t in tags_out)
    if exp != got:
        extra = sorted(set(got) - set(exp))[:6]
        miss = sorted(set(exp) - set(got))[:6]
        return ctx.violation("wrong-survivors",
                             f"{what}: survivors differ; unexpected tags {extra}, missing {miss} "
                             f"(expected {len(exp)} nodes, got {len(got)})", case)
    pos_in = {int(t): i for i, t in enumerate(tags_in)}
    idx = np.array([pos_in[int(t)] for t in tags_out], dtype=np.int64)
    for k, v in spec.items():
        if k == "pid":
            continue
        if k not in out.ndata:
            return ctx.violation("column-lost", f"{what}: column {k!r} missing", case)
        if not np.array_equal(np.asarray(v)[idx], out.ndata[k]):
            j = int(np.nonzero(np.asarray(v)[idx] != out.ndata[k])[0][0])
            return ctx.violation("attribute-changed",
                                 f"{what}: {k} of node tag {int(tags_out[j])} is "
                                 f"{out.ndata[k][j]!r}, was {np.asarray(v)[idx][j]!r}", case)
    # parent relation through tags
    for j in range(len(pid)):
        t = int(tags_out[j])
        want = None if t == new_root_tag else int(tags_in[spec["pid"][pos_in[t]]])
        have = None if pid[j] < 0 else int(tags_out[pid[j]])
        if want != have:
            return ctx.violation("parent-changed",
                                 f"{what}: parent of node tag {t} is tag {have}, expected {want}",
                                 case)
    if int(tags_out[0]) != new_root_tag:
        return ctx.violation("wrong-root", f"{what}: node 0 has tag {int(tags_out[0])}, expected "
                                           f"root tag {new_root_tag}", case)
    if mapping is not None:
        ctx.count("mappings_checked")
        if mapping_kind == "dict":
            if sorted(mapping.keys()) != list(range(len(pid))):
                return ctx.violation("mapping-wrong", f"{what}: dict mapping keys are not the new "
                                                      f"ids", case)
            m = [mapping[j] for j in range(len(pid))]
        else:
            m = list(mapping)
            if len(m) != len(pid):
                return ctx.violation("mapping-wrong", f"{what}: mapping has {len(m)} entries for "
                                                      f"{len(pid)} nodes", case)
        for j, old in enumerate(m):
            if not (0 <= int(old) < len(tags_in)) or int(tags_in[int(old)]) != int(tags_out[j]):
                return ctx.violation("mapping-wrong",
                                     f"{what}: mapping[{j}] = {old} is not the old id of that node",
                                     case)
    return None


def _closure(ch, removed):
    gone = set()
    for r in removed:
        if r not in gone:
            gone.update(topo.descendants(ch, r))
    return gone


def _mapping_container(ctx, mk, n, salt):
    """The caller's container for the new->old mapping: fresh, or (every other time) one that was
    used before and still holds the entries of an earlier, larger result."""
    if mk not in ("list", "dict"):
        return None
    reused = salt % 2 == 1
    if reused:
        ctx.count("mapping_container_reused")
    if mk == "list":
        return [10**6 + j for j in range(n + 3)] if reused else []
    return {j: 10**6 + j for j in range(n + 3)} if reused else {}


def _as_index(ctx, v, salt):
    """The same node id as a Python int or a numpy integer scalar (callers use both)."""
    k = salt % 4
    if k:
        ctx.count("numpy_scalar_node_ids")
    return [int(v), np.int32(v), np.int64(v), np.intp(v)][k]


# ------------------------------------------------------------------ operations
def _op_subtree(ctx, case, spec, tree, node_api):
    from swcgeom.core import get_subtree

    v = case["node"]
    vv = _as_index(ctx, v, case.get("tree", {}).get("seed", 0) + v)  # int, np.int32, np.int64 ...
    ch = topo.children_lists(spec["pid"])
    mk = case.get("mapping", "list")
    m = _mapping_container(ctx, mk, len(spec["pid"]), v)
    if node_api:
        nd = tree.node(vv) if (v % 3) else tree[v - len(spec["pid"])]  # also from the end
        out = nd.subtree(out_mapping=m) if m is not None else nd.subtree()
        ctx.count("op_node_subtree")
    else:
        out = get_subtree(tree, vv, out_mapping=m) if m is not None else get_subtree(tree, vv)
        ctx.count("op_get_subtree")
    _compare(ctx, case, spec, out, topo.descendants(ch, v), int(spec["tag"][v]),
             "Node.subtree" if node_api else "get_subtree", m, mk if m is not None else None)


def _op_to_subtree(ctx, case, spec, tree):
    from swcgeom.core import to_subtree

    ch = topo.children_lists(spec["pid"])
    rem = case["removals"]
    gone = _closure(ch, rem)
    mk = case.get("mapping", "list")
    m = _mapping_container(ctx, mk, len(spec["pid"]), len(rem))
    form = case.get("as", "list")
    if form in ("generator", "chain", "set"):
        ctx.count("removals_as_iterator_or_set")
    # removals is documented as an iterable: lists, arrays, sets and one-shot iterators alike
    arg = {"list": lambda: rem, "array": lambda: np.array(rem, dtype=np.int64),
           "generator": lambda: (int(x) for x in rem),
           "chain": lambda: __import__("itertools").chain(rem[:1], rem[1:]),
           "set": lambda: set(rem)}[form]()
    surv = [i for i in range(len(spec["pid"])) if i not in gone]
    if case.get("older"):
        # the older entry point the library still exports: the caller marks the nodes in a copy of
        # the id column, gets the tree and an {old id: new id} dictionary
        import warnings as _w

        from swcgeom.core import tree_utils
        from swcgeom.core.swc_utils import REMOVAL

        marked = np.array(tree.id())
        marked[[int(x) for x in rem]] = REMOVAL
        with _w.catch_warnings():
            _w.simplefilter("ignore")
            out, old2new = tree_utils.to_sub_tree(tree, (marked, np.array(tree.pid())))
        ctx.count("op_to_sub_tree_older_name")
        inv = [None] * out.number_of_nodes()
        for o_, n_ in old2new.items():
            if not (0 <= int(n_) < len(inv)) or inv[int(n_)] is not None:
                return ctx.violation("mapping-wrong", f"to_sub_tree: the id dictionary maps two old "
                                                      f"ids to new id {n_} / out of range", case)
            inv[int(n_)] = int(o_)
        if any(v is None for v in inv):
            return ctx.violation("mapping-wrong", "to_sub_tree: the id dictionary does not cover "
                                                  "every new id", case)
        return _compare(ctx, case, spec, out, surv, int(spec["tag"][0]), "to_sub_tree", inv, "list")
    out = to_subtree(tree, arg, out_mapping=m) if m is not None else to_subtree(tree, arg)
    ctx.count("op_to_subtree")
    _compare(ctx, case, spec, out, surv, int(spec["tag"][0]), "to_subtree", m,
             mk if m is not None else None)


def _h(*xs):
    h = 1469598103934665603
    for x in xs:
        h = ((h ^ (int(x) & 0xFFFFFFFF)) * 1099511628211) % (1 << 64)
    return h


def _op_cut_enter(ctx, case, spec, tree):
    from swcgeom.core import cut_tree

    salt, mod = case["salt"], case["mod"]
    pid, tags = spec["pid"], spec["tag"]
    ch = topo.children_lists(pid)

    def pred(tag, depth):  # value threaded from the parent: depth
        return tag != int(tags[0]) and _h(tag, depth, salt) % mod == 0

    calls, handles = [], []

    def enter(n, pv):
        d = 0 if pv is None else pv + 1
        t = int(n["tag"])
        calls.append((t, pv))
        handles.append((n, t))  # (a callback may keep the node it is given, e.g. to compare later)
        return d, pred(t, d)

    out = cut_tree(tree, enter=enter)
    ctx.count("op_cut_enter")
    for n_, t_ in handles:
        if int(n_["tag"]) != t_:
            return ctx.violation("callback-node-changed",
                                 f"cut_tree(enter): the node handed to the callback for node tag "
                                 f"{t_} later reads as node tag {int(n_['tag'])}", case)
    ctx.count("callback_nodes_kept_and_read_later", len(handles))
    depth = topo.depth_of(pid)
    flagged = [i for i in range(len(pid)) if pred(int(tags[i]), int(depth[i]))]
    gone = _closure(ch, flagged)
    surv = [i for i in range(len(pid)) if i not in gone]
    if _compare(ctx, case, spec, out, surv, int(tags[0]), "cut_tree(enter)") is None:
        # the callback must have been fed the parent's value for every surviving node
        seen = dict(calls)
        for i in surv:
            want = None if pid[i] < 0 else int(depth[pid[i]])
            if seen.get(int(tags[i]), "absent") != want:
                ctx.violation("enter-value-threading",
                              f"cut_tree(enter): node tag {int(tags[i])} received "
                              f"{seen.get(int(tags[i]), 'no call')!r}, expected {want!r}", case)
                break


def _op_cut_leave(ctx, case, spec, tree):
    from swcgeom.core import cut_tree

    salt, mod = case["salt"], case["mod"]
    pid, tags = spec["pid"], spec["tag"]
    ch = topo.children_lists(pid)
    n = len(pid)
    # value = size of the subtree (order-insensitive in the children's values)
    size = np.ones(n, dtype=np.int64)
    order = topo.descendants(ch, 0)
    for v in reversed(order):
        for c in ch[v]:
            size[v] += size[c]

    def pred(tag, sz):
        return tag != int(tags[0]) and _h(tag, sz, salt) % mod == 0

    bad = []

    def leave(nd, vals):
        s = 1 + sum(vals)
        t = int(nd["tag"])
        i = int(nd.id)
        if s != size[i] or len(vals) != len(ch[i]):
            bad.append((t, s, int(size[i])))
        return s, pred(t, s)

    out = cut_tree(tree, leave=leave)
    ctx.count("op_cut_leave")
    if bad:
        return ctx.violation("leave-value-threading",
                             f"cut_tree(leave): node tag {bad[0][0]} computed subtree size "
                             f"{bad[0][1]} from its children's values, expected {bad[0][2]}", case)
    flagged = [i for i in range(n) if pred(int(tags[i]), int(size[i]))]
    gone = _closure(ch, flagged)
    _compare(ctx, case, spec, out, [i for i in range(n) if i not in gone], int(tags[0]),
             "cut_tree(leave)")


def _warm_up(ctx, case, tr):
    """Apply the transform instance to a decoy tree first: an instance carries no state from one
    tree to the next (what it designated for an earlier tree must not be removed from a later one)."""
    if case.get("reuse") is None:
        return
    decoy = G.build(G.spec_from_recipe({"shape": "binary", "n": 25, "numbering": "sorted",
                                        "geom": case["tree"].get("geom", "growth"),
                                        "types": "random", "extras": 0, "seed": case["reuse"]}))
    tr(decoy)
    ctx.count("transform_instance_reused")


def _op_cut_type(ctx, case, spec, tree):
    from swcgeom.transforms import CutAxonTree, CutByType, CutDendriteTree

    t = case["type"]
    pid = spec["pid"]
    keep = set()
    for u in np.nonzero(spec["type"] == t)[0]:
        w = int(u)
        while w >= 0 and w not in keep:
            keep.add(w)
            w = int(pid[w])
    via = case.get("via", "type")
    tr = {"type": lambda: CutByType(t), "axon": CutAxonTree, "dendrite": CutDendriteTree}[via]()
    _warm_up(ctx, case, tr)
    out = tr(tree)
    ctx.count("op_cut_type")
    _compare(ctx, case, spec, out, sorted(keep), int(spec["tag"][0]), f"CutByType({t}) via {via}")


def _op_cut_order(ctx, case, spec, tree):
    from swcgeom.transforms import CutByFurcationOrder

    k = case["order"]
    pid = spec["pid"]
    ch = topo.children_lists(pid)
    lvl = np.zeros(len(pid), dtype=np.int64)
    for v in topo.descendants(ch, 0):  # parents are popped before their children
        for c in ch[v]:
            lvl[c] = lvl[v] + (1 if len(ch[c]) >= 2 else 0)
    tr = CutByFurcationOrder(k)
    _warm_up(ctx, case, tr)
    out = tr(tree)
    ctx.count("op_cut_order")
    _compare(ctx, case, spec, out, [i for i in range(len(pid)) if lvl[i] < k],
             int(spec["tag"][0]), f"CutByFurcationOrder({k})")


def tip_branches(spec):
    """[(length from the furcation, [f, c, ..., tip])] for every terminal branch hanging off a
    node with >= 2 children (float64 arithmetic on the float32 coordinates)."""
    pid = spec["pid"]
    ch = topo.children_lists(pid)
    xyz = np.stack([spec["x"], spec["y"], spec["z"]], axis=1).astype(np.float64)
    out = []
    for f in range(len(pid)):
        if len(ch[f]) < 2:
            continue
        for c in ch[f]:
            chain, L, w = [f, c], float(np.linalg.norm(xyz[c] - xyz[f])), c
            while len(ch[w]) == 1:
                nx = ch[w][0]
                L += float(np.linalg.norm(xyz[nx] - xyz[w]))
                chain.append(nx)
                w = nx
            if len(ch[w]) == 0:
                out.append((L, chain))
    return out


def _op_cut_tip(ctx, case, spec, tree):
    from swcgeom.transforms import CutShortTipBranch

    thre = case["thre"]
    cands = tip_branches(spec)
    exact = case["tree"].get("geom") == "axis"
    # (a branch of length exactly 0 -- repeated points -- is exactly 0 in any arithmetic: the
    # threshold 0 against it is decided, like the exact integer layouts)
    if not exact and any(abs(L - thre) <= 1e-4 * (1 + L) and not (L == 0.0 and thre == 0.0)
                         for L, _ in cands):
        ctx.skip("tip-branch length within float32 rounding of the threshold")
        return
    reported = []
    cb = (lambda br: reported.append(tuple(int(i) for i in br.origin_id()))) \
        if case.get("callback") else None
    tr = CutShortTipBranch(thre, callback=cb)
    if cb is not None and case.get("abort_first", True) and thre > 0:
        # an earlier use of this transform object that the caller's own callback stopped with an
        # exception (on another tree, which has one short terminal branch)
        from swcgeom.core import Tree

        class _Stop(Exception):
            pass

        def boom(br):
            raise _Stop()

        tr.callbacks[0] = boom
        t_ = float(thre)
        other = Tree(4, pid=np.array([-1, 0, 0, 2], dtype=np.int32),
                     x=np.array([0, t_ * 0.5, 0, 0], dtype=np.float32),
                     y=np.array([0, 0, t_ * 3, t_ * 6], dtype=np.float32),
                     tag=np.array([-1, -2, -3, -4], dtype=np.int32))
        try:
            tr(other)
        except _Stop:
            ctx.count("transform_reused_after_aborted_call")
        tr.callbacks[0] = cb
    _warm_up(ctx, case, tr)
    del reported[:]  # (branches reported for the decoy are not this tree's)
    out = tr(tree)
    ctx.count("op_cut_tip")
    if exact and any(L == thre for L, _ in cands):
        ctx.count("tip_exact_threshold_cases")
    if thre == 0.0 and any(L == 0.0 for L, _ in cands):
        ctx.count("zero_length_tip_branches_at_threshold_zero")
    cut = [chain for L, chain in cands if L <= thre]
    gone = set()
    for chain in cut:
        gone.update(chain[1:])
    n = len(spec["pid"])
    if _compare(ctx, case, spec, out, [i for i in range(n) if i not in gone],
                int(spec["tag"][0]), f"CutShortTipBranch({thre})") is None and cb is not None:
        if sorted(reported) != sorted(tuple(c) for c in cut):
            ctx.violation("tip-callback", f"CutShortTipBranch callback received {sorted(reported)[:4]}"
                                          f", expected {sorted(tuple(c) for c in cut)[:4]}", case)
    # the transform object is reusable: its callback list must be back to what it was
    tr = CutShortTipBranch(thre)
    tr(tree)
    if len(tr.callbacks) != 0:
        ctx.violation("tip-callback", "CutShortTipBranch left its internal callback installed", case)


def _op_neurites(ctx, case, spec, tree, dendrites):
    ch = topo.children_lists(spec["pid"])
    kids = ch[0]
    if dendrites:
        kids = [c for c in kids if int(spec["type"][c]) in (3, 4)]
    soma = int(spec["type"][0]) == 1
    tc = case.get("type_check", soma)
    with warnings.catch_warnings():
        warnings.simplefilter("ignore")
        try:
            gen = tree.get_dendrites(tc) if dendrites else tree.get_neurites(tc)
            if case.get("interleave"):
                # the neurites are consumed one by one while the loop body extracts subtrees itself
                # (of the neurite just yielded, of another tree) and a second generator over another
                # tree is advanced in between
                host = G.host_tree(len(kids) % 5, 9)
                other = iter(host.get_neurites(True))
                host_ch = topo.children_lists(np.array(host.pid()))
                outs = []
                ctx.count("neurites_consumed_with_extractions_in_between")
                for o in gen:
                    outs.append(o)
                    same = o.node(0).subtree()
                    if same.number_of_nodes() != o.number_of_nodes():
                        return ctx.violation("wrong-survivors",
                                             f"inside the loop over the neurites: subtree at the "
                                             f"root of a {o.number_of_nodes()}-node neurite has "
                                             f"{same.number_of_nodes()} nodes", case)
                    v = 1 + len(outs) % (host.number_of_nodes() - 1)
                    hs = host.node(v).subtree()
                    if hs.number_of_nodes() != len(topo.descendants(host_ch, v)):
                        return ctx.violation("wrong-survivors",
                                             f"inside the loop over the neurites: subtree at node "
                                             f"{v} of another tree has {hs.number_of_nodes()} nodes, "
                                             f"it has {len(topo.descendants(host_ch, v))}", case)
                    nxt = next(other, None)
                    if nxt is not None and nxt.number_of_nodes() not in [
                            len(topo.descendants(host_ch, c_)) for c_ in host_ch[0]]:
                        return ctx.violation("wrong-survivors",
                                             "two neurite generators (of two trees) advanced in "
                                             "turns: the second tree's neurite has the wrong node "
                                             "count", case)
            else:
                outs = list(gen)
        except ValueError:
            if tc and not soma:
                ctx.count("type_check_raised")
                return
            raise
    ctx.count("op_dendrites" if dendrites else "op_neurites")
    what = "get_dendrites" if dendrites else "get_neurites"
    if len(outs) != len(kids):
        return ctx.violation("wrong-survivors", f"{what}: {len(outs)} trees for {len(kids)} "
                                                f"qualifying children of the root", case)
    got = {int(o.ndata["tag"][0]): o for o in outs}
    for c in kids:
        o = got.get(int(spec["tag"][c]))
        if o is None:
            return ctx.violation("wrong-survivors", f"{what}: no tree rooted at child {c}", case)
        if _compare(ctx, case, spec, o, topo.descendants(ch, c), int(spec["tag"][c]), what):
            return


OPS = {
    "get_subtree": lambda c, k, s, t: _op_subtree(c, k, s, t, False),
    "node_subtree": lambda c, k, s, t: _op_subtree(c, k, s, t, True),
    "to_subtree": _op_to_subtree,
    "cut_enter": _op_cut_enter,
    "cut_leave": _op_cut_leave,
    "cut_type": _op_cut_type,
    "cut_order": _op_cut_order,
    "cut_tip": _op_cut_tip,
    "neurites": lambda c, k, s, t: _op_neurites(c, k, s, t, False),
    "dendrites": lambda c, k, s, t: _op_neurites(c, k, s, t, True),
}


def _plain_op(case):
    """The case's operation as a plain call (no monitors), for the custom-names comparison."""
    from swcgeom import transforms as T_
    from swcgeom.core import get_subtree, to_subtree

    op = case["op"]
    if op == "get_subtree":
        return lambda t: get_subtree(t, case["node"])
    if op == "node_subtree":
        return lambda t: t.node(case["node"]).subtree()
    if op == "to_subtree" and not case.get("older"):
        return lambda t: to_subtree(t, list(case["removals"]))
    if op == "cut_type":
        return lambda t: T_.CutByType(case["type"])(t)
    if op == "cut_order":
        return lambda t: T_.CutByFurcationOrder(case["order"])(t)
    if op == "cut_tip":
        return lambda t: T_.CutShortTipBranch(case["thre"])(t)
    return None


def execute(ctx, case):
    spec = G.spec_from_recipe(case["tree"])
    tree = G.build(spec, frozen_ok=True)
    if case.get("derived"):
        # the operation is applied to a tree the library itself derived (sorted, re-rooted, grown
        # by a merged node) from a tree that had been in use; the oracle reads that tree's columns
        tree, spec = G.derive(tree, spec, int(case["derived"]))
    try:
        with warnings.catch_warnings():
            warnings.simplefilter("ignore")
            OPS[case["op"]](ctx, case, spec, tree)
            plain = _plain_op(case)
            if plain is not None and type(tree).__name__ == "Tree" and \
                    len(spec["pid"]) % 3 == 0 and len(spec["pid"]) <= 400:
                # the same tree held under custom column names (`names=`): the same result tree
                r = G.same_under_renaming(plain, tree, level=len(spec["pid"]) // 3 % 2)
                ctx.count("operations_under_custom_column_names")
                if r:
                    ctx.violation("custom-column-names", f"{case['op']}: {r}", case)
                r = G.same_under_ambient(lambda: plain(tree), pick=len(spec["pid"]) + len(case["op"]))
                if r:
                    ctx.violation("ambient-state", f"{case['op']}: {r}", case)
    except Exception as e:
        ctx.violation("op-raised", f"{case['op']}: {type(e).__name__}: {str(e)[:300]}", case)


def _nontrivial(case, n):
    return n >= 3


def run(ctx):
    from swcgeom.core.swc_utils import subtree as st
    from swcgeom.core import tree_utils_impl as tui

    contracts.install()
    tap = probes.CallTap({"to_sub_topology": st.to_sub_topology,
                          "propagate_removal": st.propagate_removal,
                          "get_subtree_impl": tui.get_subtree_impl})
    with tap:
        _workload(ctx)
    for k, v in tap.counts.items():
        ctx.count("tap_" + k, v)
    contracts.report(ctx, "C06")


def _workload(ctx):
    rng = ctx.rng
    n_trees = ctx.scale(330, 42000)
    for k in range(n_trees):
        rc = G.random_recipe(rng, max_n=G.size_ladder(ctx, k, 9, 40, 250),
                             extras=int(rng.integers(0, 3)))
        if k % 5 == 0:
            rc["geom"] = "axis"
        if k % 4 == 1:
            rc["big_extra"] = True
            ctx.count("trees_with_64_bit_labels")
        spec = G.spec_from_recipe(rc)
        n = len(spec["pid"])
        ch = topo.children_lists(spec["pid"])

        def go(case):
            case = {"tree": rc, **case}
            if case["op"] in ("cut_type", "cut_order", "cut_tip") and rng.random() < 0.5:
                case["reuse"] = int(rng.integers(0, 2**31 - 1))
            if rng.random() < 0.2:
                case["derived"] = int(rng.integers(1, 2**31 - 1))
            ctx.case(case, nontrivial=n >= 3, klass=f"{case['op']}/{rc['shape']}")
            execute(ctx, case)

        # subtree at every node (n <= 40) or sampled
        nodes = range(n) if n <= 40 and k % 3 == 0 else sorted(
            set(rng.integers(0, n, 4).tolist()))
        for v in nodes:
            go({"op": ("get_subtree", "node_subtree")[int(rng.integers(0, 2))], "node": int(v),
                "mapping": str(rng.choice(["list", "dict", "none"]))})
        # removal sets
        if n >= 2:
            if n <= 9 and k % 4 == 0:  # all subsets of non-root nodes
                for r in range(0, n):
                    for sub in itertools.combinations(range(1, n), r):
                        go({"op": "to_subtree", "removals": list(sub), "mapping": "list"})
                        ctx.count("exhaustive_subsets")
            for _ in range(3):
                m = int(rng.integers(0, min(n - 1, 6) + 1))
                rem = sorted(rng.choice(np.arange(1, n), size=m, replace=False).tolist())
                if rng.random() < 0.3 and rem:
                    rem = rem + [rem[0]]  # duplicates are harmless
                go({"op": "to_subtree", "removals": [int(x) for x in rem],
                    "mapping": str(rng.choice(["list", "dict", "none"])),
                    "as": str(rng.choice(["list", "array", "generator", "chain", "set"]))})
                if rng.random() < 0.3:
                    go({"op": "to_subtree", "removals": sorted(set(int(x) for x in rem)),
                        "older": True})
        for _ in range(2):
            go({"op": "cut_enter", "salt": int(rng.integers(0, 10**6)),
                "mod": int(rng.choice([2, 3, 5, 9]))})
            go({"op": "cut_leave", "salt": int(rng.integers(0, 10**6)),
                "mod": int(rng.choice([2, 3, 5, 9]))})
        present = sorted(set(spec["type"].tolist()))
        go({"op": "cut_type", "type": int(rng.choice(present)), "via": "type"})
        if 2 in present:
            go({"op": "cut_type", "type": 2, "via": "axon"})
        if 3 in present:
            go({"op": "cut_type", "type": 3, "via": "dendrite"})
        for order in sorted(set([1, int(rng.integers(1, 5))])):
            go({"op": "cut_order", "order": order})
        cands = tip_branches(spec)
        if cands:
            Ls = sorted(set(L for L, _ in cands))
            L = float(Ls[int(rng.integers(0, len(Ls)))])
            thr = [L * 0.5, L * 1.5 + 0.1, 1e9, 0.0]
            if rc["geom"] == "axis":
                thr += [L, L - 0.5, L + 0.5]  # exact tie and both sides
                # ... and a hair below the (exactly representable) length: the branch is longer
                # than the threshold, by ulps, and stays
                thr += [float(np.nextafter(L, 0.0)), L * (1 - 5e-7), L * (1 + 5e-7)]
            else:
                thr += [L + 0.01 * (1 + L), L - 0.01 * (1 + L)]
            for t in thr:
                go({"op": "cut_tip", "thre": float(t), "callback": bool(rng.random() < 0.5)})
        else:
            go({"op": "cut_tip", "thre": 5.0, "callback": True})
        go({"op": "neurites", "interleave": bool(k % 2)} if k % 2 else {"op": "neurites"})
        go({"op": "dendrites", "interleave": True} if k % 3 == 0 else {"op": "dendrites"})
    # deep chain: no per-node recursion in extraction
    if ctx.shard == 0:
        n_deep = 20000 if ctx.quick else 100000
        rc = {"shape": "chain", "n": n_deep, "numbering": "sorted", "geom": "int",
              "types": "soma", "extras": 0, "seed": 7}
        for case in ({"op": "get_subtree", "node": n_deep // 2, "mapping": "list"},
                     {"op": "to_subtree", "removals": [n_deep - 10], "mapping": "none"}):
            case = {"tree": rc, **case}
            ctx.case(case, klass="deep-chain")
            execute(ctx, case)


def replay(ctx, case):
    ctx.case(case)
    execute(ctx, case)
