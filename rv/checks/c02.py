"""C02 — SWC reading keeps every data row, in order, or fails loudly.

Monitor: a client-boundary recorder of ``(text, options) -> table | exception`` around
``read_swc`` / ``Tree.from_swc`` / ``Population[i]``, plus source-free ``sys.monitoring`` taps on
``parse_swc`` (RAISE events: how many injected faults reached the raise) and on
``FileReader.__exit__`` (was an exception pending, and what did ``__exit__`` return: a truthy
return with a pending exception is exactly the silent-truncation mechanism).

Oracle: the generator builds the table first (Python ints / ``float(token)``) and only then
renders it to text with random spellings, so the expected frame never depends on the reader.
Fault-injected texts (a line that is neither row, comment nor blank; undecodable bytes) must
raise; sorted reads are compared through unique tags.
"""

from __future__ import annotations

import io
import os
import shutil
import tempfile
import warnings

import numpy as np

from rv import probes

PROPERTY = "C02"
LEVEL = "exploration"
TECHNIQUE = ("runtime monitoring: client-boundary result-or-exception recorder around read_swc / "
             "Tree.from_swc / Population[i] over generated texts and fault-injected texts (every "
             "line position of small texts); table built before the text is rendered; "
             "sys.monitoring RAISE tap on parse_swc and return tap on FileReader.__exit__; "
             "tag-based isomorphism oracle for sorted reads")
LEVEL_TEXT = ("Exploration: thousands of generated SWC texts (line grammar variants: blanks, tabs, "
              "CRLF, blank and comment lines, nine float spellings, id bases, 0-2 trailing fields of "
              "which 0-2 requested) x options (reset_index, extra_cols, encoding, source kind, entry "
              "point) are read and compared field by field with the table they were rendered from; "
              "fault injection replaces / inserts a malformed line at every line position of small "
              "texts (sampled positions of large ones, incl. beyond the 8 KiB read buffer) or plants "
              "undecodable bytes, and demands an exception; shuffled arbitrary-id tables are read "
              "with sort_nodes=True. Held = held on those executions."
              " Option flags are also spelled as numpy bools and ints."
              " Texts with the writer's own column banner; data-row counts on / next to multiples of 4096 / 8192; populations with a member holding undecodable bytes, opened without naming an encoding."
              " Separators incl. form feed and the ASCII / Unicode line-boundary characters; one-shot iterables for multi-valued arguments; positional call forms; malformed rows that carry a trailing remark."
              " A second population over the same directory read after the first one's trees were edited in place."
              " Populations built from the caller's own list of names, which is reversed and emptied afterwards.")
LEVEL_NOTE = ("Malformed classes injected: a row with 1-6 fields, a row with a token containing a "
              "letter, free text, a row lacking a requested extra column, invalid UTF-8 bytes. Rows "
              "with negative ids, inf/nan spelled numerically, or ignored trailing fields in exponent "
              "spelling are not injected (the statement does not clearly classify them). Any "
              "exception type counts as failing loudly.")
RULE = ("cases = (seed, kind in {grammar, fault, bytes, sort, population}); each seed draws a table, "
        "its rendering and the read options; fault cases additionally draw fault lines and their "
        "positions (all positions for texts <= 40 lines, one case per position); non-trivial when "
        "the table has >= 2 rows; distinct = distinct (kind, seed, position) triples")
ASSUMPTIONS = [
    "grammatical texts: ids non-negative integers, types non-negative integers, finite floats",
    "comments are compared modulo trailing blanks / carriage return",
    "for reset_index=True the root is the first row (the documented layout)",
]
REQUIRED = ["second_population_reads_after_edits", "callers_name_list_edited_after_construction", "grammar_reads", "rows_compared", "comments_compared", "ignored_field_warnings",
            "texts_with_the_writers_column_banner", "texts_with_block_sized_row_counts",
            "population_files_with_undecodable_bytes", "separators_other_than_blank_and_tab",
            "extra_cols_as_one_shot_iterables", "options_given_by_position",
            "extra_cols_compared", "faults_injected", "faults_raised", "bytes_faults_injected",
            "sorted_reads", "population_reads", "src_text", "src_bytes", "src_path",
            "entry_read_swc", "entry_from_swc", "ids_beyond_2_53", "lone_cr_line_ends", "root_without_smallest_id",
            "tap_parse_swc_raise", "tap_exit_with_exception",
            "fault_beyond_buffer"]
FLOOR = {"quick": 1500, "thorough": 30000}
SHARDS = {"quick": 8, "thorough": 16}
TIMEOUT = {"quick": 240, "thorough": 3000}

BAD_TOKENS = ["abc", "x1", "1x", "NaN", "0x1F", "1e", "e5", "1.5f", "one", "#"]
FREE_TEXT = ["foo bar", "END", "@@@ %%%", "id type x y z r pid", "1;1;0;0;0;1;-1", "<swc>"]


# ------------------------------------------------------------------------- document model
def _spell(rng, v: float):
    """(token, value): a spelling accepted by the documented float grammar."""
    kind = int(rng.integers(0, 9))
    if kind == 0:
        s = repr(float(v))
        if "e" in s and "." not in s.split("e")[0]:
            s = "%.6f" % v
        if "inf" in s or "nan" in s:
            s = "0.0"
    elif kind == 1:
        s = "%d" % int(v)
    elif kind == 2:
        s = "%d." % int(v)
    elif kind == 3:
        s = "%.3e" % v
    elif kind == 4:
        s = "%.4E" % v
    elif kind == 5:
        f = abs(v) - int(abs(v))
        s = ("-" if v < 0 else "") + (".%04d" % int(f * 10000))
    elif kind == 6:
        s = "%+.5f" % v
    elif kind == 7:
        s = "%d.E%+d" % (int(v) % 100, int(rng.integers(-3, 4)))
    else:
        s = "00%.2f" % abs(v)
    if rng.random() < 0.15 and not s.startswith(("-", "+")):
        s = "+" + s
    return s, float(s)


_EXOTIC_WS = [0]


def _ws(rng):
    if rng.random() < 0.02:
        # other characters the line grammar's "whitespace" covers: form feed, vertical tab and the
        # ASCII separators (they do not end a line of a text file)
        _EXOTIC_WS[0] += 1
        return str(rng.choice(["\x0c", " \x0b", "\x1c ", "\x1f", "\x1d\t"]))
    return str(rng.choice([" ", "  ", "\t", " \t ", "     "]))


def gen_doc(seed: int, *, arbitrary_ids: bool = False, max_rows: int = 40, charset="utf-8",
            request_all: bool = True, big_ids: bool = False, lone_cr: bool = False,
            root_not_min: bool = False, exact_rows: int = 0):
    """Draw a table and a rendering of it. Returns a dict with rows / lines / comments."""
    rng = np.random.default_rng(seed)
    u = rng.random()
    n = int(rng.integers(1, 8)) if u < 0.3 else int(rng.integers(2, max_rows + 1))
    if exact_rows:
        n = int(exact_rows)
    pid = [-1] + [int(rng.integers(0, i)) for i in range(1, n)]
    if arbitrary_ids:
        ids = rng.choice(np.arange(0, 20 * n + 50), size=n, replace=False).tolist()
        if big_ids:  # ids that no longer fit a double exactly
            ids = [int(v) + 2**53 + 1 for v in ids]
    else:
        base = int(rng.choice([0, 1, 1, 5, 1000]))
        if big_ids:
            base = int(rng.choice([2**53 + 1, 2**60 + 7]))
        ids = [base + i for i in range(n)]
        if root_not_min and n > 1:
            # the root (first row) carries an id in the middle of the range; no node gets the id
            # just below it (re-basing would map that id onto -1, the format's own root marker)
            R = base + n + 5
            ids = [R] + [base + i if base + i < R - 1 else base + i + 7 for i in range(1, n)]
    nextra = int(rng.integers(0, 3))
    ask = int(rng.integers(0, nextra + 1))
    if not request_all:
        ask = 0  # (ignored fields are rendered in plain decimal spelling only)
    rows, row_lines = [], []
    for i in range(n):
        mag = 10.0 ** rng.integers(-2, 4)
        fs = [_spell(rng, float(rng.normal() * mag)) for _ in range(3)]
        fs.append(_spell(rng, float(abs(rng.normal()) + 0.01)))
        ex = [_spell(rng, float(rng.normal() * 10)) for _ in range(nextra)]
        ty = int(rng.integers(0, 9))
        p = ids[pid[i]] if pid[i] >= 0 else -1
        if arbitrary_ids:  # tag: x carries the identity of the node, exactly representable
            fs[0] = (str(i) + ".0", float(i))
        rows.append({"id": ids[i], "type": ty, "x": fs[0][1], "y": fs[1][1], "z": fs[2][1],
                     "r": fs[3][1], "pid": p, "extra": [e[1] for e in ex[:ask]]})
        idtok = ("0" * int(rng.integers(0, 3)) + str(ids[i])) if rng.random() < 0.1 else str(ids[i])
        toks = [idtok, str(ty)] + [f[0] for f in fs] + [str(p)] + [e[0] for e in ex[:ask]] \
            + ["%.4f" % e[1] for e in ex[ask:]]
        line = (_ws(rng) if rng.random() < 0.3 else "") + _ws(rng).join(toks) \
            + (_ws(rng) if rng.random() < 0.3 else "")
        row_lines.append(line)
    order = list(range(n))
    if arbitrary_ids:
        order = rng.permutation(n).tolist()
    lines = []  # (kind, text, payload)
    pool = ["note", "  indented note", "has # hash", "1 1 0 0 0 1 -1", "", "x" * 200,
            "tab\there"] + [{"ascii": "cafe um", "latin-1": "café µm ±"}.get(charset, "café 神経 µm")]
    if rng.random() < 0.5:
        lines.append(("comment", "# header " + str(seed), " header " + str(seed)))
    if rng.random() < 0.4:
        # the column banner the library's own writer puts before the rows (the reader documents
        # dropping that line; everything else about the text is read as for any other file)
        extra_names = [f"e{j}" for j in range(int(rng.integers(0, 3)))] if rng.random() < 0.4 else []
        lines.append(("banner", "# " + " ".join(["id", "type", "x", "y", "z", "r", "pid"]
                                                + extra_names), None))
    for k in order:
        if rng.random() < 0.15:
            c = str(rng.choice(pool))
            lines.append(("comment", (_ws(rng) if rng.random() < 0.3 else "") + "#" + c, c))
        if rng.random() < 0.1:
            lines.append(("blank", str(rng.choice(["", "   ", "\t", " \t "])), None))
        lines.append(("row", row_lines[k], k))
    if rng.random() < 0.2:
        lines.append(("comment", "# trailer", " trailer"))
    eol = str(rng.choice(["\n", "\n", "\r\n"]))
    final_eol = bool(rng.random() < 0.8)
    if lone_cr:  # old-style line ends; a text *file* (path / bytes) reads them as line ends
        eol = "\r"
    return {"rows": rows, "order": order, "lines": lines, "eol": eol, "final_eol": final_eol,
            "nextra": nextra, "ask": ask, "n": n}


def render(doc, lines=None) -> str:
    lines = doc["lines"] if lines is None else lines
    return doc["eol"].join(t for _, t, _ in lines) + (doc["eol"] if doc["final_eol"] else "")


def fault_line(rng, doc):
    """A line that is neither a data row, a comment nor blank. Returns (class, text)."""
    k = int(rng.integers(0, 5))
    nfields = 7 + doc["ask"]
    good = ["7", "3", "1.5", "-2.25", "0.5", "1.0", "3"] + ["4.5"] * doc["ask"]
    if k == 4:
        # too few fields or a non-numeric token, followed by a '#' remark on the same line: the line
        # starts like a row, so it is not a comment line, and it is not a complete row either
        m = int(rng.integers(1, 6))
        body = " ".join(good[:m]) if rng.random() < 0.6 else "three 3 2 0 0 .5 2"
        return "malformed-row-with-remark", body + str(rng.choice([" # r and pid missing", "#", " #x",
                                                                    "\t# id"]))
    if k == 0:
        m = int(rng.integers(1, 7))
        return "too-few-fields", " ".join(good[:m])
    if k == 1:
        j = int(rng.integers(0, nfields))
        toks = list(good)
        toks[j] = str(rng.choice(BAD_TOKENS[:-1]))  # '#' excluded: it would start a trailing text
        return "non-numeric-token", " ".join(toks)
    if k == 2:
        return "free-text", str(rng.choice(FREE_TEXT))
    if doc["ask"] > 0:
        return "missing-requested-extra", " ".join(good[:7 + doc["ask"] - 1])
    return "too-few-fields", " ".join(good[:6])


# ------------------------------------------------------------------------------- reading
def _source(kind, text, enc, tmp, name="f.swc"):
    if kind == "text":
        return io.StringIO(text)
    data = text if isinstance(text, bytes) else text.encode(enc if enc != "detect" else "utf-8")
    if kind == "bytes":
        return io.BytesIO(data)
    path = os.path.join(tmp, name)
    with open(path, "wb") as f:
        f.write(data)
    return path


def _read(entry, src, opts):
    """Returns (table dict of lists, comments, warnings list)."""
    from swcgeom.core import Tree
    from swcgeom.core import swc_utils as su

    with warnings.catch_warnings(record=True) as w:
        warnings.simplefilter("always")
        if entry == "read_swc":
            # the options by keyword, or the leading ones by position (extra_cols, fix_roots,
            # sort_nodes, reset_index is the documented order), or a mix of both
            _FLAG_SPELLINGS[0] += 1
            form = _FLAG_SPELLINGS[0] % 4
            o2 = dict(opts)
            if form == 1:
                df, cm = su.read_swc(src, o2.pop("extra_cols", None), **o2)
                _POSITIONAL[0] += 1
            elif form == 2:
                df, cm = su.read_swc(src, o2.pop("extra_cols", None), o2.pop("fix_roots", False),
                                     o2.pop("sort_nodes", False), o2.pop("reset_index", True), **o2)
                _POSITIONAL[0] += 1
            else:
                df, cm = su.read_swc(src, **o2)
            tab = {c: df[c].tolist() for c in df.columns}
        else:
            t = Tree.from_swc(src, **opts)
            tab = {c: t.ndata[c].tolist() for c in t.ndata}
            cm = list(t.comments)
    return tab, list(cm), [str(x.message) for x in w]


def _expected_rows(doc, reset_index: bool):
    rows = [doc["rows"][k] for k in doc["order"]]
    if reset_index:
        root = next(r["id"] for r in rows if r["pid"] == -1)
        rows = [dict(r, id=r["id"] - root, pid=(r["pid"] - root if r["pid"] != -1 else -1))
                for r in rows]
    return rows


def _charset(o):
    if o["kind"] == "text":
        return "utf-8"
    return {"detect": "ascii", "latin-1": "latin-1"}.get(o["encoding"], "utf-8")


def _draw_opts(rng, doc, allow_detect=True):
    reset = bool(rng.random() < 0.6)
    enc = str(rng.choice(["utf-8", "utf-8", "latin-1"] + (["detect"] if allow_detect else [])))
    kind = str(rng.choice(["text", "bytes", "path"]))
    entry = str(rng.choice(["read_swc", "read_swc", "from_swc"]))
    return {"reset_index": reset, "encoding": enc, "kind": kind, "entry": entry}


_FLAG_SPELLINGS = [0]


def _flag(v: bool):
    """The same truth value as callers hold it: a Python bool, a numpy bool (the result of a
    numpy comparison or np.any) or an int."""
    _FLAG_SPELLINGS[0] += 1
    k = _FLAG_SPELLINGS[0] % 4
    return [bool(v), np.bool_(v), int(v), bool(v)][k]


def _names_arg(names):
    """The requested column names as callers hold them: a list, a tuple, or a one-shot iterable
    (the parameter is documented as an iterable of names)."""
    _FLAG_SPELLINGS[0] += 1
    k = _FLAG_SPELLINGS[0] % 4
    if k == 1:
        return tuple(names)
    if k == 2:
        _ITER_ARGS[0] += 1
        return (nm for nm in names)
    if k == 3:
        _ITER_ARGS[0] += 1
        return iter(list(names))
    return list(names)


_ITER_ARGS = [0]
_POSITIONAL = [0]


def _opts_kw(o, doc):
    kw = {"reset_index": _flag(o["reset_index"])}
    if _FLAG_SPELLINGS[0] % 3 == 0:
        kw["sort_nodes"] = _flag(False)
    if o["kind"] != "text":
        kw["encoding"] = o["encoding"]
    if doc["ask"]:
        kw["extra_cols"] = _names_arg([f"e{k}" for k in range(doc["ask"])])
    return kw


def check_grammar(ctx, case, tmp):
    o = case["opts"]
    big = bool(case.get("big_ids")) and (o["entry"] == "read_swc" or o["reset_index"])
    cr = bool(case.get("lone_cr")) and o["kind"] != "text"
    doc = gen_doc(case["seed"], max_rows=case.get("max_rows", 40),
                  charset=_charset(case["opts"]), big_ids=big, lone_cr=cr,
                  root_not_min=bool(case.get("root_not_min")),
                  exact_rows=int(case.get("exact_rows", 0)))
    if case.get("exact_rows"):
        ctx.count("texts_with_block_sized_row_counts")
    if case.get("root_not_min"):
        ctx.count("root_without_smallest_id")
    if big:
        ctx.count("ids_beyond_2_53")
    if cr:
        ctx.count("lone_cr_line_ends")
    text = render(doc)
    if any(k_ == "banner" for k_, _, _ in doc["lines"]):
        ctx.count("texts_with_the_writers_column_banner")
    src = _source(o["kind"], text, o["encoding"], tmp)
    ctx.count("src_" + o["kind"])
    ctx.count("entry_" + o["entry"])
    tab, cm, warns = _read(o["entry"], src, _opts_kw(o, doc))
    ctx.count("grammar_reads")
    exp = _expected_rows(doc, o["reset_index"])
    n = len(exp)
    if len(tab["id"]) != n:
        return ctx.violation("row-count", f"{len(tab['id'])} rows returned for {n} data rows "
                                          f"({o})", case)
    f32 = o["entry"] == "from_swc"
    for i, r in enumerate(exp):
        for k in ("id", "type", "pid"):
            if int(tab[k][i]) != r[k] or float(tab[k][i]) != float(r[k]):
                return ctx.violation("field-value", f"row {i} field {k}: read {tab[k][i]!r}, the "
                                                    f"row says {r[k]!r} ({o})", case)
        for k in "xyzr":
            want = float(np.float32(r[k])) if f32 else r[k]
            if float(tab[k][i]) != want:
                return ctx.violation("field-value", f"row {i} field {k}: read {tab[k][i]!r}, the "
                                                    f"row says {want!r} ({o})", case)
        if not f32:
            for j, v in enumerate(r["extra"]):
                if float(tab[f"e{j}"][i]) != v:
                    return ctx.violation("extra-col-value", f"row {i} requested column e{j}: read "
                                                            f"{tab[f'e{j}'][i]!r}, row says {v!r}",
                                         case)
                ctx.count("extra_cols_compared")
    ctx.count("rows_compared", n)
    if not f32 and set(tab) != {"id", "type", "x", "y", "z", "r", "pid",
                                *(f"e{k}" for k in range(doc["ask"]))}:
        return ctx.violation("columns", f"columns returned: {sorted(tab)}", case)
    want_c = [c.rstrip() for k, _, c in doc["lines"] if k == "comment"]
    got_c = [c.rstrip() for c in cm]
    ctx.count("comments_compared")
    if got_c != want_c:
        return ctx.violation("comments", f"comments read {got_c[:4]}..., the text has "
                                         f"{want_c[:4]}... ({len(got_c)} vs {len(want_c)})", case)
    n_ign = sum("ignored" in m for m in warns)
    if doc["nextra"] > doc["ask"]:
        ctx.count("ignored_field_warnings")
        if n_ign < 1:
            return ctx.violation("no-ignored-warning", "fields beyond the requested columns were "
                                                       "dropped without the documented warning",
                                 case)
    elif n_ign:
        return ctx.violation("spurious-ignored-warning", "an 'ignored fields' warning although "
                                                         "every field was requested", case)


def _must_raise(ctx, case, mech, what, fn):
    try:
        res = fn()
    except Exception as e:  # any exception type is "failing loudly"
        ctx.count("faults_raised")
        ctx.count("raised_" + type(e).__name__)
        return True
    n = res if isinstance(res, int) else -1
    ctx.violation(mech, f"{what}: reading returned a table of {n} rows instead of raising", case)
    return False


def check_fault(ctx, case, tmp):
    o = case["opts"]
    doc = gen_doc(case["seed"], max_rows=case.get("max_rows", 40), charset=_charset(o))
    rng = np.random.default_rng(case["fseed"])
    lines = list(doc["lines"])
    nf = case.get("nfaults", 1)
    positions = [case["pos"]] if case.get("pos") is not None else []
    while len(positions) < nf:
        positions.append(int(rng.integers(0, len(lines) + 1)))
    classes = []
    for p in sorted(positions, reverse=True):
        klass, text = fault_line(rng, doc)
        classes.append(klass)
        p = min(p, len(lines))
        if case.get("replace") and p < len(lines) and lines[p][0] == "row":
            lines[p] = ("fault", text, None)
        else:
            lines.insert(p, ("fault", text, None))
    text = render(doc, lines)
    first_fault_byte = min(len(doc["eol"].join(t for _, t, _ in lines[:i]).encode())
                           for i, l in enumerate(lines) if l[0] == "fault")
    if first_fault_byte > 9000:
        ctx.count("fault_beyond_buffer")
    for c in classes:
        ctx.count("fault_" + c)
    ctx.count("faults_injected")
    ctx.count("src_" + o["kind"])
    ctx.count("entry_" + o["entry"])
    src = _source(o["kind"], text, o["encoding"], tmp)

    def go():
        tab, _, _ = _read(o["entry"], src, _opts_kw(o, doc))
        return len(tab["id"])

    _must_raise(ctx, case, "malformed-line-accepted",
                f"{'+'.join(classes)} at line(s) {sorted(positions)} of {len(lines)} ({o})", go)


def check_bytes(ctx, case, tmp):
    """Undecodable bytes: must raise for utf-8 (and for ascii), wherever they sit."""
    doc = gen_doc(case["seed"], max_rows=case.get("max_rows", 40), charset="ascii")
    o = case["opts"]
    rng = np.random.default_rng(case["fseed"])
    data = bytearray(render(doc).encode("utf-8"))
    where = case["where"]
    bad = bytes(rng.choice([b"\xff", b"\xfe\xff", b"\xc3\x28", b"\xe2\x82", b"\x80"]))
    line_starts = [0] + [i + 1 for i, b in enumerate(data) if b == 0x0A][:-1 if data.endswith(b"\n")
                                                                          else None]
    if where == "start":
        pos = 0
    elif where == "last-line":
        pos = line_starts[-1]
    elif where == "in-comment":
        data = bytearray(b"# c" + b"\n") + data
        pos = 3
    elif where == "new-comment-line":
        pos = int(rng.choice(line_starts))
        bad = b"# " + bad + b"\n"
    else:  # inside a row: between two tokens
        pos = int(rng.choice(line_starts))
    data[pos:pos] = bad
    if pos > 9000:
        ctx.count("fault_beyond_buffer")
    ctx.count("bytes_faults_injected")
    ctx.count("bytes_where_" + where)
    ctx.count("src_" + o["kind"])
    ctx.count("entry_" + o["entry"])
    src = _source(o["kind"], bytes(data), "utf-8", tmp)
    kw = _opts_kw(o, doc)
    kw["encoding"] = o["encoding"]  # utf-8 or ascii

    def go():
        tab, _, _ = _read(o["entry"], src, kw)
        return len(tab["id"])

    _must_raise(ctx, case, "undecodable-bytes-accepted",
                f"bytes {bytes(bad)!r} at offset {pos} ({where}; {o})", go)


def check_sort(ctx, case, tmp):
    o = case["opts"]
    doc = gen_doc(case["seed"], arbitrary_ids=True, max_rows=case.get("max_rows", 40),
                  big_ids=bool(case.get("big_ids")))
    if case.get("big_ids"):
        ctx.count("ids_beyond_2_53")
    text = render(doc)
    src = _source(o["kind"], text, "utf-8", tmp)
    kw = {"sort_nodes": _flag(True)}
    if _FLAG_SPELLINGS[0] % 2:
        kw["reset_index"] = _flag(bool(_FLAG_SPELLINGS[0] % 3))  # irrelevant once nodes are sorted
    if doc["ask"]:
        kw["extra_cols"] = [f"e{k}" for k in range(doc["ask"])]
    ctx.count("src_" + o["kind"])
    ctx.count("entry_" + o["entry"])
    tab, cm, _ = _read(o["entry"], src, kw)
    ctx.count("sorted_reads")
    rows = doc["rows"]  # row i has tag x == i
    n = len(rows)
    if len(tab["id"]) != n:
        return ctx.violation("row-count", f"sorted read returned {len(tab['id'])} of {n} rows", case)
    ids = [int(v) for v in tab["id"]]
    pids = [int(v) for v in tab["pid"]]
    if ids != list(range(n)):
        return ctx.violation("sorted-ids", f"ids after sorting are {ids[:8]}..., not 0..n-1", case)
    if pids[0] != -1 or any(not (0 <= p < i) for i, p in enumerate(pids) if i > 0):
        return ctx.violation("sorted-order", f"parents do not precede children: pid={pids[:10]}",
                             case)
    tags = [int(v) for v in tab["x"]]
    if sorted(tags) != list(range(n)):
        return ctx.violation("sorted-bijection", "the nodes of the result are not the rows of the "
                                                 "file (tags differ)", case)
    id2row = {r["id"]: i for i, r in enumerate(rows)}
    f32 = o["entry"] == "from_swc"
    for i in range(n):
        r = rows[tags[i]]
        want_parent = id2row[r["pid"]] if r["pid"] != -1 else None
        got_parent = tags[pids[i]] if pids[i] >= 0 else None
        if want_parent != got_parent:
            return ctx.violation("sorted-parent", f"row with tag {tags[i]}: parent tag "
                                                  f"{got_parent}, the file says {want_parent}", case)
        if int(tab["type"][i]) != r["type"]:
            return ctx.violation("sorted-column", f"type of node tagged {tags[i]} changed", case)
        for k in "yzr":
            want = float(np.float32(r[k])) if f32 else r[k]
            if float(tab[k][i]) != want:
                return ctx.violation("sorted-column", f"column {k} of node tagged {tags[i]}: "
                                                      f"{tab[k][i]!r} != {want!r}", case)
        if not f32:
            for j, v in enumerate(r["extra"]):
                if float(tab[f"e{j}"][i]) != v:
                    return ctx.violation("sorted-column", f"requested column e{j} of node tagged "
                                                          f"{tags[i]} not carried", case)
    ctx.count("rows_compared", n)


def check_population(ctx, case, tmp):
    """A malformed file inside a population: pop[i] must raise for it, and only for it."""
    from swcgeom.core import Population

    rng = np.random.default_rng(case["seed"])
    d = os.path.join(tmp, "pop")
    os.makedirs(d)
    k = int(rng.integers(2, 6))
    bad = int(rng.integers(0, k))
    ns = {}
    for j in range(k):
        doc = gen_doc(int(rng.integers(0, 2**31)), max_rows=15, request_all=False)
        doc["final_eol"] = True
        lines = list(doc["lines"])
        if j == bad:
            _, t = fault_line(rng, doc)
            lines.insert(int(rng.integers(0, len(lines) + 1)), ("fault", t, None))
        if j == bad and case["seed"] % 3 == 0:
            # not a malformed line but bytes that are not utf-8 (in a comment, or a 0xA0 between
            # two fields), in a population opened without naming an encoding
            data = render(doc, list(doc["lines"])).encode("utf-8")
            cut = data.find(b"\n") + 1
            inj = b"# caf\xe9 \xb5m\n" if case["seed"] % 2 else b"1 1 0\xa00 0 1 -1\n"
            with open(os.path.join(d, f"t{j}.swc"), "wb") as f:
                f.write(data[:cut] + inj + data[cut:])
            ctx.count("population_files_with_undecodable_bytes")
            ns[f"t{j}.swc"] = doc["n"]
            continue
        with open(os.path.join(d, f"t{j}.swc"), "w", encoding="utf-8") as f:
            f.write(render(doc, lines))
        ns[f"t{j}.swc"] = doc["n"]
    with warnings.catch_warnings():
        warnings.simplefilter("ignore")
        try:
            if case["seed"] % 4 == 1:
                # built from the caller's own list of file names, which the caller then goes on
                # to use (reversed, emptied): the population still reads the files it was given
                from swcgeom.core.population import LazyLoadingTrees

                mine = list(Population.find_swcs(d))
                listed = list(mine)
                pop = Population(LazyLoadingTrees(mine), root=d)
                mine.reverse()
                mine.clear()
                ctx.count("callers_name_list_edited_after_construction")
                if len(pop) != len(listed) or list(pop.trees.swcs) != listed:
                    return ctx.violation("row-count",
                                         f"a population built from the caller's list of {len(listed)} "
                                         f"file names has {len(pop)} members after the caller "
                                         f"emptied its own list", case)
            else:
                pop = Population.from_swc(d)
        except Exception:
            # construction probes the first file; failing there is also failing loudly
            ctx.count("population_reads")
            ctx.count("faults_raised")
            return
        for i in range(len(pop)):
            name = os.path.basename(pop.trees.swcs[i])
            ctx.count("population_reads")
            try:
                t = pop[i]
            except Exception:
                if name != f"t{bad}.swc":
                    return ctx.violation("good-file-rejected", f"{name} is grammatical but pop[{i}] "
                                                               f"raised", case)
                ctx.count("faults_raised")
                continue
            if name == f"t{bad}.swc":
                return ctx.violation("malformed-line-accepted",
                                     f"Population[{i}] returned a tree of {t.number_of_nodes()} "
                                     f"nodes for a file with a malformed line", case)
            if t.number_of_nodes() != ns[name]:
                return ctx.violation("row-count", f"Population[{i}] ({name}) has "
                                                  f"{t.number_of_nodes()} nodes for {ns[name]} rows",
                                     case)
        # a second population over the same directory, used in turns with the first: trees of the
        # first are edited in place by their owner, the second still returns what the rows say
        from swcgeom.core import swc_utils as su_

        try:
            pop2 = Population.from_swc(d)
        except Exception:
            return
        for i in range(len(pop)):
            path = pop.trees.swcs[i]
            if os.path.basename(path) == f"t{bad}.swc":
                continue
            t = pop[i]
            t.node(0).x = float(t.x()[0]) + 1000.0
            t.node(t.number_of_nodes() - 1).type = 7
            t.comments.append("edited by its owner")
            t2 = pop2[i]
            df, cm = su_.read_swc(path)
            ctx.count("second_population_reads_after_edits")
            if t2 is t or t2.number_of_nodes() != len(df) or \
                    not np.array_equal(t2.x(), df["x"].to_numpy().astype(np.float32)) or \
                    not np.array_equal(t2.type(), df["type"].to_numpy()) or \
                    "edited by its owner" in t2.comments:
                return ctx.violation("field-value",
                                     f"a second population over the same directory returned, for "
                                     f"{os.path.basename(path)}, a tree that differs from the file's "
                                     f"rows after the first population's tree was edited in place "
                                     f"(x[0]={float(t2.x()[0])!r}, file says "
                                     f"{float(df['x'].to_numpy()[0])!r})", case)


KINDS = {"grammar": check_grammar, "fault": check_fault, "bytes": check_bytes, "sort": check_sort,
         "population": check_population}


def execute(ctx, case):
    tmp = tempfile.mkdtemp(prefix="rv-c02-")
    try:
        KINDS[case["kind"]](ctx, case, tmp)
    except Exception as e:
        if case["kind"] in ("grammar", "sort"):
            ctx.violation("grammatical-text-rejected",
                          f"{type(e).__name__}: {str(e)[:200]} (cause: {str(e.__cause__)[:200]})",
                          case)
        else:
            raise
    finally:
        shutil.rmtree(tmp, ignore_errors=True)


def run(ctx):
    from swcgeom.core.swc_utils import io as swcio
    from swcgeom.utils.file import FileReader

    rng = ctx.rng

    def extract_exit(loc, rv):
        return (loc.get("exc_type") is not None, bool(rv))

    rt = probes.ReturnTap({"parse_swc": swcio.parse_swc, "exit": FileReader.__exit__},
                          extract=extract_exit, cap=10**6)
    with rt:
        n = ctx.scale(2600, 52000)
        for k in range(n):
            u = k % 10
            seed = int(rng.integers(0, 2**31 - 1))
            big = rng.random() < (0.02 if ctx.quick else 0.04)
            max_rows = int(rng.integers(400, 2000 if ctx.quick else 12000)) if big else 40
            if u < 3:
                case = {"kind": "grammar", "seed": seed, "max_rows": max_rows,
                        "big_ids": bool(rng.random() < 0.15), "lone_cr": bool(rng.random() < 0.15),
                        "root_not_min": bool(rng.random() < 0.2)}
                case["opts"] = _draw_opts(rng, None)
                ctx.case(case, klass="grammar")
                execute(ctx, case)
            elif u < 7:
                base = {"kind": "fault", "seed": seed, "max_rows": max_rows,
                        "fseed": int(rng.integers(0, 2**31 - 1))}
                doc = gen_doc(seed, max_rows=max_rows)
                nl = len(doc["lines"])
                if nl <= 40 and u == 3:
                    # every line position of a small text, one case per position
                    for p in range(nl + 1):
                        case = dict(base, pos=p, replace=bool(p % 2), nfaults=1,
                                    opts=_draw_opts(rng, None, allow_detect=False))
                        ctx.case(case, nontrivial=doc["n"] >= 2, klass="fault/every-position")
                        execute(ctx, case)
                else:
                    case = dict(base, pos=None, replace=bool(rng.random() < 0.5),
                                nfaults=int(rng.integers(1, 4)),
                                opts=_draw_opts(rng, None, allow_detect=False))
                    if big and rng.random() < 0.7:  # late fault: rows were already collected
                        case["pos"] = int(nl - rng.integers(0, max(1, nl // 10)))
                    ctx.case(case, nontrivial=doc["n"] >= 2, klass="fault/sampled")
                    execute(ctx, case)
            elif u < 8:
                opts = _draw_opts(rng, None, allow_detect=False)
                opts["kind"] = str(rng.choice(["bytes", "path"]))
                opts["encoding"] = str(rng.choice(["utf-8", "utf-8", "ascii"]))
                case = {"kind": "bytes", "seed": seed, "max_rows": max_rows,
                        "fseed": int(rng.integers(0, 2**31 - 1)),
                        "where": str(rng.choice(["start", "last-line", "in-comment",
                                                 "new-comment-line", "in-row"])),
                        "opts": opts}
                ctx.case(case, klass="bytes")
                execute(ctx, case)
            elif u < 9 or k % 50 != 9:
                opts = _draw_opts(rng, None, allow_detect=False)
                case = {"kind": "sort", "seed": seed, "max_rows": min(max_rows, 400), "opts": opts,
                        "big_ids": bool(rng.random() < 0.2)}
                ctx.case(case, klass="sort")
                execute(ctx, case)
            else:
                case = {"kind": "population", "seed": seed}
                ctx.case(case, klass="population")
                execute(ctx, case)
        # data-row counts on / next to multiples of 4096 and 8192 (this shard's share), and
        # populations holding one file with undecodable bytes, opened without naming an encoding
        sizes = [4095, 4096, 4097, 8191, 8192, 8193, 16384, 12288] + ([] if ctx.quick else
                                                                      [24576, 32768, 65536])
        for j, nrows in enumerate(sizes):
            if j % ctx.nshards != ctx.shard:
                continue
            case = {"kind": "grammar", "seed": 77 + j, "exact_rows": nrows, "big_ids": False,
                    "lone_cr": False, "root_not_min": False,
                    "opts": {"reset_index": bool(j % 2), "encoding": "utf-8",
                             "kind": ["text", "bytes", "path"][j % 3],
                             "entry": ["read_swc", "from_swc"][j % 2]}}
            ctx.case(case, klass="grammar/block-sized")
            execute(ctx, case)
        for j in (0, 1):
            case = {"kind": "population", "seed": 3 * (1000 + 2 * ctx.shard + j)}
            ctx.case(case, klass="population")
            execute(ctx, case)
    ctx.count("tap_parse_swc_raise", rt.raises["parse_swc"])
    ctx.count("tap_parse_swc_return", rt.returns["parse_swc"])
    exits = rt.records["exit"]
    ctx.count("option_flags_spelled", _FLAG_SPELLINGS[0])
    ctx.count("separators_other_than_blank_and_tab", _EXOTIC_WS[0])
    ctx.count("extra_cols_as_one_shot_iterables", _ITER_ARGS[0])
    ctx.count("options_given_by_position", _POSITIONAL[0])
    ctx.count("tap_exit_calls", len(exits))
    ctx.count("tap_exit_with_exception", sum(1 for p, r in exits if p))
    swallowed = sum(1 for p, r in exits if p and r)
    ctx.count("tap_exit_swallowed_exception", swallowed)
    if swallowed:
        ctx.violation("exit-swallows-exception",
                      f"FileReader.__exit__ returned a true value with an exception pending "
                      f"{swallowed} time(s): errors raised while reading are suppressed",
                      {"kind": "tap", "note": "see the malformed-line cases of this run"})


def replay(ctx, case):
    if case.get("kind") == "tap":
        # re-run a small fault campaign under the tap
        from swcgeom.utils.file import FileReader

        rt = probes.ReturnTap({"exit": FileReader.__exit__},
                              extract=lambda loc, rv: (loc.get("exc_type") is not None, bool(rv)))
        with rt:
            for s in range(20):
                c = {"kind": "fault", "seed": s, "fseed": s, "pos": None, "replace": False,
                     "nfaults": 1, "opts": {"reset_index": True, "encoding": "utf-8",
                                            "kind": "text", "entry": "read_swc"}}
                ctx.case(c)
                execute(ctx, c)
        if any(p and r for p, r in rt.records["exit"]):
            ctx.violation("exit-swallows-exception", "FileReader.__exit__ still returns a true "
                                                     "value with an exception pending", case)
        return
    ctx.case(case)
    execute(ctx, case)
