"""C01 — SWC write -> read round trip reproduces the tree.

Monitor: post-condition over pairs of calls (SWCLike.to_swc -> Tree.from_swc / read_swc),
wrapped at the client boundary.  Oracle: topology and types exact; coordinates / radii equal to
an independent correctly-rounded reference (decimal.Decimal half-even at 1e-4, then float32);
comment list built by the harness.  An audit hook confirms the path variant went through a file.
"""

from __future__ import annotations

import io
import os
import shutil
import tempfile
import warnings
from decimal import ROUND_HALF_EVEN, Decimal

import numpy as np

from rv import audit, probes
from rv.gen import trees as G

PROPERTY = "C01"
LEVEL = "exploration"
TECHNIQUE = ("runtime monitoring: post-condition over write->read call pairs at the client "
             "boundary; Decimal half-even rounding reference independent of the library's "
             "formatter; harness-built expected comment list; audit hook on file opens; repeated "
             "writes of the same tree object")
LEVEL_TEXT = ("Exploration: thousands of round trips over generated trees (all shape classes, deep "
              "chains, high-degree stars, values on 4-decimal rounding ties, huge / tiny / negative-"
              "zero values, all type codes) x id offsets {0,1,2,7,1000,2^30} x source kinds (text "
              "stream, byte stream, file path) x header options x comment sets, with several writes "
              "per tree object. Held = held on those executions."
              " A second tree of the same text length is written to the same path right after a read and read again."
              " Generated trees come in several representations of the same values (strided, other dtypes / lists, one array as two columns, read-only where the harness never writes) and half of them were queried, a third put through aborted operations, before use. A rejected read (extra columns the text lacks) precedes some round trips."
              " Trees that were read back are saved again; node counts on / next to powers of two and block sizes (255 .. 8193) and one big branched tree."
              " Paths spelled as str / Path / bytes / relative."
              " One case in four also goes through the extended format (to_eswc / from_eswc as text and as a file, five integer columns and one of the caller's own, the caller's list of column names re-used between calls)."
              " The writer's line generators of two trees consumed in turns."
              " Sources that decode their own bytes (TextIOWrapper in latin-1 / cp1252 / utf-16 / utf-32); round trips of twins under custom column names."
              " Columns that vary only in their last digits; the caller's comment list edited after construction."
              " Reads with a root repair requested on single-root text.")
LEVEL_NOTE = ("Trusts decimal.Decimal for the rounding reference and Python's float parser; comments "
              "are single-line and never start with the column banner (the reader documents "
              "dropping that line). Tree.from_eswc keeps only the seven standard columns; the extended "
              "ones are compared through the table-level reader (the statement does not speak of them).")
RULE = ("cases = (tree recipe, value class, write history of 1-4 writes each with id_offset, source "
        "kind, source/comments header options, comment set); non-trivial when the tree has >= 2 "
        "nodes; distinct = distinct (recipe, value class, history)")
ASSUMPTIONS = [
    "finite coordinates and radii; integer types >= 0; id offsets in [0, 2^30]",
    "-0.0 == 0.0; id/pid dtype width is free",
]
REQUIRED = ["roundtrips", "src_text", "src_bytes", "src_path", "offset_0", "offset_big",
            "rounding_tie_values", "comments_compared", "audit_file_opens", "rewrites_same_object",
            "trees_with_int64_ids", "same_path_rewritten_then_read",
            "rejected_reads_before_roundtrip", "loaded_trees_saved_again", "size_sweep_cases", "src_path_other_spellings",
            "eswc_roundtrips", "line_generators_interleaved", "src_text_stream_with_its_own_encoding",
            "roundtrips_under_custom_column_names", "comment_lists_edited_after_construction",
            "reads_with_root_repair_requested",
            "tap_to_swc", "tap_parse_swc", "tap_reset_index_"]
FLOOR = {"quick": 500, "thorough": 40000}
SHARDS = {"quick": 8, "thorough": 16}

OFFSETS = [0, 1, 1, 2, 7, 1000, 2**30]
Q = Decimal("0.0001")
_CTX = __import__("decimal").Context(prec=400)

COMMENT_SETS = [
    [],
    ["plain comment"],
    ["  leading blanks", "\ttab led", "trailing blanks   "],
    ["has # hash inside", "# starts with hash", "1 1 0 0 0 1 -1"],
    ["unicode: café 神経 µm"],
    ["", "after empty"],
    ["a", "   ", "b"],
    ["only blank", " "],
    [f"line {i}" for i in range(50)],
    ["source: not the header", "columns are id type x y z r pid"],
    # characters that str.splitlines (but not a text file) treats as line ends
    ["form\x0cfeed", "unit\x1fsep nel\x85x", "ls\u2028ps\u2029end", "vt\x0bx"],
]


def ref_round(v: np.ndarray) -> np.ndarray:
    """float32(decimal half-even rounding of the exact binary value to 4 decimals)."""
    out = np.empty(len(v), dtype=np.float32)
    for i, x in enumerate(v):
        out[i] = np.float32(float(Decimal(float(x)).quantize(Q, rounding=ROUND_HALF_EVEN,
                                                             context=_CTX)))
    return out


def apply_value_class(spec, vclass, seed):
    rng = np.random.default_rng(seed)
    n = len(spec["pid"])
    if vclass == "ties":
        for k in "xyzr":
            base = rng.integers(-200000, 200000, n) if k != "r" else rng.integers(1, 50000, n)
            spec[k] = (base * 1e-4 + 5e-5).astype(np.float32)
    elif vclass == "dyadic_ties":  # exactly representable x.xxxx5 values: true ties
        for k in "xyz":
            spec[k] = (rng.integers(-64, 64, n) + rng.choice([0.03125, 0.09375, 0.15625], n)
                       ).astype(np.float32)
    elif vclass == "huge":
        for k in "xyz":
            spec[k] = (rng.normal(0, 1, n) * 10.0 ** rng.integers(5, 36, n)).astype(np.float32)
    elif vclass == "tiny":
        for k in "xyz":
            spec[k] = (rng.normal(0, 1, n) * 10.0 ** -rng.integers(3, 30, n).astype(float)
                       ).astype(np.float32)
        spec["x"][0] = np.float32(-0.0)
    elif vclass == "nearly_constant":
        # columns that vary only in their last digits (a planar section at z ~ 5000, a uniform
        # radius up to measurement noise), and exactly constant ones
        for k in "xyzr":
            base = float(rng.choice([5000.0, 12345.6789, 0.25, 731.5]))
            span = float(rng.choice([0.0, 0.0004, 0.04, 0.3]))
            spec[k] = (base + rng.uniform(0, span, n)).astype(np.float32)
    elif vclass == "alltypes":
        spec["type"] = rng.choice([0, 1, 2, 3, 4, 5, 6, 7, 9, 123], n).astype(np.int32)
    return spec


ESWC = ["level", "mode", "timestamp", "teraflyindex", "feature_value"]


def _eswc_step(ctx, case, tmp, spec, tree, comments):
    """The extended format: the same round trip through to_eswc / from_eswc (five integer columns
    per node, plus a column of the caller's own), as text and as a file, the caller's list of
    extra column names re-used between the calls as a caller would hold it."""
    from swcgeom.core import Tree

    n = len(spec["pid"])
    rng = np.random.default_rng(case["vseed"] + 17)
    ext = {k: rng.integers(-5, 1000, n).astype(np.int32) for k in ESWC}
    mine = (rng.integers(-40000, 40000, n) * 1e-4 + 5e-5).astype(np.float32)
    cols = {k: tree.ndata[k].copy() for k in ("id", "type", "x", "y", "z", "r", "pid")}
    te = Tree(n, **cols, **ext, weight=mine, comments=list(comments), source=tree.source)
    own = ["weight"]
    for kind in ("text", "path"):
        what = f"eswc round trip ({kind})"
        if kind == "text":
            text = te.to_eswc(extra_cols=own)
            if not isinstance(text, str):
                return ctx.violation("write-api", f"{what}: to_eswc() returned {type(text)}", case)
            t2 = Tree.from_eswc(io.StringIO(text), extra_cols=own)
        else:
            fname = os.path.join(tmp, "ext.eswc")
            r = te.to_eswc(fname, extra_cols=own)
            if r is not None or not os.path.isfile(fname):
                return ctx.violation("write-api", f"{what}: to_eswc(fname) returned "
                                                  f"{type(r).__name__} and "
                                                  f"{'wrote' if os.path.isfile(fname) else 'did not write'}"
                                                  f" the file", case)
            t2 = Tree.from_eswc(fname, extra_cols=own)
        ctx.count("eswc_roundtrips")
        if own != ["weight"]:
            return ctx.violation("caller-list-mutated", f"{what}: the caller's extra_cols list became "
                                                        f"{own!r}", case)
        if len(t2) != n or not np.array_equal(t2.pid(), spec["pid"]) or \
                not np.array_equal(t2.type(), spec["type"]):
            return ctx.violation("eswc-topology", f"{what}: node count / parents / types changed", case)
        for k in "xyzr":
            if not np.array_equal(t2.ndata[k], ref_round(spec[k])):
                return ctx.violation("value-rounding", f"{what}: column {k} is not the 4-decimal "
                                                       f"rounding of the original", case)
        # the table-level reader returns the extended columns (Tree.from_eswc itself keeps only the
        # seven standard ones: the statement does not speak of them, counted, not decided)
        from swcgeom.core import swc_utils as su

        src = io.StringIO(text) if kind == "text" else fname
        df, _ = su.read_swc(src, extra_cols=own + ESWC)
        if any(k not in t2.ndata for k in ESWC):
            ctx.count("tree_reader_drops_extended_columns")
        for k in ESWC:
            if k not in df.columns or not np.array_equal(df[k].to_numpy().astype(np.float64),
                                                         ext[k].astype(np.float64)):
                return ctx.violation("eswc-column", f"{what}: extended column {k!r} read back as "
                                                    f"{None if k not in df.columns else df[k].to_numpy()[:5]}"
                                                    f", written {ext[k][:5]}", case)
        if "weight" not in df.columns or not np.array_equal(
                df["weight"].to_numpy().astype(np.float32), ref_round(mine)):
            return ctx.violation("eswc-column", f"{what}: the caller's own column is not the "
                                                f"4-decimal rounding of what was written", case)
        g = [c.lstrip() for c in t2.comments]
        e = [f"source: {te.source or 'Unknown'}", ""] + [c.lstrip() for c in comments]
        if g != e:
            return ctx.violation("comments-changed", f"{what}: comments {g[:6]!r}, expected {e[:6]!r}",
                                 case)


def _exec(ctx, case, tmp):
    from swcgeom.core import Tree
    from swcgeom.core import swc_utils as su

    spec = G.spec_from_recipe(case["tree"])
    spec = apply_value_class(spec, case["vclass"], case["vseed"])
    comments = list(COMMENT_SETS[case["cset"]])
    tree = G.build(spec, with_tag=False, comments=list(comments), source=case.get("tsource", ""))
    n = len(spec["pid"])
    if case.get("wide_ids"):
        # what sort_tree / cat_tree / redirect_tree return: 64-bit id and pid columns
        tree.ndata["id"] = tree.ndata["id"].astype(np.int64)
        tree.ndata["pid"] = tree.ndata["pid"].astype(np.int64)
        ctx.count("trees_with_int64_ids")
    cols_before = {k: v.copy() for k, v in tree.ndata.items()}
    want = {k: ref_round(spec[k]) for k in "xyzr"}
    if case["vclass"] in ("ties", "dyadic_ties"):
        ctx.count("rounding_tie_values", 4 * n)
    for w_i, wr in enumerate(case["writes"]):
        off, kind = wr["offset"], wr["kind"]
        kw = {"id_offset": off}
        if wr["source"] is not None:
            kw["source"] = wr["source"]
        if wr["comments"] is not None:
            kw["comments"] = wr["comments"]
        what = f"write {w_i} (id_offset={off}, {kind}, source={wr['source']!r}, " \
               f"comments={wr['comments']!r})"
        if kind == "path":
            fname = os.path.join(tmp, f"t{w_i}.swc")
            audit.start(tmp)
            r = tree.to_swc(fname, **kw)
            if r is not None:
                return ctx.violation("write-api", f"{what}: to_swc(fname) returned {type(r)}", case)
            if w_i % 2:  # the integer file-descriptor form of a file source
                t2 = Tree.from_swc(os.open(fname, os.O_RDONLY))
                ctx.count("src_file_descriptor")
            else:
                t2 = Tree.from_swc(fname)
            # the same file named by a pathlib.Path / a bytes path / relative to the working directory
            import pathlib

            alt = [pathlib.Path(fname), os.fsencode(fname), os.path.relpath(fname, os.getcwd()),
                   fname][(case["vseed"] + w_i) % 4]
            if alt is not fname:
                ctx.count("src_path_other_spellings")
            df, cm = su.read_swc(alt)
            log = audit.stop()
            opens = [p for p, _ in log if p == os.path.realpath(fname)]
            ctx.count("audit_file_opens", len(opens))
            if len(opens) < 2:
                return ctx.violation("not-a-file-round-trip", f"{what}: audit log shows "
                                                              f"{len(opens)} opens of the file", case)
            ctx.count("src_path")
        else:
            text = tree.to_swc(**kw)
            if not isinstance(text, str):
                return ctx.violation("write-api", f"{what}: to_swc() returned {type(text)}", case)
            if case.get("rejected_read_first") and w_i == 0:
                # "try the extended format, fall back to plain swc": a read of the same text that
                # asks for columns it does not have is rejected; the plain read must not care
                try:
                    if case["vseed"] % 2:
                        Tree.from_eswc(io.StringIO(text), extra_cols=["level", "mode"])
                    else:
                        su.read_swc(io.StringIO(text), extra_cols=["level"])
                    return ctx.violation("missing-columns-accepted",
                                         f"{what}: a read asking for extra columns the text does "
                                         f"not have returned instead of raising", case)
                except Exception:
                    ctx.count("rejected_reads_before_roundtrip")
            if kind == "wrapped":
                # an open text stream that decodes its own bytes (a file opened in another encoding,
                # a decompressing reader): the library reads the text it hands out
                enc = ["latin-1", "cp1252", "utf-16", "utf-32"][(case["vseed"] + w_i) % 4]
                try:
                    raw = text.encode(enc)
                except UnicodeEncodeError:
                    enc, raw = "utf-16", text.encode("utf-16")

                def wrapped():
                    return io.TextIOWrapper(io.BytesIO(raw), encoding=enc)

                t2 = Tree.from_swc(wrapped())
                df, cm = su.read_swc(wrapped())
                ctx.count("src_text_stream_with_its_own_encoding")
            elif kind == "text":
                t2 = Tree.from_swc(io.StringIO(text))
                df, cm = su.read_swc(io.StringIO(text))
                ctx.count("src_text")
            else:
                t2 = Tree.from_swc(io.BytesIO(text.encode("utf-8")))
                df, cm = su.read_swc(io.BytesIO(text.encode("utf-8")))
                ctx.count("src_bytes")
        if kind in ("text", "bytes") and w_i == 0 and case["vseed"] % 4 == 2:
            # a reader asked to repair several roots, should there be any, on text that has one
            # root: nothing to repair, the same tree
            fr = ["nearest", "somas"][case["vseed"] // 4 % 2]
            src_ = io.StringIO(text) if kind == "text" else io.BytesIO(text.encode("utf-8"))
            t_fr = Tree.from_swc(src_, fix_roots=fr)
            ctx.count("reads_with_root_repair_requested")
            if not (np.array_equal(t_fr.pid(), t2.pid()) and np.array_equal(t_fr.type(), t2.type())
                    and np.array_equal(t_fr.x(), t2.x())):
                j = int(np.nonzero(t_fr.pid() != t2.pid())[0][0]) if len(t_fr.pid()) == len(t2.pid()) \
                    and (t_fr.pid() != t2.pid()).any() else -1
                return ctx.violation("parent-changed",
                                     f"{what}: read with fix_roots={fr!r} (the text has a single "
                                     f"root) the tree differs from the plain read"
                                     f"{f': parent of node {j} is {t_fr.pid()[j]}, not {t2.pid()[j]}' if j >= 0 else ''}",
                                     case)
        ctx.count("roundtrips")
        ctx.count("offset_0" if off == 0 else ("offset_big" if off >= 1000 else "offset_small"))
        if w_i > 0:
            ctx.count("rewrites_same_object")
        # ---- topology / attributes
        if len(t2) != n or len(df) != n:
            return ctx.violation("node-count", f"{what}: read back {len(t2)} nodes (table "
                                               f"{len(df)}), wrote {n}", case)
        if not np.array_equal(t2.id(), np.arange(n)) or \
                not np.array_equal(df["id"].to_numpy(), np.arange(n)):
            return ctx.violation("ids", f"{what}: ids read back are not 0..n-1: "
                                        f"{t2.id()[:6].tolist()}", case)
        for got_pid, nm in ((t2.pid(), "Tree.from_swc"), (df["pid"].to_numpy(), "read_swc")):
            if not np.array_equal(got_pid, spec["pid"]):
                j = int(np.nonzero(got_pid != spec["pid"])[0][0])
                return ctx.violation("parent-changed", f"{what}: {nm}: parent of node {j} is "
                                                       f"{got_pid[j]}, was {spec['pid'][j]}", case)
        if not np.array_equal(t2.type(), spec["type"]) or \
                not np.array_equal(df["type"].to_numpy(), spec["type"]):
            return ctx.violation("type-changed", f"{what}: node types changed", case)
        for k in "xyzr":
            got = t2.ndata[k]
            if got.dtype != np.float32:
                return ctx.violation("dtype", f"{what}: column {k} read back as {got.dtype}", case)
            if not np.array_equal(got, want[k]):
                j = int(np.nonzero(got != want[k])[0][0])
                return ctx.violation("value-rounding",
                                     f"{what}: {k}[{j}] = {spec[k][j]!r} (exactly "
                                     f"{Decimal(float(spec[k][j]))}) read back as {got[j]!r}, the "
                                     f"original rounded to 4 decimals is {want[k][j]!r}", case)
            if not np.array_equal(df[k].to_numpy().astype(np.float32), want[k]):
                return ctx.violation("value-rounding", f"{what}: read_swc column {k} differs from "
                                                       f"the 4-decimal rounding", case)
        # ---- comments
        exp = []
        if wr["source"] is not False:
            s = wr["source"] if isinstance(wr["source"], str) else (tree.source or "Unknown")
            exp += [f"source: {s}", ""]
        if wr["comments"] is not False:
            exp += comments
        for got_c, nm in ((t2.comments, "Tree.from_swc"), (cm, "read_swc")):
            ctx.count("comments_compared")
            g = [c.lstrip() for c in got_c]
            e = [c.lstrip() for c in exp]
            if g != e:
                return ctx.violation("comments-changed",
                                     f"{what}: {nm} comments {g[:6]!r} (n={len(g)}), expected "
                                     f"{e[:6]!r} (n={len(e)})", case)
        if case.get("resave") and w_i == 0:
            # the tree that was just read (it carries the first writer's header among its
            # comments) is written again under another label and read once more: nothing is lost
            text2 = t2.to_swc(source="resaved copy")
            t3 = Tree.from_swc(io.StringIO(text2))
            ctx.count("loaded_trees_saved_again")
            g3 = [c.lstrip() for c in t3.comments]
            e3 = ["source: resaved copy", ""] + [c.lstrip() for c in t2.comments]
            if g3 != e3:
                return ctx.violation("comments-changed",
                                     f"{what}: saving the tree that was read back and reading it "
                                     f"again gives comments {g3[:6]!r} (n={len(g3)}), expected "
                                     f"{e3[:6]!r} (n={len(e3)})", case)
            for k in ("pid", "type", "x", "y", "z", "r"):
                if not np.array_equal(t3.ndata[k], t2.ndata[k]):
                    return ctx.violation("second-roundtrip-changed",
                                         f"{what}: column {k} changed when the tree read back was "
                                         f"saved and read again", case)
        if kind == "path" and case.get("rewrite_same_path"):
            # another tree of the same text length goes to the *same* path right away (same
            # second, same size): the next read must return the new content
            spec_b = dict(spec, x=spec["y"].copy(), y=spec["x"].copy())
            if int(spec["type"].max()) < 7:
                spec_b["type"] = (spec["type"] + 1).astype(spec["type"].dtype)
            tree_b = G.build(spec_b, with_tag=False, comments=list(comments),
                             source=case.get("tsource", ""))
            tree_b.to_swc(fname, **kw)
            tb = Tree.from_swc(fname)
            dfb, _ = su.read_swc(fname)
            ctx.count("same_path_rewritten_then_read")
            wb = {k: ref_round(spec_b[k]) for k in "xyzr"}
            for k in "xyzr":
                if len(tb) != n or not np.array_equal(tb.ndata[k], wb[k]) or \
                        not np.array_equal(dfb[k].to_numpy().astype(np.float32), wb[k]):
                    return ctx.violation("stale-read-after-rewrite",
                                         f"{what}: a second tree written to the same path was not "
                                         f"what the next read returned (column {k})", case)
            if not np.array_equal(tb.type(), spec_b["type"]) or \
                    not np.array_equal(dfb["type"].to_numpy(), spec_b["type"]):
                return ctx.violation("stale-read-after-rewrite",
                                     f"{what}: a second tree written to the same path was not what "
                                     f"the next read returned (types)", case)
        if tree.comments != comments:
            return ctx.violation("writer-mutates-tree", f"{what}: writing changed the tree's own "
                                                        f"comment list to {tree.comments[:5]!r}", case)
        for k, v in cols_before.items():
            if not np.array_equal(tree.ndata[k], v) or tree.ndata[k].dtype != v.dtype:
                return ctx.violation("writer-mutates-tree", f"{what}: writing changed the tree's "
                                                            f"own column {k!r}", case)
    if case["vseed"] % 3 == 1:
        # the comment list given to the constructor is the caller's: it goes on to edit it (the
        # next cell's header); and the tree's own list is not the caller's either
        mine = list(comments)
        t_c = Tree(n, **{k: tree.ndata[k].copy() for k in ("id", "type", "x", "y", "z", "r", "pid")},
                   comments=mine)
        if mine:
            mine[0] = "edited by the caller"
        mine.append("header of the next cell")
        t_c.comments.append("a note on this cell")
        ctx.count("comment_lists_edited_after_construction")
        back = Tree.from_swc(io.StringIO(t_c.to_swc(source=False)))
        g_ = [c.lstrip() for c in back.comments]
        e_ = [c.lstrip() for c in comments] + ["a note on this cell"]
        if g_ != e_ or mine[-1] != "header of the next cell" or "a note on this cell" in mine:
            return ctx.violation("comments-changed",
                                 f"a tree built with comments={comments[:3]!r}...: after the caller "
                                 f"edited its own list and appended a note to the tree's, the tree "
                                 f"writes {g_[:5]!r} (n={len(g_)}), expected {e_[:5]!r} (n={len(e_)}); "
                                 f"the caller's list is {mine[:4]!r}", case)
    if case["vseed"] % 5 == 0 and n <= 400:
        # the same tree held under custom column names (`names=`), written and read with them
        def rt(t_):
            a_ = Tree.from_swc(io.StringIO(t_.to_swc()), names=t_.names)
            b_ = Tree.from_swc(io.BytesIO(t_.to_swc(source=False).encode()), names=t_.names,
                               sort_nodes=True)
            return [a_, b_, list(a_.comments)]

        r = G.same_under_renaming(rt, tree, level=case["vseed"] // 5 % 2)
        ctx.count("roundtrips_under_custom_column_names")
        if r:
            return ctx.violation("custom-column-names", f"round trip: {r}", case)
    if case.get("interleave"):
        # the writer's line generator (swc_utils.to_swc) of this tree and of a second tree consumed
        # in turns, and a complete write of a third tree in the middle of them: each text is what
        # the same export gives when it runs alone
        spec_b = dict(spec, x=spec["y"][::-1].copy(), y=spec["z"][::-1].copy(),
                      type=spec["type"][::-1].copy())
        tree_b = G.build(spec_b, with_tag=False, comments=["second"], source="")
        small = Tree(2, pid=np.array([-1, 0], dtype=np.int32), x=np.array([1.5, 2.5], dtype=np.float32))
        alone = ["".join(su.to_swc(t_.get_ndata, comments=["c"], id_offset=o_))
                 for t_, o_ in ((tree, 1), (tree_b, 0))]
        ga = su.to_swc(tree.get_ndata, comments=["c"], id_offset=1)
        gb = su.to_swc(tree_b.get_ndata, comments=["c"], id_offset=0)
        la, lb = [], []
        for step in range(4 * n + 16):
            for g_, acc in ((ga, la), (gb, lb)):
                line = next(g_, None)
                if line is not None:
                    acc.append(line)
            if step == n // 2:
                small.to_swc()
        ctx.count("line_generators_interleaved")
        for nm, want_t, got_t in (("first", alone[0], "".join(la)), ("second", alone[1], "".join(lb))):
            if got_t != want_t:
                return ctx.violation("interleaved-writes-differ",
                                     f"two exports consumed line by line in turns: the {nm} text "
                                     f"differs from the same export run alone (first differing line "
                                     f"{next((i for i, (a_, b_) in enumerate(zip(got_t.splitlines(), want_t.splitlines())) if a_ != b_), '?')})",
                                     case)
    if case.get("eswc"):
        return _eswc_step(ctx, case, tmp, spec, tree, comments)


def execute(ctx, case):
    tmp = tempfile.mkdtemp(prefix="rv-c01-", dir=os.environ.get("RV_TMP"))
    try:
        with warnings.catch_warnings():
            warnings.simplefilter("ignore")
            _exec(ctx, case, tmp)
    except Exception as e:
        cause = f" <- {type(e.__cause__).__name__}: {e.__cause__}" if e.__cause__ else ""
        ctx.violation("roundtrip-raised", f"{type(e).__name__}: {str(e)[:200]}{cause[:200]}", case)
    finally:
        audit.stop()
        shutil.rmtree(tmp, ignore_errors=True)


def run(ctx):
    from swcgeom.core.swc_utils import io as sio
    from swcgeom.core.swc_utils import normalizer

    tap = probes.CallTap({"to_swc": sio.to_swc, "parse_swc": sio.parse_swc,
                          "reset_index_": normalizer.reset_index_})
    with tap:
        rng = ctx.rng
        n_cases = ctx.scale(900, 64000)
        for k in range(n_cases):
            rc = G.random_recipe(rng, max_n=G.size_ladder(ctx, k, 8, 40, 300), extras=0)
            writes = []
            for _ in range(int(rng.choice([1, 1, 2, 3, 4]))):
                writes.append({
                    "offset": int(OFFSETS[int(rng.integers(0, len(OFFSETS)))]),
                    "kind": str(rng.choice(["text", "bytes", "path", "wrapped"])),
                    "source": [None, None, True, False, "custom src"][int(rng.integers(0, 5))],
                    "comments": [None, None, True, False][int(rng.integers(0, 4))],
                })
            case = {"tree": rc, "vclass": str(rng.choice(["plain", "plain", "ties", "dyadic_ties",
                                                          "huge", "tiny", "alltypes",
                                                          "nearly_constant"])),
                    "vseed": int(rng.integers(0, 2**31 - 1)),
                    "cset": int(rng.integers(0, len(COMMENT_SETS))),
                    "tsource": str(rng.choice(["", "", "/data/neuron.swc"])),
                    "wide_ids": bool(rng.random() < 0.35),
                    "rewrite_same_path": bool(rng.random() < 0.5),
                    "rejected_read_first": bool(rng.random() < 0.3),
                    "resave": bool(rng.random() < 0.4),
                    "eswc": bool(rng.random() < 0.25),
                    "interleave": bool(rng.random() < 0.2),
                    "writes": writes}
            ctx.case(case, nontrivial=rc["n"] >= 2 and rc["shape"] != "single",
                     klass=f"{case['vclass']}/{rc['shape']}")
            execute(ctx, case)
        for j, rc in enumerate(G.real_recipes(rng, 1000 if ctx.quick else None)):
            if j % ctx.nshards == ctx.shard:  # real morphologies shipped with the repository
                case = {"tree": rc, "vclass": "plain", "vseed": 1, "cset": 2,
                        "tsource": "/data/real.swc",
                        "writes": [{"offset": 1, "kind": "path", "source": None, "comments": None},
                                   {"offset": 0, "kind": "bytes", "source": False,
                                    "comments": True}]}
                ctx.case(case, klass="real-morphology")
                ctx.count("real_morphologies")
                execute(ctx, case)
        for j, rc in enumerate(G.sweep_recipes(ctx, large=1)):
            # node counts on / next to powers of two and block sizes, and one big branched tree
            case = {"tree": rc, "vclass": "plain", "vseed": 1, "cset": 1 + j % 3, "tsource": "",
                    "writes": [{"offset": [0, 1, 1000][j % 3], "kind": ["text", "bytes", "path"][j % 3],
                                "source": None, "comments": None}]}
            ctx.case(case, klass="size-sweep")
            ctx.count("size_sweep_cases")
            execute(ctx, case)
        if ctx.shard == 0:
            for shape, n in (("chain", 10000 if ctx.quick else 100000), ("star", 200)):
                rc = {"shape": shape, "n": n, "numbering": "sorted", "geom": "growth",
                      "types": "soma", "extras": 0, "seed": 11}
                case = {"tree": rc, "vclass": "plain", "vseed": 1, "cset": 1, "tsource": "",
                        "writes": [{"offset": 1, "kind": "text", "source": None, "comments": None}]}
                ctx.case(case, klass=f"big/{shape}")
                execute(ctx, case)
    for k, v in tap.counts.items():
        ctx.count("tap_" + k, v)


def replay(ctx, case):
    ctx.case(case)
    execute(ctx, case)
