"""C09 — node, path, branch and segment views are faithful windows onto their tree.

Monitor: shadow model.  A plain numpy copy of every column of the owner tree (and one per
detached / copied object) is updated by the harness for every write it issues; after EVERY
operation of a random history all live handles are re-read through the library and compared
with what the shadow predicts.
"""

from __future__ import annotations

import warnings

import numpy as np

from rv import probes
from rv.gen import trees as G
from rv.oracles import topo

PROPERTY = "C09"
LEVEL = "exploration"
TECHNIQUE = ("runtime monitoring: shadow-model monitor over random histories of reads, attribute "
             "writes through node handles, indexing, copy() and detach(); every live handle is "
             "re-read and compared with the shadow after every operation; np.shares_memory and "
             "poison writes decide independence of copies")
LEVEL_TEXT = ("Exploration: thousands of random operation histories (20-200 operations) over "
              "generated trees; each step is checked against the shadow model, and all retained "
              "node / path / branch / compartment handles and detached copies are re-validated "
              "after each step. Held = held on the histories produced."
              "Histories include parent-id writes through node handles (re-parenting), after which segments, relatives, paths and branches must follow."
              " Path / Branch views are also built by the caller from a list, tuple, array or range of node ids."
              " Topology writes through handles of tree copies (segments and adjacency of the copy follow); views of 32 and more nodes over rows not stored in path order."
              " Views walked (and iterators left open) while the tree is edited through node handles."
              " Views / detached copies of twins under custom column names; segments and adjacency of a tree beyond 46 340 nodes."
              " The segment list of a branch edited in place and asked for again; a node as one SWC row."
              " The views bundle under every ambient state.")
LEVEL_NOTE = ("Write-through is decided for node handles obtained from the tree (what the statement "
              "names); writes through node handles obtained from a Path/Branch go to a temporary "
              "copy today and are counted, not decided (DESIGN.md C09 scope note).")
RULE = ("cases = (tree recipe, history seed, history length); operations drawn from: tree[i], "
        "tree[-i], tree[a:b:c], tree['col'], node(i), parent/children, property and item reads, "
        "writes of x,y,z,r,type through tree node handles, path/branch/compartment accessors, "
        "segments, adjacency matrix, detach() of each view kind, Tree.copy(), writes on either side "
        "of a copy; non-trivial when the history contains >= 1 write and >= 1 copy/detach; "
        "distinct = distinct (recipe, history seed)")
ASSUMPTIONS = [
    "inputs are well-formed trees, any numbering; single thread",
    "attribute values are compared bit-exactly (float32 columns)",
]
REQUIRED = ["ops_executed", "rechecks", "handle_reads", "node_writes", "detach_node", "detach_path",
            "detach_branch", "detach_compartment", "tree_copies", "independence_probes",
            "slices_checked", "index_errors_checked", "branch_segments_checked",
            "tree_segments_checked", "adjacency_checked", "pid_writes",
            "worlds_with_other_column_dtypes", "relatives_checked", "mixed_owner_containers",
            "views_built_by_caller", "views_built_from_a_range", "pid_writes_on_tree_copies",
            "long_views_over_unordered_rows", "views_walked_while_editing",
            "views_compared_under_custom_column_names", "big_tree_relations_checked",
            "node_rows_formatted", "segment_lists_edited_then_asked_again"]
FLOOR = {"quick": 250, "thorough": 5000}
SHARDS = {"quick": 8, "thorough": 16}

FCOLS = ["x", "y", "z", "r"]


class Mismatch(Exception):
    def __init__(self, mech, detail):
        super().__init__(detail)
        self.mech, self.detail = mech, detail


def _eq(a, b):
    a, b = np.asarray(a), np.asarray(b)
    return a.shape == b.shape and bool(np.all((a == b) | ((a != a) & (b != b))))


def _need(cond, mech, detail):
    if not cond:
        raise Mismatch(mech, detail)


class World:
    def __init__(self, ctx, spec):
        self.ctx = ctx
        self.tree = G.build(spec, share_ok=False)  # (a write to one column must not hit another)
        self.cols = {k: np.array(v, copy=True) for k, v in self.tree.ndata.items()}
        self.n = len(self.cols["id"])
        self.ch = topo.children_lists(self.cols["pid"])
        self.handles = []   # (kind, obj, idx list)
        self.free = []      # (kind, obj, shadow cols, attach-array getter)

    # ---- expected values of a view over index list L
    def view_check(self, kind, obj, L, cols=None, owner_ids=True):
        cols = self.cols if cols is None else cols
        L = list(L)
        ctx = self.ctx
        ctx.count("handle_reads")
        if kind == "node":
            i = L[0]
            for k in cols:
                _need(_eq(obj[k], cols[k][i]), "node-read", f"node {i}: [{k!r}] = {obj[k]!r}, "
                                                              f"owner has {cols[k][i]!r}")
            _need(_eq(obj.x, cols["x"][i]) and _eq(obj.y, cols["y"][i]) and _eq(obj.z, cols["z"][i])
                  and _eq(obj.r, cols["r"][i]) and int(obj.type) == int(cols["type"][i])
                  and int(obj.id) == int(cols["id"][i]) and int(obj.pid) == int(cols["pid"][i]),
                  "node-read", f"node {i}: property reads differ from the owner's columns")
            _need(_eq(obj.xyz(), [cols[k][i] for k in "xyz"]) and
                  _eq(obj.xyzr(), [cols[k][i] for k in "xyzr"]), "node-read",
                  f"node {i}: xyz()/xyzr() differ from the owner's columns")
            # the node as one SWC row (what str / repr / format_swc report)
            want_row = " ".join([str(int(cols["id"][i])), str(int(cols["type"][i]))] +
                                [f"{float(cols[k][i]):.4f}" for k in "xyzr"] +
                                [str(int(cols["pid"][i]))])
            got_rows = {str(obj), repr(obj), obj.format_swc()}
            norm = {" ".join(f"{float(tok):.4f}" if "." in tok or "e" in tok else str(int(tok))
                             for tok in g.split()) for g in got_rows}
            ctx.count("node_rows_formatted")
            _need(norm == {want_row}, "node-read", f"node {i}: str / repr / format_swc give "
                                                   f"{sorted(got_rows)[:2]}, the node's row is "
                                                   f"{want_row!r}")
            return
        m = len(L)
        _need(len(obj) == m, "view-len", f"{kind}: len = {len(obj)}, refers to {m} nodes")
        _need(_eq(obj.id(), np.arange(m)) and _eq(obj.pid(), np.arange(-1, m - 1)), "view-local-ids",
              f"{kind}: id()/pid() are not the local numbering 0..{m - 1}")
        if owner_ids:
            _need(_eq(obj.origin_id(), cols["id"][L]), "view-origin-id",
                  f"{kind}: origin_id() = {obj.origin_id().tolist()[:8]}, expected {L[:8]}")
            _need(_eq(obj.origin_pid(), cols["pid"][L]), "view-origin-id",
                  f"{kind}: origin_pid() differs from the owner's parents")
        for k in cols:
            if k in ("id", "pid") and not owner_ids:
                continue
            want = cols[k][L]
            _need(_eq(obj.get_ndata(k), want) and _eq(obj[k], want), "view-read",
                  f"{kind} over {L[:8]}: column {k!r} = {np.asarray(obj.get_ndata(k)).tolist()[:6]}, "
                  f"owner has {want.tolist()[:6]}")
        _need(_eq(obj.x(), cols["x"][L]) and _eq(obj.y(), cols["y"][L]) and _eq(obj.z(), cols["z"][L])
              and _eq(obj.r(), cols["r"][L]) and _eq(obj.type(), cols["type"][L]), "view-read",
              f"{kind} over {L[:8]}: accessor methods differ from the owner's columns")
        _need(_eq(obj.xyz(), np.stack([cols[k][L] for k in "xyz"], axis=1)) and
              _eq(obj.xyzr(), np.stack([cols[k][L] for k in "xyzr"], axis=1)), "view-read",
              f"{kind}: xyz()/xyzr() differ")

    def view_deep(self, kind, obj, L, rng, cols=None, owner_ids=True):
        """Indexing of a path-like view: ints, negatives, slices, iteration, out of range."""
        cols = self.cols if cols is None else cols
        L = list(L)
        m = len(L)
        ctx = self.ctx
        for j in {0, m - 1, int(rng.integers(0, m))}:
            for jj in (j, j - m):
                nd = obj[jj]
                _need(_eq(nd.x, cols["x"][L[j]]) and _eq(nd.r, cols["r"][L[j]])
                      and int(nd.type) == int(cols["type"][L[j]]), "view-index",
                      f"{kind}[{jj}] reads x={nd.x!r}, node {L[j]} has {cols['x'][L[j]]!r}")
                if owner_ids:
                    _need(int(nd.id) == int(cols["id"][L[j]]), "view-index",
                          f"{kind}[{jj}].id = {int(nd.id)}, expected {L[j]}")
        for bad in (m, -m - 1, m + 5):
            try:
                obj[bad]
            except IndexError:
                ctx.count("index_errors_checked")
            else:
                raise Mismatch("index-error", f"{kind}[{bad}] with len {m} did not raise IndexError")
        for _ in range(3):
            a, b, c = (int(rng.integers(-m - 2, m + 3)), int(rng.integers(-m - 2, m + 3)),
                       int(rng.choice([1, 1, 2, 3, -1, -2])))
            sl = slice(a if rng.random() < .8 else None, b if rng.random() < .8 else None, c)
            got = obj[sl]
            want = L[sl]
            ctx.count("slices_checked")
            _need(isinstance(got, list) and len(got) == len(want), "view-slice",
                  f"{kind}[{sl}] has {len(got)} nodes, list semantics give {len(want)}")
            for nd, w in zip(got, want):
                _need(_eq(nd.x, cols["x"][w]) and _eq(nd.z, cols["z"][w]) and
                      (not owner_ids or int(nd.id) == int(cols["id"][w])), "view-slice",
                      f"{kind}[{sl}] yields a node reading x={nd.x!r}, expected node {w} "
                      f"(x={cols['x'][w]!r})")
        it = [nd for nd in obj]
        _need(len(it) == m and all(_eq(nd.y, cols["y"][w]) for nd, w in zip(it, L)), "view-iter",
              f"iterating {kind} does not yield its nodes in order")

    # ---- global re-validation
    def recheck(self):
        self.ctx.count("rechecks")
        t = self.tree
        for k, v in self.cols.items():
            _need(_eq(t.ndata[k], v), "owner-changed",
                  f"owner column {k!r} differs from the shadow: a write leaked or was lost")
        for kind, obj, L in self.handles:
            self.view_check(kind, obj, L)
        for kind, obj, cols, L in self.free:
            self.view_check(kind, obj, L, cols=cols, owner_ids=False)


def _run_history(ctx, case):
    from swcgeom.core import Tree

    spec = G.spec_from_recipe(case["tree"])
    rng = np.random.default_rng(case["hseed"])
    W = World(ctx, spec)
    t, n = W.tree, W.n
    if case.get("alt_dtypes"):
        # columns in other widths than a freshly built tree has (what float64 transforms or a
        # user replacing a column wholesale leave behind): handles are windows onto these too
        for k_, dt in (("x", np.float64), ("y", np.float64), ("r", np.float64), ("type", np.int64)):
            t.ndata[k_] = t.ndata[k_].astype(dt)
            W.cols[k_] = W.cols[k_].astype(dt)
        ctx.count("worlds_with_other_column_dtypes")
    wrote = copied = 0
    paths = [tuple(int(i) for i in p) for p in topo.paths(W.cols["pid"])]
    brs = [tuple(int(i) for i in b) for b in topo.branches(W.cols["pid"])]
    lib_paths = {tuple(int(i) for i in p.origin_id()): p for p in t.get_paths()}
    lib_brs = {tuple(int(i) for i in b.origin_id()): b for b in t.get_branches()}

    def add_handle(kind, obj, L):
        if len(W.handles) >= 10:
            W.handles.pop(int(rng.integers(0, len(W.handles))))
        W.handles.append((kind, obj, list(L)))

    def add_free(kind, obj, cols, L):
        if len(W.free) >= 6:
            W.free.pop(int(rng.integers(0, len(W.free))))
        W.free.append((kind, obj, cols, list(L)))

    def caller_view(kind, L):
        """The view over node sequence L built by the caller, who holds the sequence as a list,
        tuple, array or (for a run of consecutive ids) a range."""
        run_ = len(L) >= 2 and all(L[j_ + 1] == L[j_] + 1 for j_ in range(len(L) - 1))
        forms = ["list", "tuple", "array", "array64"] + (["range", "range", "range"] if run_ else [])
        if kind == "path" and not run_ and len(L) >= 32:
            ctx.count("long_views_over_unordered_rows")
        form = forms[int(rng.integers(0, len(forms)))]
        idx = {"list": lambda: list(L), "tuple": lambda: tuple(L),
               "array": lambda: np.array(L, dtype=np.int32),
               "array64": lambda: np.array(L, dtype=np.int64),
               "range": lambda: range(L[0], L[-1] + 1)}[form]()
        ctx.count("views_built_by_caller")
        if form == "range":
            ctx.count("views_built_from_a_range")
        return (Tree.Path if kind == "path" else Tree.Branch)(t, idx)

    ops = ["node", "node", "write", "write", "write", "index", "slice", "col", "relatives",
           "path", "branch", "comp", "tree_segments", "adjacency", "detach_node", "detach_path",
           "detach_branch", "detach_comp", "copy", "write_free", "write_free", "reparent",
           "mixed_segments", "walk_and_write"]
    if case.get("long_view") and n >= 40:
        # a long view (32 nodes and more) over rows that are not stored in path order
        for _ in range(3):
            a_ = int(rng.integers(0, n - 35))
            L = list(range(a_, int(rng.integers(a_ + 33, n + 1))))
            mid = L[1:-1]
            rng.shuffle(mid)
            L = (L[0], *mid, L[-1])
            obj = caller_view("path", L)
            W.view_check("path", obj, L)
            W.view_deep("path", obj, L, rng)
            add_handle("path", obj, L)
            d = obj.detach()
            cols_ = {k: np.array(v[list(L)], copy=True) for k, v in W.cols.items()}
            cols_["id"], cols_["pid"] = np.arange(len(L)), np.arange(-1, len(L) - 1)
            W.view_check("path", d, range(len(L)), cols=cols_, owner_ids=True)
    for step in range(case["length"]):
        op = ops[int(rng.integers(0, len(ops)))]
        ctx.count("ops_executed")
        if op == "node":
            i = int(rng.integers(0, n))
            nd = t.node(i) if rng.random() < .5 else t[i]
            W.view_check("node", nd, [i])
            add_handle("node", nd, [i])
        elif op == "write":
            held = [(o, L[0]) for kind, o, L in W.handles if kind == "node"]
            if held and rng.random() < .4:  # write through a handle obtained earlier
                nd, i = held[int(rng.integers(0, len(held)))]
            else:
                i = int(rng.integers(0, n))
                nd = t[i] if rng.random() < .5 else t.node(i)
            k = str(rng.choice(FCOLS + ["type"]))
            if k == "type":
                v = int(rng.integers(0, 8))
            else:
                v = float(np.float32(rng.normal(0, 50)))
            if rng.random() < .5:
                setattr(nd, k, v)
            else:
                nd[k] = v
            W.cols[k][i] = v
            wrote += 1
            ctx.count("node_writes")
        elif op == "reparent":
            # a topology edit through a node handle: the owner's segments, relatives, paths and
            # branches must follow (anything the tree cached before is now stale)
            if n < 3:
                continue
            k = int(rng.integers(1, n))
            sub = set(topo.descendants(W.ch, k))
            cands = [j for j in range(n) if j not in sub and j != int(W.cols["pid"][k])]
            if not cands:
                continue
            j = int(cands[int(rng.integers(0, len(cands)))])
            nd = t.node(k) if rng.random() < .5 else t[k]
            if rng.random() < .5:
                nd.pid = j
            else:
                nd["pid"] = j
            W.cols["pid"][k] = j
            W.ch = topo.children_lists(W.cols["pid"])
            ctx.count("pid_writes")
            paths = [tuple(int(i) for i in p) for p in topo.paths(W.cols["pid"])]
            brs = [tuple(int(i) for i in b) for b in topo.branches(W.cols["pid"])]
            lib_paths = {tuple(int(i) for i in p.origin_id()): p for p in t.get_paths()}
            lib_brs = {tuple(int(i) for i in b.origin_id()): b for b in t.get_branches()}
            # handles on paths / branches / compartments taken before the edit described the old
            # topology; they are dropped (node handles stay)
            W.handles = [h for h in W.handles if h[0] == "node"]
            segs = t.get_segments()
            pairs = sorted((int(W.cols["pid"][i]), i) for i in range(n) if W.cols["pid"][i] >= 0)
            got = sorted((int(s_.origin_id()[0]), int(s_.origin_id()[1])) for s_ in segs)
            _need(got == pairs, "tree-segments",
                  f"after node({k}).pid = {j}: tree segments {got[:5]} are not the (parent, child) "
                  f"pairs {pairs[:5]}")
        elif op == "index":
            for bad in (n, -n - 1):
                try:
                    t[bad]
                except IndexError:
                    ctx.count("index_errors_checked")
                else:
                    raise Mismatch("index-error", f"tree[{bad}] with {n} nodes did not raise")
            i = int(rng.integers(0, n))
            nd = t[i - n]
            _need(int(nd.id) == i, "tree-negative-index", f"tree[{i - n}] is node {int(nd.id)}, "
                                                          f"expected {i}")
            W.view_check("node", nd, [i])
        elif op == "slice":
            a, b, c = (int(rng.integers(-n - 2, n + 3)), int(rng.integers(-n - 2, n + 3)),
                       int(rng.choice([1, 1, 2, 3, -1, -2])))
            sl = slice(a if rng.random() < .8 else None, b if rng.random() < .8 else None, c)
            got = t[sl]
            want = list(range(n))[sl]
            ctx.count("slices_checked")
            _need([int(g.id) for g in got] == want, "tree-slice",
                  f"tree[{sl}] = {[int(g.id) for g in got][:8]}, list semantics give {want[:8]}")
        elif op == "col":
            k = str(rng.choice(list(W.cols)))
            _need(_eq(t[k], W.cols[k]) and _eq(t.get_ndata(k), W.cols[k]), "tree-column",
                  f"tree[{k!r}] differs from the shadow")
        elif op == "relatives":
            i = int(rng.integers(0, n))
            # the same node addressed by position, from the end, or with a numpy scalar
            nd = (t.node(i), t.node(i - n), t[i - n], t.node(np.int32(i - n)), t[np.int64(i)])[
                int(rng.integers(0, 5))]
            ctx.count("relatives_checked")
            p = nd.parent()
            want = int(W.cols["pid"][i])
            _need((p is None and want == -1) or (p is not None and int(p.id) == want),
                  "node-parent", f"node({i}).parent() is {None if p is None else int(p.id)}, "
                                 f"expected {want}")
            _need(sorted(int(c.id) for c in nd.children()) == sorted(W.ch[i]), "node-children",
                  f"node({i}).children() = {sorted(int(c.id) for c in nd.children())}, expected "
                  f"{sorted(W.ch[i])}")
            _need(bool(nd.is_root()) == (want == -1), "node-parent", "is_root() wrong")
        elif op in ("path", "branch"):
            src, lib = (paths, lib_paths) if op == "path" else (brs, lib_brs)
            if not src:
                continue
            L = src[int(rng.integers(0, len(src)))]
            obj = lib.get(L)
            _need(obj is not None, "view-missing", f"no {op} with nodes {L[:8]} returned")
            if rng.random() < 0.35:
                if op == "path" and rng.random() < 0.4 and n >= 3:  # any run of consecutive ids
                    a_ = int(rng.integers(0, n - 1))
                    L = tuple(range(a_, int(rng.integers(a_ + 2, n + 1))))
                    if n >= 36 and rng.random() < 0.7:  # a long one (32 nodes and more)
                        a_ = int(rng.integers(0, n - 33))
                        L = tuple(range(a_, int(rng.integers(a_ + 32, n + 1))))
                    if len(L) >= 8 and rng.random() < 0.6:
                        # ... visited in another order (first and last kept): a neurite whose
                        # rows are stored out of order; the view reports the nodes in *its* order
                        mid = list(L[1:-1])
                        rng.shuffle(mid)
                        L = (L[0], *mid, L[-1])
                obj = caller_view(op, L)
            W.view_check(op, obj, L)
            W.view_deep(op, obj, L, rng)
            add_handle(op, obj, L)
            if op == "branch":
                segs = obj.get_segments()
                ctx.count("branch_segments_checked")
                _need(len(segs) == len(L) - 1, "branch-segments",
                      f"branch {L[:6]} has {len(segs)} segments for {len(L)} nodes")
                for j, s in enumerate(segs):
                    W.view_check("compartment", s, [L[j], L[j + 1]])
                if len(segs) >= 2:
                    # the list handed out belongs to the caller: edited in place, asked for again
                    first_pairs = [tuple(int(q) for q in s_.origin_id()) for s_ in segs]
                    segs.reverse()
                    segs.pop()
                    again_ = [tuple(int(q) for q in s_.origin_id()) for s_ in obj.get_segments()]
                    ctx.count("segment_lists_edited_then_asked_again")
                    _need(again_ == first_pairs, "branch-segments",
                          f"branch {L[:6]}: after the caller reversed / shortened the list "
                          f"get_segments() had returned, it returns {again_[:4]} instead of "
                          f"{first_pairs[:4]}")
                    segs = obj.get_segments()
                if len(segs):
                    _need(_eq(segs.id(), np.array([[L[j], L[j + 1]] for j in range(len(L) - 1)]))
                          and _eq(segs.x(), np.array([[W.cols["x"][L[j]], W.cols["x"][L[j + 1]]]
                                                      for j in range(len(L) - 1)])),
                          "branch-segments", "Compartments accessors of a branch differ")
                    j = int(rng.integers(0, len(segs)))
                    add_handle("compartment", segs[j], [L[j], L[j + 1]])
        elif op == "walk_and_write":
            # a view is walked (or an iterator over it is left open) while the tree is edited
            # through node handles: the view stays a window, also in the middle of the walk
            held = [(kind, o, L) for kind, o, L in W.handles if kind in ("path", "branch")]
            if not held:
                continue
            kind, obj, L = held[int(rng.integers(0, len(held)))]
            ctx.count("views_walked_while_editing")
            keep_open = iter(obj)
            next(keep_open)
            for pos, nd in enumerate(obj):
                j = L[int(rng.integers(0, len(L)))]
                k = str(rng.choice(FCOLS))
                v = float(np.float32(rng.normal(0, 50)))
                setattr(t.node(j), k, v)
                W.cols[k][j] = v
                wrote += 1
                ctx.count("node_writes")
                _need(_eq(obj.get_ndata(k), W.cols[k][list(L)]) and
                      _eq(getattr(obj[-1], k), W.cols[k][L[-1]]) and
                      _eq(getattr(nd, k), W.cols[k][L[pos]]), "view-stale-during-walk",
                      f"{kind} over {list(L)[:8]}: while walking it (step {pos}), node({j}).{k} = {v!r} "
                      f"was assigned through the tree; the view still reports "
                      f"{np.asarray(obj.get_ndata(k)).tolist()[:6]}")
                if pos >= 3:
                    break
            W.view_check(kind, obj, L)
            W._open_iterators = getattr(W, "_open_iterators", []) + [keep_open]
        elif op in ("comp", "tree_segments"):
            segs = t.get_segments() if rng.random() < .5 else t.get_compartments()
            ctx.count("tree_segments_checked")
            pairs = [(int(W.cols["pid"][i]), i) for i in range(n) if W.cols["pid"][i] >= 0]
            got = sorted((int(s.origin_id()[0]), int(s.origin_id()[1])) for s in segs)
            _need(got == sorted(pairs), "tree-segments",
                  f"tree segments {got[:5]} are not the (parent, child) pairs {sorted(pairs)[:5]}")
            if segs:
                j = int(rng.integers(0, len(segs)))
                L = [int(x) for x in segs[j].origin_id()]
                W.view_check("compartment", segs[j], L)
                W.view_deep("compartment", segs[j], L, rng)
                add_handle("compartment", segs[j], L)
                _need(_eq(segs.r()[j], [W.cols["r"][L[0]], W.cols["r"][L[1]]]) and
                      segs.xyz().shape == (len(segs), 2, 3) and segs.xyzr().shape == (len(segs), 2, 4),
                      "tree-segments", "Compartments accessors differ")
        elif op == "mixed_segments":
            # a container assembled by the caller from the segments of several branches (each
            # branch numbers its nodes locally): the container reports every member's own nodes
            from swcgeom.core.compartment import Compartments

            members, want_ids = [], []
            for L in brs[:6]:
                obj = lib_brs.get(L)
                if obj is None:
                    continue
                for j, s_ in enumerate(obj.get_segments()):
                    members.append(s_)
                    want_ids.append([L[j], L[j + 1]])
            if members:
                cont = Compartments(members)
                ctx.count("mixed_owner_containers")
                want_x = np.array([[W.cols["x"][a], W.cols["x"][b]] for a, b in want_ids])
                want_r = np.array([[W.cols["r"][a], W.cols["r"][b]] for a, b in want_ids])
                _need(_eq(cont.x(), want_x) and _eq(cont.r(), want_r)
                      and cont.xyz().shape == (len(members), 2, 3), "mixed-container",
                      "a Compartments container built from several branches' segments reports "
                      "other nodes than its members do")
        elif op == "adjacency":
            A = t.get_adjacency_matrix().toarray()
            want = np.zeros((n, n), dtype=np.int32)
            for i in range(n):
                if W.cols["pid"][i] >= 0:
                    want[W.cols["pid"][i], i] = 1
            ctx.count("adjacency_checked")
            _need(_eq(A, want), "adjacency", "adjacency matrix is not the parent relation")
        elif op == "detach_node":
            i = int(rng.integers(0, n))
            d = t.node(i).detach()
            cols = {k: np.array([v[i]]) for k, v in W.cols.items()}
            cols["id"], cols["pid"] = np.array([0]), np.array([-1])
            W.view_check("node", d, [0], cols=cols)
            _need(not any(np.shares_memory(d.attach.ndata[k], t.ndata[k]) for k in W.cols),
                  "detach-aliased", "detached node shares storage with the tree")
            add_free("node", d, cols, [0])
            copied += 1
            ctx.count("detach_node")
        elif op in ("detach_path", "detach_branch", "detach_comp"):
            if op == "detach_comp":
                ii = [i for i in range(n) if W.cols["pid"][i] >= 0]
                if not ii:
                    continue
                i = ii[int(rng.integers(0, len(ii)))]
                L = [int(W.cols["pid"][i]), i]
                obj = t.Compartment(t, L[0], L[1])
                kind = "compartment"
            else:
                src, lib = (paths, lib_paths) if op == "detach_path" else (brs, lib_brs)
                if not src:
                    continue
                L = src[int(rng.integers(0, len(src)))]
                obj, kind = lib[L], op.split("_")[1]
                if rng.random() < 0.5:
                    if kind == "path" and rng.random() < 0.5 and n >= 3:
                        a_ = int(rng.integers(0, n - 1))
                        L = tuple(range(a_, int(rng.integers(a_ + 2, n + 1))))
                    obj = caller_view(kind, L)
            d = obj.detach()
            m = len(L)
            cols = {k: np.array(v[list(L)], copy=True) for k, v in W.cols.items()}
            cols["id"], cols["pid"] = np.arange(m), np.arange(-1, m - 1)
            W.view_check(kind, d, range(m), cols=cols, owner_ids=True)
            W.view_deep(kind, d, range(m), rng, cols=cols, owner_ids=True)
            _need(not any(np.shares_memory(d.attach.ndata[k], t.ndata[k]) for k in W.cols),
                  "detach-aliased", f"detached {kind} shares storage with the tree")
            add_free(kind, d, cols, range(m))
            copied += 1
            ctx.count({"detach_path": "detach_path", "detach_branch": "detach_branch",
                       "detach_comp": "detach_compartment"}[op])
        elif op == "copy":
            c = t.copy()
            _need(isinstance(c, Tree) and c is not t and c.ndata is not t.ndata, "copy-aliased",
                  "Tree.copy() returned the same object / the same column dict")
            cols = {k: np.array(v, copy=True) for k, v in W.cols.items()}
            for k in cols:
                _need(_eq(c.ndata[k], cols[k]), "copy-content", f"copy column {k!r} differs")
                _need(not np.shares_memory(c.ndata[k], t.ndata[k]), "copy-aliased",
                      f"Tree.copy() shares column {k!r} with the original")
            _need(c.comments is not t.comments, "copy-aliased", "copy shares the comment list")
            # the copy is a tree: a node handle of it reads / writes the copy only
            add_free("treecopy", c, cols, range(n))
            copied += 1
            ctx.count("tree_copies")
        elif op == "write_free":
            if not W.free:
                continue
            kind, obj, cols, L = W.free[int(rng.integers(0, len(W.free)))]
            k = str(rng.choice(FCOLS))
            v = float(np.float32(rng.normal(0, 50)))
            j = int(rng.integers(0, len(L)))
            if kind == "treecopy" and len(L) >= 3 and rng.random() < 0.4:
                # a topology write through a handle of the *copy*: the copy's own (parent, child)
                # pairs -- segments and adjacency matrix -- follow, the original is untouched
                cp = np.asarray(cols["pid"]).astype(np.int64)
                chc = topo.children_lists(cp)
                kk = int(rng.integers(1, len(L)))
                subc = set(topo.descendants(chc, kk))
                cand = [q for q in range(len(L)) if q not in subc and q != int(cp[kk])]
                if cand:
                    jj = int(cand[int(rng.integers(0, len(cand)))])
                    obj.node(kk).pid = jj
                    cols["pid"][kk] = jj
                    ctx.count("pid_writes_on_tree_copies")
                    pairs = sorted((int(cols["pid"][i]), i) for i in range(len(L))
                                   if cols["pid"][i] >= 0)
                    got = sorted((int(s_.origin_id()[0]), int(s_.origin_id()[1]))
                                 for s_ in obj.get_segments())
                    _need(got == pairs, "tree-segments", "segments of a tree copy do not follow a "
                                                         "parent written through its own handle")
                    A_ = obj.get_adjacency_matrix().toarray()
                    want_ = np.zeros((len(L), len(L)), dtype=np.int32)
                    for i in range(len(L)):
                        if cols["pid"][i] >= 0:
                            want_[cols["pid"][i], i] = 1
                    _need(_eq(A_, want_), "adjacency", "adjacency matrix of a tree copy does not "
                                                       "follow a parent written through its handle")
            elif kind == "treecopy":
                obj.node(j).x = v
                cols["x"][j] = v
            elif kind == "node":
                setattr(obj, k, v)
                cols[k][0] = v
            else:
                obj.attach.ndata[k][j] = v
                cols[k][j] = v
            ctx.count("independence_probes")
        W.recheck()
    # free objects that are tree copies need their own check routine
    return wrote, copied


def _check_free_treecopy(kind, obj, cols):
    for k, v in cols.items():
        _need(_eq(obj.ndata[k], v), "copy-leak", f"tree copy column {k!r} changed although only the "
                                                 f"other side was written")


# World.view_check for kind 'treecopy'
_orig_view_check = World.view_check


def _view_check(self, kind, obj, L, cols=None, owner_ids=True):
    if kind == "treecopy":
        self.ctx.count("handle_reads")
        return _check_free_treecopy(kind, obj, cols)
    return _orig_view_check(self, kind, obj, L, cols=cols, owner_ids=owner_ids)


World.view_check = _view_check


def execute(ctx, case):
    try:
        with warnings.catch_warnings():
            warnings.simplefilter("ignore")
            return _run_history(ctx, case)
    except Mismatch as m:
        ctx.violation(m.mech, m.detail, case)
    except Exception as e:
        ctx.violation("op-raised", f"{type(e).__name__}: {str(e)[:300]}", case)
    return 0, 0


def _path_node_write_probe(ctx):
    """Scope note of DESIGN.md: counted, not decided."""
    from swcgeom.core import Tree

    t = Tree(4, x=np.arange(4, dtype=np.float32))
    p = t.get_paths()[0]
    p[1].x = 99.0
    ctx.count("path_node_writes_lost" if t.x()[1] != 99.0 else "path_node_writes_visible")


def run(ctx):
    rng = ctx.rng
    n_hist = ctx.scale(420, 8000)
    for k in range(n_hist):
        rc = G.random_recipe(rng, max_n=G.size_ladder(ctx, k, 8, 30, 120),
                             extras=int(rng.integers(0, 3)))
        if k % 25 == 3:  # trees large enough for long views
            rc = G.random_recipe(rng, max_n=120, shapes=["chain", "bamboo", "neuron", "recursive"],
                                 extras=0)
            rc["n"] = max(rc["n"], 60)
        case = {"tree": rc, "hseed": int(rng.integers(0, 2**31 - 1)),
                "length": int(rng.integers(20, 60 if ctx.quick else 200)),
                "alt_dtypes": bool(k % 4 == 3), "long_view": bool(k % 25 == 3)}
        wrote, copied = execute(ctx, case) or (0, 0)
        ctx.case(case, nontrivial=wrote >= 1 and copied >= 1,
                 klass=f"{rc['shape']}/{rc['numbering']}")
        if k % 6 == 2 and rc["n"] >= 3:
            _views_under_custom_names(ctx, case)
    _path_node_write_probe(ctx)
    if ctx.shard == 1 % ctx.nshards:
        _big_tree_relations(ctx)


def _dump_view(v):
    return [np.array(v.x()), np.array(v.y()), np.array(v.z()), np.array(v.r()), np.array(v.type()),
            np.array(v.id()), np.array(v.pid()), np.array(v.origin_id()), np.array(v.xyzr()), len(v)]


def _all_views(t):
    """Everything the views of one tree report, as plain data (for the custom-names comparison):
    attached views, detached copies, and the detached copies again after the owner was edited."""
    brs, ps, segs = t.get_branches(), t.get_paths(), t.get_segments()
    out = {"branches": [_dump_view(b) for b in brs], "paths": [_dump_view(p) for p in ps][:6],
           "segments": [_dump_view(s_) for s_ in list(segs)[:8]]}
    if len(segs):  # the collection-level accessors of the segment lists
        bsegs = brs[0].get_segments()
        out["segment_collections"] = [np.array(segs.id()), np.array(segs.xyz()), np.array(segs.r()),
                                      np.array(segs.xyzr()), np.array(segs.type()),
                                      np.array(bsegs.xyz()) if len(bsegs) else None]
    k = t.number_of_nodes() // 2
    nd = t.node(k)
    out["node"] = [nd.x, nd.y, nd.z, nd.r, int(nd.type), int(nd.id), int(nd.pid),
                   np.array(nd.xyz()), np.array(nd.xyzr())]
    det = [b.detach() for b in brs[:4]] + [p.detach() for p in ps[:3]] + \
          [s_.detach() for s_ in list(segs)[:3]]
    dn = nd.detach()
    out["detached"] = [_dump_view(d) for d in det]
    out["detached_node"] = [dn.x, dn.y, dn.z, dn.r, int(dn.type), int(dn.id), int(dn.pid)]
    for i in range(t.number_of_nodes()):  # the owner is edited afterwards: detached copies stay
        t.node(i).x = float(t.node(i).x) + 1000.0
        t.node(i).r = 7.0
    out["detached_after_owner_edit"] = [_dump_view(d) for d in det]
    out["detached_node_after"] = [dn.x, dn.r]
    out["attached_after_owner_edit"] = [_dump_view(b) for b in brs[:4]]
    return out


def _views_under_custom_names(ctx, case):
    spec = G.spec_from_recipe(case["tree"])
    tree = G.build(spec, share_ok=False)
    r = G.same_under_renaming(_all_views, tree, level=case["hseed"] % 2)
    ctx.count("views_compared_under_custom_column_names")
    if r:
        ctx.violation("custom-column-names", f"views / detached copies of a tree: {r}", case)
    r = G.same_under_ambient(lambda: _all_views(G.renamed(tree, -1)))
    if r:
        ctx.violation("ambient-state", f"views / detached copies of a tree: {r}", case)


def _big_tree_relations(ctx):
    """Segments and adjacency of a tree with tens of thousands of nodes (products of ids and the
    node count pass 2^31 beyond 46 340 nodes)."""
    n = 50000 if ctx.seed % 2 else 70000
    rc = {"shape": "recursive", "n": n, "numbering": "perm", "geom": "growth", "types": "soma",
          "extras": 0, "seed": 900 + ctx.seed}
    case = {"big_tree": rc}
    ctx.case(case, klass="big-tree")
    spec = G.spec_from_recipe(rc)
    t = G.build(spec, share_ok=False)
    pid = np.array(spec["pid"])
    ctx.count("big_tree_relations_checked")
    try:
        A = t.get_adjacency_matrix().tocoo()
        got = sorted(zip(A.row.tolist(), A.col.tolist()))
    except Exception as e:
        return ctx.violation("adjacency", f"get_adjacency_matrix of a {n}-node tree raised "
                                          f"{type(e).__name__}: {str(e)[:120]}", case)
    want = sorted((int(p), i) for i, p in enumerate(pid) if p >= 0)
    if got != want or A.shape != (n, n):
        return ctx.violation("adjacency", f"adjacency matrix of a {n}-node tree is not the parent "
                                          f"relation ({len(got)} entries for {len(want)} edges)", case)
    segs = t.get_segments()
    pairs = sorted((int(s_.origin_id()[0]), int(s_.origin_id()[1])) for s_ in list(segs)[::997])
    if len(segs) != n - 1 or any(pid[c] != p for p, c in pairs):
        ctx.violation("tree-segments", f"segments of a {n}-node tree are not its (parent, child) "
                                       f"pairs", case)


def replay(ctx, case):
    if "big_tree" in case:
        return

    ctx.case(case)
    execute(ctx, case)
