"""C14 — tree volume is the volume of the union of node spheres and connecting frusta.

Monitor: value comparison of ``get_volume(tree, accuracy=k)`` (and the feature front end) with
* for collinear admissible trees and every analytic level 3..9: the true union volume
  ``integral of pi * max_i rho_i(z)^2 dz`` over all node spheres and edge frusta (coaxial solids of
  revolution; quadrature with break points; shares nothing with the library's inclusion-
  exclusion),
* for levels 1 and 2 on arbitrary trees: the plain sums the statement names.
The generator builds admissible layouts (every compartment at least as long as both end radii;
non-adjacent parts apart, re-checked) as chains and as roots with two opposite arms, along a
random line in space; neighbouring spheres disjoint, tangent or overlapping.
"""

from __future__ import annotations

import warnings

import numpy as np
from scipy.integrate import quad

from rv import probes
from rv.gen import trees as G

PROPERTY = "C14"
LEVEL = "exploration"
TECHNIQUE = ("runtime monitoring: value comparison of get_volume / extract_feature(...).get("
             "'volume') with 1-D quadrature of pi*max(rho)^2 over all spheres and frusta of "
             "generated collinear admissible trees at accuracy 3..9 (chains and opposite-arm roots), "
             "and with plain sums at accuracy 1-2 on all tree shapes; call tap on the sampling "
             "estimator")
LEVEL_TEXT = ("Exploration: thousands of collinear trees (chains of 2-40 nodes, roots with two "
              "opposite arms; radii over two decades, tapering, growing, mixed; neighbouring spheres "
              "disjoint / tangent / overlapping; compartments exactly as long as the larger end "
              "radius up to 50x longer; lines in random and axis-aligned directions, far from the "
              "origin) at every analytic level 3..9 and the named levels, plus all generic shape "
              "classes at levels 1-2. Held = held on those executions."
              "The same skeleton is measured again with other radii, as a second tree object and after an in-place edit through node handles; half of the trees carry a file source."
              " One layout in three is expressed in another length unit (x 1e-3, 1e-2, 1e2, 1e3)."
              " Levels are also numpy integers / 0-d arrays; a failing get_volume call on an un-rebased table precedes a third of the measurements."
              " Trees derived by the library from used ones (levels 1-2); lines exactly along lattice diagonals."
              " Feature requests in tuple / list / dict spellings."
              " Pointed roots and inner nodes (radius exactly 0)."
              " Volumes of twins under custom column names and of a get_ndata-overriding subclass.")
LEVEL_NOTE = ("Levels 5-9 on a root with two opposite arms run the library's sampled "
              "cone-cone term (identically zero there); only a few such cases run per shard because "
              "each costs seconds. Tolerance rtol 2e-4 (the library accumulates in float32). "
              "Trusts scipy.integrate.quad.")
RULE = ("cases = (layout recipe: arms, node count, radii profile, spacing class, direction, offset) x "
        "accuracy level, or (generic tree recipe) x level 1-2; non-trivial when the tree has >= 2 "
        "nodes; distinct = distinct (recipe, level)")
ASSUMPTIONS = [
    "collinear layout: each compartment >= both end radii; non-adjacent parts do not overlap "
    "(re-checked by the generator)",
    "finite positive radii",
]
REQUIRED = ["union_volume_checked", "level1_checked", "level2_checked", "levels_3_4", "levels_5_9",
            "two_arm_roots", "two_arm_sampled_levels", "overlapping_neighbours",
            "tangent_neighbours", "disjoint_neighbours", "growing_radii", "tapering_radii",
            "frontend_checked", "named_levels_checked", "same_skeleton_other_radii",
            "zero_radius_tips", "zero_radius_roots_or_inner_nodes",
            "volumes_under_custom_names_and_subclasses", "far_exact_layouts", "other_length_units",
            "levels_as_numpy_integers", "failed_calls_before_measuring", "lattice_directions",
            "frontend_other_request_spellings"]
FLOOR = {"quick": 500, "thorough": 20000}
SHARDS = {"quick": 8, "thorough": 16}
TIMEOUT = {"quick": 400, "thorough": 3000}
RTOL = 2e-4


def layout(case):
    """Positions along the line (float64 z per node), radii, parent array."""
    rng = np.random.default_rng(case["seed"])
    arms = case["arms"]
    n_arm = [int(rng.integers(1, case["max_len"] + 1)) for _ in range(arms)]
    prof = case["profile"]
    r0 = float(10 ** rng.uniform(-1, 1)) * float(case.get("unit", 1.0))
    z, r, pid = [0.0], [r0], [-1]
    for a, m in enumerate(n_arm):
        sign = 1.0 if a == 0 else -1.0
        prev, zp, rp = 0, 0.0, r0
        for j in range(m):
            if prof == "uniform":
                rc = rp
            elif prof == "taper":
                rc = rp * float(rng.uniform(0.5, 1.0))
            elif prof == "grow":
                rc = rp * float(rng.uniform(1.0, 1.8))
            else:
                rc = rp * float(10 ** rng.uniform(-0.6, 0.6))
            rc = float(min(max(rc, 1e-2 * r0), 1e2 * r0))
            m_ = max(rp, rc)
            sp = case["spacing"]
            if sp == "tight":      # compartment exactly as long as the larger radius
                L = m_
            elif sp == "overlap":  # neighbouring spheres overlap
                L = m_ * float(rng.uniform(1.0, 1.0 + 0.9 * min(rp, rc) / m_))
            elif sp == "tangent":
                L = rp + rc
            elif sp == "apart":
                L = (rp + rc) * float(rng.uniform(1.05, 4))
            else:
                L = m_ * float(10 ** rng.uniform(0, 1.7))
            zc = zp + sign * L
            pid.append(prev)
            z.append(zc)
            r.append(rc)
            prev, zp, rp = len(z) - 1, zc, rc
        if case.get("zero_tip") and m >= 1:
            r[-1] = 0.0  # a tip that tapers to a point: a cone, a sphere of volume zero
        if case.get("zero_point") and m >= 1:
            # a pointed root, or a pointed node in the middle of the line (radius exactly 0 with
            # thicker neighbours): cones opening away from their parent end
            k_ = 0 if case["zero_point"] == "root" or m < 2 else len(r) - 1 - max(1, m // 2)
            r[k_] = 0.0
    return np.array(z), np.array(r), np.array(pid, dtype=np.int32)


def build(case):
    from swcgeom.core import Tree

    z, r, pid = layout(case)
    rng = np.random.default_rng(case["seed"] + 1)
    if case["dir"] == "axis":
        u = np.zeros(3)
        u[int(rng.integers(0, 3))] = float(rng.choice([-1, 1]))
    elif case["dir"] == "lattice":
        # exactly along a lattice direction: space / face diagonals and (1, 2, 2)-type vectors,
        # every sign pattern (all three coordinate steps of a compartment are then equal or in a
        # fixed small ratio, exactly)
        base = [(1, 1, 1), (1, 1, 0), (1, 0, 1), (0, 1, 1), (1, 2, 2), (2, 1, 2), (1, 1, 2)][
            int(rng.integers(0, 7))]
        u = np.array(base, dtype=np.float64) * rng.choice([-1.0, 1.0], 3)
        u /= np.linalg.norm(u)
    else:
        u = rng.normal(size=3)
        u /= np.linalg.norm(u)
    off = rng.normal(size=3) * case["offset"] * float(case.get("unit", 1.0))
    if case["dir"] == "lattice":
        off = np.zeros(3) if case["seed"] % 2 else np.full(3, float(np.round(off[0])))
    if case.get("far_exact"):
        # far from the origin but exactly representable: an axis-aligned line, positions on a
        # 1/4 grid, offset 2^18 (float32 spacing there is 1/32), so no rounding blurs the layout
        u = np.zeros(3)
        u[int(rng.integers(0, 3))] = float(rng.choice([-1, 1]))
        z = np.round(z * 4) / 4
        r = np.maximum(np.round(r * 8) / 8, 0.125) * (r > 0)
        off = np.array([262144.0, -262144.0, 131072.0])[rng.permutation(3)]
    xyz = (off + z[:, None] * u).astype(np.float32)
    r32 = r.astype(np.float32)
    typ = np.full(len(z), 3, dtype=np.int32)
    typ[0] = 1
    t = Tree(len(z), pid=pid.copy(), type=typ, x=xyz[:, 0].copy(), y=xyz[:, 1].copy(),
             z=xyz[:, 2].copy(), r=r32.copy(),
             source="/data/cells/neuron.swc" if case["seed"] % 2 else "")
    # positions as the library sees them, projected back on the line
    p = xyz.astype(np.float64)
    zz = (p - p[0]) @ u
    return t, zz, r32.astype(np.float64), pid


def admissible(zz, r, pid):
    """Re-check the statement's premise on the float32 layout. Returns None or a reason."""
    n = len(zz)
    for i in range(1, n):
        L = abs(zz[i] - zz[pid[i]])
        if L < max(r[i], r[pid[i]]) * (1 - 1e-6):
            return "compartment shorter than an end radius after float32 rounding"
    # z-intervals of solids: sphere i: [z-r, z+r]; non-adjacent parts must not overlap in measure
    ch = [[] for _ in range(n)]
    for i in range(1, n):
        ch[pid[i]].append(i)
    for i in range(n):
        for j in range(i + 1, n):
            if pid[j] == i or pid[i] == j:
                continue
            if abs(zz[i] - zz[j]) < (r[i] + r[j]) * (1 - 1e-9) and not (
                    pid[i] == pid[j] == 0 and np.sign(zz[i]) != np.sign(zz[j])
                    and abs(zz[i] - zz[j]) >= r[i] + r[j]):
                return "non-adjacent spheres overlap"
    return None


def true_union(zz, r, pid):
    n = len(zz)
    segs = [(zz[pid[i]], r[pid[i]], zz[i], r[i]) for i in range(1, n)]

    def rho2(z):
        m = 0.0
        for zc, rc in zip(zz, r):
            d = rc * rc - (z - zc) ** 2
            if d > m:
                m = d
        for z0, r0, z1, r1 in segs:
            lo, hi = (z0, z1) if z0 <= z1 else (z1, z0)
            if lo <= z <= hi and z1 != z0:
                v = (r0 + (r1 - r0) * (z - z0) / (z1 - z0)) ** 2
                if v > m:
                    m = v
        return m

    lo = min(zc - rc for zc, rc in zip(zz, r))
    hi = max(zc + rc for zc, rc in zip(zz, r))
    pts = set(zz.tolist())
    for zc, rc in zip(zz, r):
        pts.update([zc - rc, zc + rc])
    # kinks where a sphere profile crosses a frustum profile or another sphere's
    for z0, r0, z1, r1 in segs:
        L = z1 - z0
        for zc, rc, sgn in ((z0, r0, 1.0), (z1, r1, -1.0)):
            # sphere at zc radius rc against the line rho = r0 + (r1-r0)(z-z0)/L
            k = (r1 - r0) / L
            a = 1 + k * k
            b = -2 * zc + 2 * k * (r0 - k * z0)
            c = zc * zc + (r0 - k * z0) ** 2 - rc * rc
            disc = b * b - 4 * a * c
            if disc >= 0:
                for s in (-1, 1):
                    pts.add((-b + s * np.sqrt(disc)) / (2 * a))
        d = abs(L)
        if d > 0:
            pts.add(z0 + np.sign(L) * (d * d + r0 * r0 - r1 * r1) / (2 * d))
    pts = sorted(p for p in pts if lo < p < hi)
    total = 0.0
    edges = [lo] + pts + [hi]
    with warnings.catch_warnings():
        warnings.simplefilter("ignore")
        for a, b in zip(edges[:-1], edges[1:]):
            if b - a > 1e-14 * (1 + abs(a)):
                v, _ = quad(rho2, a, b, limit=200, epsabs=0, epsrel=1e-10)
                total += v
    return np.pi * total


def _classify(ctx, zz, r, pid):
    for i in range(1, len(zz)):
        p = pid[i]
        L = abs(zz[i] - zz[p])
        s = r[i] + r[p]
        if L < s * (1 - 1e-5):
            ctx.count("overlapping_neighbours")
        elif L <= s * (1 + 1e-5):
            ctx.count("tangent_neighbours")
        else:
            ctx.count("disjoint_neighbours")
        if r[i] > r[p] * (1 + 1e-6):
            ctx.count("growing_radii")
        elif r[i] < r[p] * (1 - 1e-6):
            ctx.count("tapering_radii")


def _level(ctx, acc, salt):
    """The accuracy level as callers hold it: a Python int, or a numpy integer / 0-d array that
    came out of an array of levels."""
    if not isinstance(acc, int) or salt % 3 == 0:
        return acc
    ctx.count("levels_as_numpy_integers")
    return [np.int64(acc), np.int32(acc), np.array(acc), np.intp(acc)][salt % 4]


def _failed_call_first(ctx, acc):
    """An earlier get_volume call at the same level that fails half-way (a table with 1-based ids
    that was never re-based: the walk runs past the arrays). The caller catches the error."""
    from swcgeom.analysis.volume import get_volume
    from swcgeom.core import Tree

    bad = Tree(4, id=np.array([1, 2, 3, 4], dtype=np.int32),
               pid=np.array([0, 1, 1, 2], dtype=np.int32),
               x=np.array([0, 2, -2, 4], dtype=np.float32), r=np.ones(4, dtype=np.float32))
    try:
        get_volume(bad, accuracy=acc)
    except BaseException as e:
        if isinstance(e, (KeyboardInterrupt, SystemExit)):
            raise
        ctx.count("failed_calls_before_measuring")


def _frontend_volume(ctx, fe, acc_arg, salt):
    """extract_feature(tree).get('volume', ...) in each of the documented request spellings."""
    form = salt % 4
    if form == 0:
        return float(fe.get("volume", accuracy=acc_arg)[0])
    ctx.count("frontend_other_request_spellings")
    if form == 1:
        return float(fe.get(("volume", {"accuracy": acc_arg}))[0])
    if form == 2:
        return float(fe.get([("volume", {"accuracy": acc_arg})])[0][0])
    return float(fe.get({"volume": {"accuracy": acc_arg}})["volume"][0])


def exec_union(ctx, case):
    from swcgeom.analysis import extract_feature
    from swcgeom.analysis.volume import get_volume

    tree, zz, r, pid = build(case)
    why = admissible(zz, r, pid)
    if why:
        ctx.skip("generated layout not admissible: " + why)
        return
    if case.get("zero_tip") and (r == 0).any():
        ctx.count("zero_radius_tips")
    if case.get("zero_point") and (r == 0).any():
        ctx.count("zero_radius_roots_or_inner_nodes")
    if case.get("far_exact"):
        ctx.count("far_exact_layouts")
    if case["dir"] == "lattice":
        ctx.count("lattice_directions")
    want = true_union(zz, r, pid)
    _classify(ctx, zz, r, pid)
    if case.get("unit", 1.0) != 1.0:
        ctx.count("other_length_units")
    # the library's documented absolute band eps = 1e-6: an end radius smaller than the other by
    # at most eps is treated as equal (hemisphere fast path); bounded like in C13
    band = 0.0
    for i in range(1, len(zz)):
        dr = abs(r[i] - r[pid[i]])
        if 0 < dr <= 1.5e-6:
            rb = max(r[i], r[pid[i]])
            band += 2 * np.pi * rb * min(abs(zz[i] - zz[pid[i]]), rb) * 1.5e-6
    if band:
        ctx.count("compartments_in_eps_band")
    two_arm = case["arms"] == 2 and len(zz) > 2 and (pid == 0).sum() == 2
    if two_arm:
        ctx.count("two_arm_roots")
    fe = extract_feature(tree) if case.get("frontend") else None  # one extractor, asked repeatedly
    if fe is not None:
        fe.get("volume", accuracy=1)
    for acc in case["levels"]:
        if isinstance(acc, int) and acc >= 5 and two_arm:
            ctx.count("two_arm_sampled_levels")
        if case["seed"] % 3 == 1:
            _failed_call_first(ctx, acc)
        acc_arg = _level(ctx, acc, case["seed"] + (acc if isinstance(acc, int) else 0))
        try:
            if case.get("frontend"):
                got = _frontend_volume(ctx, fe, acc_arg, case["seed"] // 7 + (
                    acc if isinstance(acc, int) else 0))
                ctx.count("frontend_checked")
            else:
                got = float(get_volume(tree, accuracy=acc_arg))
        except BaseException as e:  # sdflit panics are BaseException
            if isinstance(e, (KeyboardInterrupt, SystemExit)):
                raise
            return ctx.violation("volume-raised", f"accuracy={acc!r}: {type(e).__name__}: "
                                                  f"{str(e)[:200]}", case)
        ctx.count("union_volume_checked")
        if isinstance(acc, str):
            ctx.count("named_levels_checked")
        elif acc <= 4:
            ctx.count("levels_3_4")
        else:
            ctx.count("levels_5_9")
        if acc == case["levels"][0] and not case.get("frontend"):
            # the same skeleton with other radii (thinner: still admissible), as a second tree
            # object and as an in-place edit of the first: nothing computed before may be reused
            k_ = 0.5 if case["seed"] % 4 < 2 else 0.8
            r2 = (r * k_).astype(np.float32).astype(np.float64)
            want2 = true_union(zz, r2, pid)
            if case["seed"] % 2:
                t2 = tree.copy()
                t2.ndata["r"] = (tree.ndata["r"].astype(np.float64) * k_).astype(np.float32)
            else:
                t2 = tree
                for i_ in range(len(r2)):
                    t2.node(i_).r = np.float32(r2[i_])
            got2 = float(get_volume(t2, accuracy=acc))
            ctx.count("same_skeleton_other_radii")
            band2 = sum(2 * np.pi * max(r2[i], r2[pid[i]]) * 1.5e-6
                        * min(abs(zz[i] - zz[pid[i]]), max(r2[i], r2[pid[i]]))
                        for i in range(1, len(zz)) if 0 < abs(r2[i] - r2[pid[i]]) <= 1.5e-6)
            if not np.isfinite(got2) or abs(got2 - want2) > RTOL * want2 + band2:
                return ctx.violation(
                    "stale-volume",
                    f"accuracy={acc!r}: after the radii were multiplied by {k_} on the same "
                    f"skeleton the reported volume is {got2:.8g}, the union has {want2:.8g} (the "
                    f"first tree reported {got:.8g})", case)
            if t2 is tree:
                r, want = r2, want2
                got, band = got2, band2
        tol = RTOL * want * (2 if case.get("frontend") else 1) + band
        if not np.isfinite(got) or abs(got - want) > tol:
            return ctx.violation(
                "union-volume-wrong",
                f"accuracy={acc!r}: reported {got:.8g}, the union of spheres and frusta has volume "
                f"{want:.8g} (relative difference {abs(got - want) / want:.3g}); layout z="
                f"{np.round(zz, 4).tolist()[:8]} r={np.round(r, 4).tolist()[:8]} "
                f"pid={pid.tolist()[:8]}", case)


def exec_sums(ctx, case):
    from swcgeom.analysis import extract_feature
    from swcgeom.analysis.volume import get_volume

    spec = G.spec_from_recipe(case["tree"])
    tree = G.build(spec)
    if case["tree"]["seed"] % 4 == 1:
        # a tree the library derived (sorted / re-rooted / grown by a merged node) from a used one
        tree, spec = G.derive(tree, spec, int(case["tree"]["seed"]))
    r = spec["r"].astype(np.float64)
    xyz = np.stack([spec["x"], spec["y"], spec["z"]], axis=1).astype(np.float64)
    pid = spec["pid"]
    v1 = float((4 / 3 * np.pi * r ** 3).sum())
    v2 = v1
    for i, p in enumerate(pid):
        if p >= 0:
            h = float(np.linalg.norm(xyz[i] - xyz[p]))
            v2 += np.pi * h * (r[i] ** 2 + r[i] * r[p] + r[p] ** 2) / 3
    # a second tree with the same skeleton and other radii first (memo hazards)
    if case["tree"]["seed"] % 3 == 0 and not case.get("frontend"):
        t0 = tree.copy()
        t0.ndata["r"] = (t0.ndata["r"] * np.float32(1.7)).astype(np.float32)
        for acc in (1, 2):
            get_volume(t0, accuracy=acc)
        ctx.count("same_skeleton_other_radii")
    fe = extract_feature(tree) if case.get("frontend") else None
    for acc, want, cnt in ((1, v1, "level1_checked"), (2, v2, "level2_checked")):
        if case["tree"]["seed"] % 3 == 1:
            _failed_call_first(ctx, acc)
        acc_arg = _level(ctx, acc, case["tree"]["seed"] + acc)
        try:
            if case.get("frontend"):
                got = _frontend_volume(ctx, fe, acc_arg, case["tree"]["seed"] // 7 + acc)
                ctx.count("frontend_checked")
            else:
                got = float(get_volume(tree, accuracy=acc_arg))
        except BaseException as e:
            if isinstance(e, (KeyboardInterrupt, SystemExit)):
                raise
            return ctx.violation("volume-raised", f"accuracy={acc}: {type(e).__name__}: "
                                                  f"{str(e)[:200]}", case)
        ctx.count(cnt)
        if not np.isfinite(got) or abs(got - want) > RTOL * want:
            return ctx.violation(
                f"level{acc}-sum-wrong",
                f"accuracy={acc}: reported {got:.8g}, "
                f"{'sum of node spheres' if acc == 1 else 'sum of spheres and frusta'} = "
                f"{want:.8g} (n={len(pid)})", case)
    if case["tree"]["seed"] % 4 == 2 and type(tree).__name__ == "Tree":
        # other implementers of the same interface: a twin under custom column names, and a user
        # subclass that stores voxel units and reports physical ones through get_ndata
        def levels(t):
            return [float(get_volume(t, accuracy=a_)) for a_ in (1, 2)] + \
                   [float(np.asarray(extract_feature(t).get("volume", accuracy=2)).ravel()[0])]

        r = G.same_under_renaming(levels, tree, level=case["tree"]["seed"] // 4 % 2)
        ctx.count("volumes_under_custom_names_and_subclasses")
        if r is None:
            try:
                base_ = G.renamed(tree, -1)  # (like with like: both sides in the library's dtypes)
                a_, b_ = levels(base_), levels(G.voxel_twin(base_))
                r = G._same(a_, b_, "volume levels 1, 2 and the front end")
                r = r and f"for a Tree subclass reporting its columns through get_ndata: {r}"
            except Exception as e:
                r = f"a Tree subclass overriding get_ndata: raised {type(e).__name__}: {str(e)[:100]}"
        if r:
            return ctx.violation("other-implementer", f"get_volume: {r}", case)
        r = G.same_under_ambient(lambda: levels(tree) + [float(get_volume(tree, accuracy=3))],
                                 pick=case["tree"]["seed"] // 4)
        if r:
            return ctx.violation("ambient-state", f"get_volume: {r}", case)


def execute(ctx, case):
    with warnings.catch_warnings():
        warnings.simplefilter("ignore")
        if case["kind"] == "union":
            exec_union(ctx, case)
        else:
            exec_sums(ctx, case)


def run(ctx):
    from swcgeom.utils import volumetric_object as vo

    rng = ctx.rng
    tap = probes.CallTap({"mc": vo.VolMCObject._get_volume})
    sampled_budget = 3 if ctx.quick else 12
    with tap:
        for k in range(ctx.scale(900, 36000)):
            if k % 3 == 2:
                rc = G.random_recipe(rng, max_n=G.size_ladder(ctx, k, 8, 40, 200), extras=0)
                case = {"kind": "sums", "tree": rc, "frontend": bool(rng.random() < 0.2)}
                ctx.case(case, nontrivial=rc["n"] >= 2, klass="sums/" + rc["shape"])
                execute(ctx, case)
                continue
            arms = 1 if rng.random() < 0.65 else 2
            case = {"kind": "union", "seed": int(rng.integers(0, 2**31 - 1)), "arms": arms,
                    "max_len": int(rng.choice([1, 2, 3, 6, 12, 39 if arms == 1 else 19])),
                    "profile": str(rng.choice(["uniform", "taper", "grow", "mixed", "mixed"])),
                    "spacing": str(rng.choice(["tight", "overlap", "overlap", "tangent", "apart",
                                               "long"])),
                    "dir": str(rng.choice(["axis", "random", "random", "lattice"])),
                    "offset": float(rng.choice([0.0, 10.0, 300.0])),
                    "frontend": bool(rng.random() < 0.15),
                    "zero_tip": bool(rng.random() < 0.15), "far_exact": bool(rng.random() < 0.12)}
            if rng.random() < 0.15:
                case["zero_point"] = str(rng.choice(["root", "inner"]))
            if not case["far_exact"] and rng.random() < 0.3:
                # the same shapes expressed in another length unit (mm, nm, ...)
                case["unit"] = float(rng.choice([1e-3, 1e-2, 1e2, 1e3]))
            if arms == 1:
                lv = [3, 4] + [int(x) for x in rng.choice([5, 6, 7, 8, 9], 2, replace=False)]
                if rng.random() < 0.3:
                    lv.append(str(rng.choice(["low", "middle", "high"])))
            else:
                lv = [3, 4]
                if rng.random() < 0.2:
                    lv.append("low")
                if sampled_budget > 0 and rng.random() < 0.1:
                    sampled_budget -= 1
                    lv.append(int(rng.choice([5, 7, 9])))
                    if rng.random() < 0.5:
                        lv.append("middle")
            case["levels"] = lv
            ctx.case(case, klass=f"union/arms={arms}/{case['spacing']}")
            execute(ctx, case)
        while sampled_budget > 0:  # make sure the sampled levels on two-arm roots were exercised
            sampled_budget -= 1
            case = {"kind": "union", "seed": int(rng.integers(0, 2**31 - 1)), "arms": 2,
                    "max_len": 2, "profile": "mixed", "spacing": "overlap", "dir": "random",
                    "offset": 10.0, "frontend": False, "levels": [int(rng.choice([5, 6, 8, 9]))]}
            ctx.case(case, klass="union/arms=2/sampled")
            execute(ctx, case)
    ctx.count("tap_sampling_estimator_calls", tap.counts["mc"])


def replay(ctx, case):
    ctx.case(case)
    execute(ctx, case)
