"""C16 — resampling and smoothing keep the neuron's shape.

Monitor: geometric post-condition on every resampling / smoothing call, computed in float64 from
the input tree only: critical nodes (root, furcations, tips) matched by exact position+radius,
same critical connectivity, every output branch sampled on the *input polyline* of that branch
at equal arc-length steps no longer than the spacing with linearly interpolated radii, total
length not growing; end points / node count / connectivity / radii fixed under smoothing.  The
same resampler instance is applied twice to the same tree object (state carried between calls
would show), inputs are fingerprinted, and the C03 contract set stays installed.
"""

from __future__ import annotations

import warnings
from collections import Counter

import numpy as np

from rv import contracts, probes
from rv.gen import trees as G
from rv.oracles import topo

PROPERTY = "C16"
LEVEL = "exploration"
TECHNIQUE = ("runtime monitoring: geometric post-condition on IsometricResampler / "
             "BranchIsometricResampler / BranchLinearResampler / BranchConvSmoother / TreeSmoother "
             "calls against a float64 arc-length reference built from the input polyline (critical "
             "nodes by exact key, connectivity multiset, expected sample positions and radii at "
             "k*L/m, step <= spacing, length not growing); instance reuse on the same tree; input "
             "fingerprints; C03 contract set active")
LEVEL_TEXT = ("Exploration: thousands of (tree, spacing) cases over all shape classes (incl. roots "
              "with one child, non-soma roots, two-node branches, zero-length segments and whole "
              "zero-length branches, integer segment lengths so that L/spacing is exactly integral), "
              "spacings from 1e-2 to 10 branch lengths; single branches resampled to 2-50 points; "
              "smoothing windows 1-9 incl. longer than the branch. Held = held on those executions."
              " Generated trees come in several representations of the same values (strided, other dtypes / lists, one array as two columns, read-only where the harness never writes) and half of them were queried, a third put through aborted operations, before use. Resampler / assembler objects are also re-used after a call they rejected."
              " Trees derived by the library from used ones; BranchTree inputs; size sweep and one tree of 5*10^4 nodes."
              " One case per shard whose spacing needs more than 8191 steps on one branch."
              " One branch operator applied to a second branch while the first result is held."
              " Metre-scale trees with purely relative tolerances; twins under custom column names and a get_ndata-overriding subclass."
              " Results overwritten in place, then the same operator on the same branch again.")
LEVEL_NOTE = ("Critical nodes have pairwise distinct (position, radius) keys by construction. "
              "Nothing is demanded of smoothed interior positions (the statement does not fix the "
              "kernel); adjust_last_gap=False is outside the statement ('equal steps'). Tolerance "
              "1e-4*(1+scale) on float32 coordinates; that the step count is ceil(L/spacing) is "
              "recorded, not demanded.")
RULE = ("cases = (tree recipe, operation, spacing / n / window); non-trivial when the tree has >= 3 "
        "nodes; distinct = distinct case descriptions")
ASSUMPTIONS = [
    "critical nodes (root, furcations, tips) have distinct (x, y, z, r) keys",
    "spacing > 0; finite coordinates",
]
REQUIRED = ["branch_results_kept_across_calls", "branches_from_positions_only", "branches_from_a_batch", "branch_results_overwritten_then_asked_again", "resamplings_under_custom_names_and_subclasses", "tree_resamplings", "branches_checked", "sample_points_checked", "zero_length_branches",
            "two_node_branches_longer_than_spacing", "exact_multiple_spacings", "root_one_child",
            "non_soma_roots", "instance_reused", "branch_isometric_checked", "integer_coordinate_branches",
            "branch_linear_checked", "branch_smoother_checked", "tree_smoother_checked", "assembler_identity_checked",
            "tap_assembler", "tap_resample", "rejected_calls_before_resampling",
            "branch_trees_resampled", "size_sweep_cases", "spacings_finer_than_8191_steps"]
FLOOR = {"quick": 850, "thorough": 17000}
SHARDS = {"quick": 8, "thorough": 16}
TOL = 1e-4


def _key(xyzr_row):
    return tuple(np.asarray(xyzr_row, dtype=np.float32).tolist())


def _xyzr(tree):
    return np.stack([tree.ndata[k] for k in "xyzr"], axis=1)


def _cum(poly):
    seg = np.linalg.norm(np.diff(poly[:, :3], axis=0), axis=1)
    return np.concatenate([[0.0], np.cumsum(seg)])


def _interp_poly(poly, s, cum=None):
    """(lo, hi, L): componentwise bounds of the point (x,y,z,r) at arc length s on the polyline.

    lo == hi except at a zero-length segment, where the radius (and nothing else) may jump: any
    value between the two coincident nodes' values is 'linear interpolation' there."""
    if cum is None:
        cum = _cum(poly)
    L = cum[-1]
    if len(poly) == 1:
        return poly[0], poly[0], L
    i0 = int(np.searchsorted(cum, s, side="left"))   # first index with cum >= s
    i1 = int(np.searchsorted(cum, s, side="right"))  # first index with cum > s
    cands = []
    lo_seg = max(i0 - 1, 0)
    hi_seg = min(i1 - 1, len(poly) - 2)
    for i in range(lo_seg, hi_seg + 1):
        d = cum[i + 1] - cum[i]
        if d <= 0:
            cands.extend([poly[i], poly[i + 1]])
        else:
            t = min(max((s - cum[i]) / d, 0.0), 1.0)
            cands.append(poly[i] + t * (poly[i + 1] - poly[i]))
    if not cands:
        cands = [poly[-1] if s >= L else poly[0]]
    c = np.array(cands)
    return c.min(axis=0), c.max(axis=0), L


def _interp_range(poly, cum, s, ds):
    """Bounds of the point at arc length s when the arc-length parameter itself is only known to
    +-ds (the library accumulates segment lengths in float32: about 1e-7 relative per node). Every
    coordinate is piecewise linear in s, so its extremes over [s-ds, s+ds] are attained at the
    interval's ends or at the nodes inside it."""
    L = cum[-1]
    a, b = max(0.0, s - ds), min(L, s + ds)
    lo1, hi1, _ = _interp_poly(poly, a, cum)
    lo2, hi2, _ = _interp_poly(poly, b, cum)
    lo, hi = np.minimum(lo1, lo2), np.maximum(hi1, hi2)
    i0 = int(np.searchsorted(cum, a, side="left"))
    i1 = int(np.searchsorted(cum, b, side="right"))
    if i1 > i0:
        inner = poly[i0:i1]
        lo, hi = np.minimum(lo, inner.min(axis=0)), np.maximum(hi, inner.max(axis=0))
    return lo, hi


def _off(got, lo, hi):
    """Distance of got from the box [lo, hi], componentwise."""
    return np.maximum(np.maximum(lo - got, got - hi), 0.0)


def check_resampled_tree(ctx, case, tin, tout, spacing, what):
    pid_i, pid_o = tin.pid(), tout.pid()
    wf = topo.well_formed(tout.id(), pid_o)
    if wf:
        return ctx.violation("malformed-result", f"{what}: {wf}", case)
    Xi, Xo = _xyzr(tin), _xyzr(tout)
    Xi64 = Xi.astype(np.float64)
    bi, bo = topo.branches(pid_i), topo.branches(pid_o)
    scale = max(float(np.abs(Xi64[:, :3]).max()), 1e-30)  # (relative: any length unit)
    # critical nodes and their connectivity, by exact keys
    ci = Counter((_key(Xi[b[0]]), _key(Xi[b[-1]])) for b in bi)
    co = Counter((_key(Xo[b[0]]), _key(Xo[b[-1]])) for b in bo)
    if _key(Xi[0]) != _key(Xo[0]):
        return ctx.violation("root-moved", f"{what}: root is {Xo[0].tolist()}, was {Xi[0].tolist()}",
                             case)
    if ci != co:
        miss = list((ci - co).keys())[:2]
        extra = list((co - ci).keys())[:2]
        return ctx.violation(
            "critical-connectivity",
            f"{what}: the root / furcations / tips or the connections between them changed: "
            f"{len(bi)} input branches, {len(bo)} output branches; missing {miss}, unexpected "
            f"{extra}", case)
    by_key = {}
    for b in bo:
        by_key.setdefault((_key(Xo[b[0]]), _key(Xo[b[-1]])), []).append(b)
    for b in bi:
        k = (_key(Xi[b[0]]), _key(Xi[b[-1]]))
        o = by_key[k].pop()
        poly = Xi64[list(b)]
        cum = _cum(poly)
        L = cum[-1]
        m = len(o) - 1
        ctx.count("branches_checked")
        if L == 0:
            ctx.count("zero_length_branches")
        if len(b) == 2 and L > spacing * (1 + 1e-3):
            ctx.count("two_node_branches_longer_than_spacing")
        step = L / m
        if step > spacing * (1 + 1e-4) + 1e-7 * scale:
            return ctx.violation(
                "step-longer-than-spacing",
                f"{what}: a branch of length {L:.6g} ({len(b)} input nodes) came back with {m} "
                f"step(s) of {step:.6g} > spacing {spacing:.6g}", case)
        want_m = max(1, int(np.ceil(L / spacing - 1e-9)))
        if m != want_m:
            ctx.count("diagnostic_steps_not_ceil")
        if L > 0 and abs(L / spacing - round(L / spacing)) < 1e-9:
            ctx.count("exact_multiple_spacings")
        got = Xo[list(o)].astype(np.float64)
        ds = (2e-7 * len(b) + 2e-6) * L
        for j in range(1, m):  # (the end points were matched exactly above)
            lo, hi = _interp_range(poly, cum, step * j, ds)
            ctx.count("sample_points_checked")
            off = _off(got[j], lo, hi)
            if off[:3].max() > TOL * scale:
                return ctx.violation(
                    "off-polyline-or-unequal-steps",
                    f"{what}: node {j} of {m + 1} on a branch of length {L:.5g} is at "
                    f"{got[j, :3].round(4).tolist()}, arc length {step * j:.5g} on the original "
                    f"polyline is {lo[:3].round(4).tolist()}", case)
            if off[3] > TOL * (1 + abs(hi[3])):
                return ctx.violation(
                    "radius-not-interpolated",
                    f"{what}: node {j} of {m + 1} has radius {got[j, 3]:.6g}, linear interpolation "
                    f"along the branch gives {lo[3]:.6g}..{hi[3]:.6g}", case)
    lin, lout = _length(Xi64, pid_i), _length(Xo.astype(np.float64), pid_o)
    if lout > lin * (1 + 1e-4) + 1e-6 * scale:
        return ctx.violation("length-grew", f"{what}: total length {lout:.6g} > input {lin:.6g}",
                             case)
    # types follow the nodes: critical nodes keep theirs
    ti = {_key(Xi[v]): int(tin.type()[v]) for b in bi for v in (b[0], b[-1])}
    for b in bo:
        for v in (b[0], b[-1]):
            if ti[_key(Xo[v])] != int(tout.type()[v]):
                return ctx.violation("critical-type-changed", f"{what}: type of a critical node "
                                                              f"changed", case)
    return None


def _length(X, pid):
    return float(sum(np.linalg.norm(X[i, :3] - X[p, :3]) for i, p in enumerate(pid) if p >= 0))


def distinct_critical_keys(spec):
    pid = spec["pid"]
    root, fur, tips = topo.critical_nodes(pid)
    crit = sorted({root, *fur, *tips})
    keys = {(float(spec["x"][c]), float(spec["y"][c]), float(spec["z"][c]), float(spec["r"][c]))
            for c in crit}
    return len(keys) == len(crit)


def exec_tree(ctx, case):
    from swcgeom.transforms import IsometricResampler

    spec = G.spec_from_recipe(case["tree"])
    if not distinct_critical_keys(spec):
        ctx.skip("critical nodes not distinct by (position, radius)")
        return
    tree = G.build(spec, with_tag=False)
    sd_ = int(case["tree"]["seed"])
    if sd_ % 5 == 1:
        # a tree the library derived (sorted / re-rooted / grown by a merged node) from a used one
        tree, spec = G.derive(tree, spec, sd_)
        if not distinct_critical_keys(spec):
            return ctx.skip("critical nodes not distinct by (position, radius)")
    elif sd_ % 5 == 2 and len(spec["pid"]) >= 3:
        # the library's own reduced form of the neuron (a BranchTree: root, furcations and tips
        # joined by straight edges) is a tree too: resampling it resamples *those* edges
        from swcgeom.core import BranchTree

        tree = BranchTree.from_tree(tree)
        spec = {k: np.array(v, copy=True) for k, v in tree.ndata.items() if k != "id"}
        ctx.count("branch_trees_resampled")
    pid = spec["pid"]
    ch = topo.children_lists(pid)
    if len(ch[0]) == 1:
        ctx.count("root_one_child")
    if int(spec["type"][0]) != 1:
        ctx.count("non_soma_roots")
    X = _xyzr(tree).astype(np.float64)
    lens = [_cum(X[list(b)])[-1] for b in topo.branches(pid)]
    ref = float(np.median(lens)) if lens and np.median(lens) > 0 else 1.0
    mode = case["spacing_mode"]
    if mode == "rel":
        spacing = ref * case["factor"]
    elif mode == "abs":
        spacing = case["factor"]
    else:  # a divisor of some branch length: L/spacing exactly integral on integer geometry
        pos = [l for l in lens if l > 0]
        spacing = (pos[case["pick"] % len(pos)] / case["div"]) if pos else 1.0
    spacing = float(max(spacing, 1e-3 * ref, 1e-6))
    cap = 2500 if ctx.quick else 20000
    if case.get("fine"):
        # a spacing so fine that the longest branch alone takes more than 8191 / 16383 steps
        spacing = max(lens) / float(case["fine"]) if lens and max(lens) > 0 else spacing
        cap = 10**9
        ctx.count("spacings_finer_than_8191_steps")
    if sum(lens) / spacing > cap:
        spacing = sum(lens) / cap
    fp = contracts.fingerprint(tree)
    if case["tree"]["seed"] % 3 == 0:
        spacing = float(np.float32(spacing))
        rs = IsometricResampler(np.float32(spacing))  # callers pass numpy scalars too
    elif case["tree"]["seed"] % 3 == 1 and spacing >= 1 and spacing == int(spacing):
        rs = IsometricResampler(int(spacing))
    else:
        rs = IsometricResampler(spacing)
    if case["tree"]["seed"] % 2:
        _rejected_call_first(ctx, rs)
    out = rs(tree)
    ctx.count("tree_resamplings")
    if check_resampled_tree(ctx, case, tree, out, spacing, f"IsometricResampler({spacing:.6g})"):
        return
    if contracts.fingerprint(tree) != fp:
        return ctx.violation("input-mutated", "IsometricResampler modified its input tree", case)
    # the same instance on the same tree object again
    out2 = rs(tree)
    ctx.count("instance_reused")
    if check_resampled_tree(ctx, case, tree, out2, spacing,
                            f"second call of the same IsometricResampler({spacing:.6g}) instance "
                            f"on the same tree"):
        return
    if case["tree"]["seed"] % 4 == 1 and type(tree).__name__ == "Tree" and \
            out.number_of_nodes() < 3000:
        # other implementers of the same interface: a twin under custom column names, and a user
        # subclass that stores voxel units and reports physical ones through get_ndata
        from swcgeom.transforms import TreeSmoother

        def both(t_):
            return [IsometricResampler(spacing)(t_), TreeSmoother(3)(t_)]

        r = G.same_under_renaming(both, tree, level=case["tree"]["seed"] // 4 % 2)
        ctx.count("resamplings_under_custom_names_and_subclasses")
        if r is None:
            try:
                base_ = G.renamed(tree, -1)  # (like with like: both sides in the library's dtypes)
                r = G._same(IsometricResampler(spacing)(base_),
                            IsometricResampler(spacing)(G.voxel_twin(base_)))
                r = r and f"for a Tree subclass reporting its columns through get_ndata: {r}"
            except Exception as e:
                r = f"a Tree subclass overriding get_ndata: raised {type(e).__name__}: {str(e)[:100]}"
        if r:
            return ctx.violation("other-implementer", f"IsometricResampler({spacing:.6g}): {r}", case)
        r = G.same_under_ambient(lambda: both(tree), pick=case["tree"]["seed"] // 4)
        if r:
            return ctx.violation("ambient-state", f"IsometricResampler({spacing:.6g}): {r}", case)
    if case.get("idempotent_probe") and out.number_of_nodes() < 4000:
        # resampling the resampled tree with the same spacing is again a valid resampling of it
        out3 = rs(out)
        check_resampled_tree(ctx, case, out, out3, spacing, "resampling of a resampled tree")


def _odd_tree(names=None):
    from swcgeom.core import Tree
    from swcgeom.core.swc import SWCNames

    nm = names or SWCNames()
    cols = {nm.id: np.arange(8), nm.type: np.array([1, 3, 3, 3, 3, 3, 3, 3]),
            nm.x: np.array([0, 2, 4, 6, 8, 6, 8, 2], dtype=np.float32) + 10,
            nm.y: np.array([0, 0, 1, 3, 4, -2, -5, 5], dtype=np.float32) - 10,
            nm.z: np.array([0, 1, 0, 2, 2, 0, 1, 0], dtype=np.float32),
            nm.r: np.array([3, 1, 1, 0.8, 0.5, 0.7, 0.4, 0.6], dtype=np.float32),
            nm.pid: np.array([-1, 0, 1, 2, 3, 2, 5, 0])}
    return Tree(8, names=names, **cols)


def _rejected_call_first(ctx, transform):
    """An earlier call of the same transform object that fails half-way (one member of a batch
    the transform cannot handle -- a path where a tree was expected; the caller's try/except skips
    it).  (Until round 12 this was a tree with other column names, which the library could not
    resample; it can now.)"""
    try:
        transform("/data/cells/not-loaded-yet.swc")
    except Exception:
        ctx.count("rejected_calls_before_resampling")


def exec_assembler(ctx, case):
    """BranchTreeAssembler on an untouched branch tree gives back the same attributed tree (up to
    numbering): every node once, same parent relation, same types and radii."""
    from swcgeom.core import BranchTree
    from swcgeom.transforms.branch_tree import BranchTreeAssembler

    spec = G.spec_from_recipe(case["tree"])
    n = len(spec["pid"])
    keys = [(float(spec["x"][i]), float(spec["y"][i]), float(spec["z"][i]), float(spec["r"][i]))
            for i in range(n)]
    if len(set(keys)) != n or n < 2:
        ctx.skip("nodes not distinct by (position, radius)")
        return
    tree = G.build(spec, with_tag=False)
    fp = contracts.fingerprint(tree)
    asm = BranchTreeAssembler()
    if case["tree"]["seed"] % 2:
        bad = BranchTree.from_tree(_odd_tree())
        k_ = max(bad.branches)
        bad.branches[k_] = bad.branches[k_][:-1]  # an inconsistent branch tree: rejected
        try:
            asm(bad)
        except Exception:
            ctx.count("rejected_calls_before_resampling")
    out = asm(BranchTree.from_tree(tree))
    ctx.count("assembler_identity_checked")
    wf = topo.well_formed(out.id(), out.pid())
    if wf:
        return ctx.violation("malformed-result", f"BranchTreeAssembler: {wf}", case)
    Xo = _xyzr(out)
    ko = [tuple(float(v) for v in Xo[i]) for i in range(len(Xo))]
    if sorted(ko) != sorted(keys):
        return ctx.violation("assembler-nodes", f"BranchTreeAssembler returned {len(ko)} nodes for "
                                                f"{n}; {len(set(keys) - set(ko))} missing, "
                                                f"{len(set(ko) - set(keys))} unexpected", case)
    rel_in = {keys[i]: (keys[p] if p >= 0 else None) for i, p in enumerate(spec["pid"])}
    rel_out = {ko[i]: (ko[p] if p >= 0 else None) for i, p in enumerate(out.pid())}
    if rel_in != rel_out:
        return ctx.violation("assembler-edges", "BranchTreeAssembler changed the parent relation",
                             case)
    typ_in = {keys[i]: int(spec["type"][i]) for i in range(n)}
    if any(typ_in[ko[i]] != int(out.type()[i]) for i in range(n)):
        return ctx.violation("assembler-types", "BranchTreeAssembler changed node types", case)
    if contracts.fingerprint(tree) != fp:
        return ctx.violation("input-mutated", "assembling modified the source tree", case)


def exec_branch(ctx, case):
    from swcgeom.core import Branch
    from swcgeom.transforms import BranchConvSmoother, BranchLinearResampler
    from swcgeom.transforms.branch import BranchIsometricResampler

    spec = G.spec_from_recipe(case["tree"])
    tree = G.build(spec, with_tag=False)
    brs = tree.get_branches()
    if not brs:
        ctx.skip("tree without branches")
        return
    br = brs[case["pick"] % len(brs)]
    if case.get("detached"):
        if case["pick"] % 3 == 1:
            # positions only: the radius is filled with 1 (documented), the branch is that polyline
            br = Branch.from_xyzr(br.xyzr()[:, :3].copy())
            ctx.count("branches_from_positions_only")
        elif case["pick"] % 3 == 2 and len(br) >= 3:
            # one of a batch of equally long branches (here: the branch and its reversal)
            both_ = np.stack([br.xyzr(), br.xyzr()[::-1]]).astype(np.float32)
            br = Branch.from_xyzr_batch(both_)[1]
            ctx.count("branches_from_a_batch")
        else:
            br = Branch.from_xyzr(br.xyzr().copy())
    if case.get("int_coords"):
        # a branch given in integer (voxel) coordinates: resampled points lie between voxels
        xi = np.round(br.xyzr() * 2).astype(np.int64)
        xi[:, 3] = np.maximum(xi[:, 3], 1)
        br = Branch.from_xyzr(xi)
        ctx.count("integer_coordinate_branches")
    poly = br.xyzr().astype(np.float64)
    fp = contracts.fingerprint(tree)
    cum = _cum(poly)
    L = cum[-1]
    scale = max(float(np.abs(poly[:, :3]).max()), 1e-30)  # (relative: any length unit)
    op = case["op"]
    if op == "linear":
        n = case["n"]
        if case.get("int_coords") and case.get("direct"):
            got = np.asarray(BranchLinearResampler(n).resample(xi)).astype(np.float64)
        else:
            got = BranchLinearResampler(n)(br).xyzr().astype(np.float64)
        ctx.count("branch_linear_checked")
        if len(got) != n:
            return ctx.violation("linear-count", f"BranchLinearResampler({n}) returned {len(got)} "
                                                 f"points", case)
        for j in range(n):
            if j == 0 or j == n - 1:
                lo = hi = poly[0] if j == 0 else poly[-1]
            else:
                lo, hi = _interp_range(poly, cum, L * j / (n - 1), (2e-7 * len(poly) + 2e-6) * L)
            tol = (TOL if 0 < j < n - 1 else 1e-6) * scale
            if _off(got[j], lo, hi).max() > tol:
                return ctx.violation(
                    "linear-endpoint-moved" if j in (0, n - 1) else "off-polyline-or-unequal-steps",
                    f"BranchLinearResampler({n}): point {j} is {got[j].round(5).tolist()}, "
                    f"expected {lo.round(5).tolist()}", case)
    elif op == "isometric":
        d = max(case["factor"] * (L if L > 0 else 1.0), 1e-6)
        if L / d > 5000:
            d = L / 5000
        if case.get("int_coords") and case.get("direct"):
            got = np.asarray(BranchIsometricResampler(d).resample(xi)).astype(np.float64)
        else:
            got = BranchIsometricResampler(d)(br).xyzr().astype(np.float64)
        ctx.count("branch_isometric_checked")
        m = len(got) - 1
        if m == 0:
            if L > 0:
                return ctx.violation("branch-collapsed", f"BranchIsometricResampler({d:.4g}) "
                                                         f"returned one point for length {L:.4g}",
                                     case)
            return
        step = L / m
        if step > d * (1 + 1e-4) + 1e-7 * scale:
            return ctx.violation("step-longer-than-spacing",
                                 f"BranchIsometricResampler({d:.5g}): {m} steps of {step:.5g} on a "
                                 f"branch of length {L:.5g}", case)
        for j in range(m + 1):
            if j == 0 or j == m:
                lo = hi = poly[0] if j == 0 else poly[-1]
            else:
                lo, hi = _interp_range(poly, cum, step * j, (2e-7 * len(poly) + 2e-6) * L)
            tol = (TOL if 0 < j < m else 1e-6) * scale
            if _off(got[j], lo, hi).max() > tol:
                return ctx.violation(
                    "endpoint-moved" if j in (0, m) else "off-polyline-or-unequal-steps",
                    f"BranchIsometricResampler({d:.5g}): point {j}/{m} is "
                    f"{got[j].round(5).tolist()}, expected {lo.round(5).tolist()}", case)
    else:  # smoother
        w = case["window"]
        out = BranchConvSmoother(w)(br)
        ctx.count("branch_smoother_checked")
        got = out.xyzr()
        src = br.xyzr()
        if len(got) != len(src):
            return ctx.violation("smoother-count", f"BranchConvSmoother({w}) changed the node count "
                                                   f"{len(src)} -> {len(got)}", case)
        if not (np.array_equal(got[0], src[0]) and np.array_equal(got[-1], src[-1])):
            return ctx.violation("smoother-endpoint-moved",
                                 f"BranchConvSmoother({w}) moved an end point: "
                                 f"{src[0].tolist()}->{got[0].tolist()} / "
                                 f"{src[-1].tolist()}->{got[-1].tolist()}", case)
        if not np.array_equal(got[:, 3], src[:, 3]):
            return ctx.violation("smoother-radius-changed", f"BranchConvSmoother({w}) changed radii",
                                 case)
        if not np.isfinite(got).all():
            return ctx.violation("smoother-nonfinite", f"BranchConvSmoother({w}) produced "
                                                       f"non-finite coordinates", case)
    # one operator object used on two branches, the first result still in use (comparing a branch
    # with its partner): the second call leaves the first result alone
    if op == "linear":
        tf_ = BranchLinearResampler(case["n"])
    elif op == "isometric":
        tf_ = BranchIsometricResampler(d)
    else:
        tf_ = BranchConvSmoother(case["window"])
    partner = Branch.from_xyzr(br.xyzr()[::-1].copy() * np.float32(1.5))
    first = tf_(br)
    x_first = first.xyzr().copy()
    second = tf_(partner)
    ctx.count("branch_results_kept_across_calls")
    if not np.array_equal(first.xyzr(), x_first, equal_nan=True):
        return ctx.violation("earlier-result-changed",
                             f"{type(tf_).__name__}: the branch returned for one branch changed when "
                             f"the same operator was applied to another branch", case)
    # the result belongs to the caller: overwritten in place (centring, normalising), then the same
    # branch is put through the same operator again
    for v_ in first.attach.ndata.values():
        if v_.flags.writeable and v_.dtype.kind == "f":
            v_ -= np.float32(12.5)
    redo = tf_(br)
    raw = None
    if op != "smooth" and hasattr(tf_, "resample"):
        raw = tf_.resample(br.xyzr())
        keep_raw = np.array(raw, copy=True)
        raw[...] = -1.0
        raw = tf_.resample(br.xyzr())
    ctx.count("branch_results_overwritten_then_asked_again")
    if not np.array_equal(redo.xyzr(), x_first, equal_nan=True) or (
            raw is not None and not np.array_equal(raw, keep_raw, equal_nan=True)):
        return ctx.violation("edit-leaks-to-later-result",
                             f"{type(tf_).__name__}: after the caller overwrote the returned branch "
                             f"in place, the same operator on the same branch returns another "
                             f"result", case)
    if any(np.shares_memory(a_, b_) for a_ in first.attach.ndata.values()
           for b_ in second.attach.ndata.values()):
        return ctx.violation("results-share-storage",
                             f"{type(tf_).__name__}: two results of one operator share storage", case)
    if contracts.fingerprint(tree) != fp:
        ctx.violation("input-mutated", f"branch operation {op} modified the tree its branch "
                                       f"belongs to", case)


def exec_smooth_tree(ctx, case):
    from swcgeom.transforms import TreeSmoother

    spec = G.spec_from_recipe(case["tree"])
    tree = G.build(spec)
    fp = contracts.fingerprint(tree)
    w = case["window"]
    sm = TreeSmoother(w)
    out = sm(tree)
    ctx.count("tree_smoother_checked")
    if out.number_of_nodes() != tree.number_of_nodes():
        return ctx.violation("smoother-count", f"TreeSmoother({w}) changed the node count", case)
    for k, v in tree.ndata.items():
        if k in "xyz":
            continue
        if not np.array_equal(out.ndata[k], v):
            return ctx.violation("smoother-column-changed",
                                 f"TreeSmoother({w}) changed column {k!r}", case)
    root, fur, tips = topo.critical_nodes(spec["pid"])
    for c in sorted({root, *fur, *tips}):
        for k in "xyz":
            if out.ndata[k][c] != tree.ndata[k][c]:
                return ctx.violation(
                    "smoother-endpoint-moved",
                    f"TreeSmoother({w}) moved critical node {c} ({k}: {tree.ndata[k][c]!r} -> "
                    f"{out.ndata[k][c]!r})", case)
    if not all(np.isfinite(out.ndata[k]).all() for k in "xyz"):
        return ctx.violation("smoother-nonfinite", f"TreeSmoother({w}) produced non-finite "
                                                   f"coordinates", case)
    if contracts.fingerprint(tree) != fp:
        return ctx.violation("input-mutated", "TreeSmoother modified its input", case)
    out2 = sm(tree)
    if not all(np.array_equal(out2.ndata[k], out.ndata[k]) for k in "xyz"):
        ctx.violation("call-history-dependence", "TreeSmoother gave another result on the second "
                                                 "call with the same tree", case)


def execute(ctx, case):
    try:
        with warnings.catch_warnings():
            warnings.simplefilter("ignore")
            {"tree": exec_tree, "branch": exec_branch, "smooth": exec_smooth_tree,
             "assembler": exec_assembler}[case["kind"]](
                ctx, case)
    except Exception as e:
        ctx.violation("op-raised", f"{case['kind']}: {type(e).__name__}: {str(e)[:300]}", case)


def run(ctx):
    from swcgeom.transforms.branch import BranchIsometricResampler
    from swcgeom.transforms.branch_tree import BranchTreeAssembler

    contracts.install()
    rng = ctx.rng
    tap = probes.CallTap({"assembler": BranchTreeAssembler.__call__,
                          "resample": BranchIsometricResampler.resample})
    geoms = ["growth", "plane", "gauss", "far", "big", "tiny", "micro", "coincident", "axis", "axis"]
    with tap:
        for k in range(ctx.scale(1700, 34000)):
            u = k % 10
            rc = G.random_recipe(rng, max_n=G.size_ladder(ctx, k, 10, 45, 250), geoms=geoms,
                                 numbering="sorted" if rng.random() < 0.5 else None, extras=0)
            if u < 6:
                case = {"kind": "tree", "tree": rc}
                m = rng.random()
                if rc["geom"] == "axis" and m < 0.6:
                    case.update(spacing_mode="div", pick=int(rng.integers(0, 1000)),
                                div=int(rng.choice([1, 1, 2, 3, 4])))
                elif m < 0.85:
                    case.update(spacing_mode="rel", factor=float(10 ** rng.uniform(-2, 1)))
                else:
                    case.update(spacing_mode="abs", factor=float(rng.choice([0.5, 1.0, 2.0, 3.0])))
                case["idempotent_probe"] = bool(rng.random() < 0.15)
                ctx.case(case, nontrivial=rc["n"] >= 3, klass=f"tree/{rc['shape']}")
            elif u < 8:
                op = str(rng.choice(["linear", "isometric", "smoother"]))
                case = {"kind": "branch", "tree": rc, "op": op, "pick": int(rng.integers(0, 1000)),
                        "detached": bool(rng.random() < 0.5),
                        "int_coords": bool(op != "smoother" and rng.random() < 0.25),
                        "direct": bool(rng.random() < 0.5)}
                if op == "linear":
                    case["n"] = int(rng.choice([2, 3, 5, 50]))
                elif op == "isometric":
                    case["factor"] = float(10 ** rng.uniform(-2, 1))
                else:
                    case["window"] = int(rng.choice([1, 3, 5, 9]))
                ctx.case(case, nontrivial=rc["n"] >= 3, klass=f"branch/{op}")
            elif u == 8:
                case = {"kind": "smooth", "tree": rc, "window": int(rng.choice([1, 3, 5, 9]))}
                ctx.case(case, nontrivial=rc["n"] >= 3, klass="smooth")
            else:
                case = {"kind": "assembler", "tree": rc}
                ctx.case(case, nontrivial=rc["n"] >= 3, klass="assembler")
            execute(ctx, case)
        if ctx.shard % 4 == 1 or not ctx.quick:
            rc = {"shape": ["pair", "chain", "stem", "binary"][ctx.shard % 4], "n": 5,
                  "numbering": "sorted", "geom": "growth", "types": "soma", "extras": 0,
                  "seed": 1000 + 5 * (ctx.seed + ctx.shard)}
            case = {"kind": "tree", "tree": rc, "spacing_mode": "rel", "factor": 1.0,
                    "fine": [8200.5, 9000.25, 16390.5, 12000.75][ctx.shard % 4]}
            ctx.case(case, klass="tree/fine-spacing")
            execute(ctx, case)
        sweep = G.sweep_recipes(ctx, max_small=4097, large=0 if ctx.quick else 1,
                                numbering="sorted", shapes=["bamboo", "neuron", "caterpillar"])
        if ctx.quick and ctx.shard == 0:  # one tree beyond 46 341 nodes (few, long branches)
            sweep.append({"shape": "bamboo", "n": 50000, "numbering": "sorted", "geom": "growth",
                          "types": "soma", "extras": 0, "seed": 4240 + 5 * ctx.seed})
        for j, rc in enumerate(sweep):
            rc["seed"] -= rc["seed"] % 5  # (seeds 1, 2 mod 5 take the derived / branch-tree routes)
            # node counts on / next to powers of two, and one big branched tree
            case = {"kind": "tree", "tree": rc, "spacing_mode": "rel",
                    "factor": [3.0, 0.7, 10.0][j % 3]}
            ctx.case(case, klass="size-sweep")
            ctx.count("size_sweep_cases")
            execute(ctx, case)
        for j, rc in enumerate(G.real_recipes(rng, 1000 if ctx.quick else None)):
            if j % ctx.nshards == ctx.shard:
                for case in ({"kind": "tree", "tree": rc, "spacing_mode": "rel", "factor": 0.5},
                             {"kind": "smooth", "tree": rc, "window": 5}):
                    ctx.case(case, klass="real-morphology")
                    ctx.count("real_morphologies")
                    execute(ctx, case)
    ctx.count("tap_assembler", tap.counts["assembler"])
    ctx.count("tap_resample", tap.counts["resample"])
    for fn, mech, detail in contracts.REC.problems:
        ctx.violation("c03-contract:" + mech, f"{fn}: {detail}",
                      {"note": "global C03 contract set during the C16 workload"})
    ctx.count("c03_contract_evaluations", sum(contracts.REC.evals.values()))


def replay(ctx, case):
    if "note" in case:
        return
    ctx.case(case)
    execute(ctx, case)
