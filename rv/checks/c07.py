"""C07 — re-rooting and concatenation preserve structure and geometry.

Monitor: post-condition per redirect_tree / cat_tree call.  Trees A and B carry disjoint unique
tags; the oracle builds the expected parent relation (tag -> parent tag) from the undirected
edge sets by a BFS away from the new root / junction, so "same undirected edges, requested
node is the unique root, joined at that node, no other edge added or lost" is one dictionary
comparison, and attributes are compared node by node through the tags.
"""

from __future__ import annotations

import warnings
from collections import deque

import numpy as np

from rv import probes, contracts
from rv.gen import trees as G
from rv.oracles import topo

PROPERTY = "C07"
LEVEL = "exploration"
TECHNIQUE = ("runtime monitoring: post-condition on every redirect_tree / cat_tree call; expected "
             "parent relation rebuilt from undirected tag edge sets by BFS from the new root / "
             "junction; attribute, type-exchange, rigid-shift and merge-or-link oracles; "
             "two-step re-rooting histories (root not at position 0)")
LEVEL_TEXT = ("Exploration: all (tree, new root) pairs of small generated trees and sampled pairs of "
              "larger ones, both sort modes, chained re-rootings; concatenations over all junction "
              "pairs of small tree pairs and sampled ones above, both translate modes, coincident / "
              "one-ulp-apart / far junctions at magnitudes 1..1e4. Held = held on those executions."
              " Generated trees come in several representations of the same values (strided, other dtypes / lists, one array as two columns, read-only where the harness never writes) and half of them were queried, a third put through aborted operations, before use. The translate flag is also given as numpy bool / int."
              " First trees derived by the library (also float64); size sweep, re-rooting / concatenating trees of 5*10^4 nodes and more."
              " redirect_tree called positionally, by keyword and with defaults."
              " The C03 contract set is active during the workload: results of the two preceding calls are re-verified after every call."
              " Twins under custom column names; a 64-bit label column."
              " Fragments hundredths of a micrometre from their attachment node at whole-brain coordinates (merge decided exactly); returned trees overwritten in place, then the same call again."
              " Every root-to-tip path of one tree in three taken as a path and reversed (PathToTree / PathReverser).")
LEVEL_NOTE = ("Merge-or-link is decided only where the junction distance is clearly below (<5e-6) or "
              "above (>2e-5) the documented 1e-5; with translation requested and coordinates large "
              "enough for float32 residue to reach 1e-5 either outcome is accepted and counted.")
RULE = ("cases = redirect: (tree recipe, new root, sort flag, optional first re-rooting); cat: (two "
        "recipes, junction nodes a, b, translate flag, junction placement); non-trivial when the "
        "new root is not the old one / B has >= 2 nodes; distinct = distinct argument tuples")
ASSUMPTIONS = [
    "inputs are well-formed trees, any numbering; redirect also accepts the library's own "
    "sort=False output (root not at position 0)",
    "B's columns that A lacks are dropped, A's columns that B lacks are zero-filled (documented)",
    "sibling order / node order of the result is free (tags decide)",
]
REQUIRED = ["trees_with_64_bit_labels", "paths_reversed", "operations_repeated_after_result_was_overwritten", "merge_decided_exactly_at_large_coordinates", "operations_under_custom_column_names", "redirect_checked", "redirect_chained_checked", "cat_checked", "cat_merged",
            "cat_linked", "cat_translate", "cat_no_translate", "cat_flag_as_numpy_bool_or_int",
            "size_sweep_cases", "redirect_positional_arguments", "tap_redirect_tree", "tap_cat_tree"]
FLOOR = {"quick": 2500, "thorough": 300000}
SHARDS = {"quick": 8, "thorough": 16}

TAG_B = 1_000_000


def _adj(pid):
    adj = [[] for _ in range(len(pid))]
    for i, p in enumerate(pid):
        if p >= 0:
            adj[i].append(int(p))
            adj[int(p)].append(i)
    return adj


def _bfs_parents(pid, start):
    """parent of every node when the undirected tree is oriented away from ``start``."""
    adj = _adj(pid)
    par = {start: None}
    dq = deque([start])
    while dq:
        u = dq.popleft()
        for w in adj[u]:
            if w not in par:
                par[w] = u
                dq.append(w)
    return par


def _relation(tags, pid):
    return {int(tags[i]): (int(tags[p]) if p >= 0 else None) for i, p in enumerate(pid)}


def _cols(tree):
    return {k: np.array(v, copy=True) for k, v in tree.ndata.items()}


# ------------------------------------------------------------------ redirect
def _check_redirect(ctx, case, cols_in, out, v, sort, what):
    pid_in, tags_in = cols_in["pid"], cols_in["tag"]
    n = len(pid_in)
    old_root = int(np.nonzero(pid_in == -1)[0][0])
    if len(out) != n:
        return ctx.violation("node-count", f"{what}: {len(out)} nodes, expected {n}", case)
    ids, pid = out.id(), out.pid()
    if not np.array_equal(ids, np.arange(n)):
        return ctx.violation("ids-not-arange", f"{what}: ids are not 0..n-1", case)
    roots = np.nonzero(pid == -1)[0]
    if len(roots) != 1:
        return ctx.violation("not-single-root", f"{what}: {len(roots)} roots", case)
    if "tag" not in out.ndata:
        return ctx.violation("column-lost", f"{what}: 'tag' column lost", case)
    tags = out.ndata["tag"]
    if sorted(tags.tolist()) != sorted(tags_in.tolist()):
        return ctx.violation("nodes-changed", f"{what}: node multiset changed", case)
    if int(tags[roots[0]]) != int(tags_in[v]):
        return ctx.violation("wrong-root", f"{what}: root is tag {int(tags[roots[0]])}, requested "
                                           f"{int(tags_in[v])}", case)
    if ((pid < -1) | (pid >= n)).any():
        return ctx.violation("dangling-parent", f"{what}: a parent id names no node", case)
    exp_par = _bfs_parents(pid_in, v)
    exp = {int(tags_in[u]): (None if p is None else int(tags_in[p])) for u, p in exp_par.items()}
    got = _relation(tags, pid)
    if got != exp:
        bad = [t for t in exp if exp[t] != got.get(t)][:4]
        return ctx.violation("edges-changed",
                             f"{what}: parent relation differs from the re-oriented input for "
                             f"tags {bad}: got {[got.get(t) for t in bad]}, expected "
                             f"{[exp[t] for t in bad]}", case)
    if sort:
        if not (roots[0] == 0 and np.all(pid[1:] < ids[1:])):
            return ctx.violation("not-sorted", f"{what}: sort=True but parents do not precede "
                                               f"children / root is not 0", case)
    else:
        if not np.array_equal(tags, tags_in):
            return ctx.violation("positions-changed", f"{what}: sort=False but nodes changed "
                                                      f"position", case)
    pos_in = {int(t): i for i, t in enumerate(tags_in)}
    idx = np.array([pos_in[int(t)] for t in tags], dtype=np.int64)
    exp_type = cols_in["type"].copy()
    exp_type[old_root], exp_type[v] = cols_in["type"][v], cols_in["type"][old_root]
    if not np.array_equal(out.type(), exp_type[idx]):
        j = int(np.nonzero(out.type() != exp_type[idx])[0][0])
        return ctx.violation("type-exchange",
                             f"{what}: type of node tag {int(tags[j])} is {out.type()[j]}, expected "
                             f"{exp_type[idx][j]} (only old root {old_root} and new root {v} "
                             f"exchange types)", case)
    for k, a in cols_in.items():
        if k in ("id", "pid", "type"):
            continue
        if k not in out.ndata or not np.array_equal(out.ndata[k], a[idx]):
            return ctx.violation("attribute-changed", f"{what}: column {k!r} changed", case)
    return None


def _exec_redirect(ctx, case):
    from swcgeom.core import redirect_tree

    spec = G.spec_from_recipe(case["tree"])
    tree = G.build(spec, frozen_ok=True)
    cur = tree
    what = "redirect_tree"
    if case.get("first") is not None:
        cols0 = _cols(tree)
        cur = redirect_tree(tree, case["first"], sort=False)
        if _check_redirect(ctx, case, cols0, cur, case["first"], False, "redirect_tree(1st)"):
            return
        what = "redirect_tree(after sort=False re-rooting)"
        ctx.count("redirect_chained_checked")
    cols = _cols(cur)
    node_arg = [case["node"], np.int64(case["node"]), np.int32(case["node"])][case["node"] % 3]
    form = (case["node"] + len(cols["pid"])) % 4
    if form == 0:    # every argument by position
        out = redirect_tree(cur, node_arg, case["sort"])
        ctx.count("redirect_positional_arguments")
    elif form == 1:  # every argument by keyword
        out = redirect_tree(tree=cur, new_root=node_arg, sort=case["sort"])
    elif form == 2 and case["sort"]:  # the default left out
        out = redirect_tree(cur, node_arg)
    else:
        out = redirect_tree(cur, node_arg, sort=case["sort"])
    ctx.count("redirect_checked")
    if _check_redirect(ctx, case, cols, out, case["node"], case["sort"], what):
        return
    if (case["node"] + len(cols["pid"])) % 2 == 0:
        # the returned tree belongs to the caller: overwritten in place, then the same re-rooting is
        # asked for again
        keep = {k: v.copy() for k, v in out.ndata.items()}
        for v in out.ndata.values():
            if v.flags.writeable:
                v[...] = 0
        redo = redirect_tree(cur, case["node"], sort=case["sort"])
        ctx.count("operations_repeated_after_result_was_overwritten")
        if any(k not in redo.ndata or not np.array_equal(redo.ndata[k], v, equal_nan=True)
               for k, v in keep.items()):
            return ctx.violation("edit-leaks-to-later-result",
                                 f"{what}: after the caller overwrote the returned tree in place, "
                                 f"the same call returned a different tree", case)
    if type(cur).__name__ == "Tree" and (case["node"] + len(cols["pid"])) % 3 == 0:
        # the same tree held under custom column names (`names=`): the same re-rooted tree
        r = G.same_under_renaming(lambda t_: redirect_tree(t_, case["node"], sort=case["sort"]), cur,
                                  level=len(cols["pid"]) % 2)
        ctx.count("operations_under_custom_column_names")
        if r:
            return ctx.violation("custom-column-names", f"{what}: {r}", case)
        r = G.same_under_ambient(lambda: redirect_tree(cur, case["node"], sort=case["sort"]),
                                 pick=case["node"] + len(cols["pid"]))
        if r:
            return ctx.violation("ambient-state", f"{what}: {r}", case)
    for k, a in cols.items():
        if not np.array_equal(cur.ndata[k], a):
            ctx.violation("input-mutated", f"redirect_tree changed its input column {k!r}", case)
            break


def dist0(p, q):
    return float(np.linalg.norm(p.astype(np.float64) - q.astype(np.float64)))


# ------------------------------------------------------------------ cat
def _place_junction(A, B, a, b, mode, scale_seed):
    """Edit B's geometry (before the call) so that the junction distance has a known class."""
    rng = np.random.default_rng(scale_seed)
    if mode == "asis":
        return
    # move both trees to a magnitude where one ulp is interesting
    mag = float(rng.choice([0.0, 1.0, 40.0, 1000.0, 10000.0]))
    for T in (A, B):
        for k in "xyz":
            T.ndata[k] += np.float32(mag)
    pa = np.array([A.ndata[k][a] for k in "xyz"], dtype=np.float32)
    if mode == "coincident":
        shift = pa - np.array([B.ndata[k][b] for k in "xyz"], dtype=np.float32)
        for j, k in enumerate("xyz"):
            B.ndata[k][:] = B.ndata[k] + shift[j]
            B.ndata[k][b] = pa[j]
    elif mode == "near":
        # a fragment traced a few hundredths of a micrometre away from its attachment node, at
        # whole-brain coordinates: still to be moved onto it when translation is asked for
        for j, k in enumerate("xyz"):
            B.ndata[k][b] = np.float32(pa[j] + np.float32(rng.uniform(0.005, 0.05)) *
                                       (1 if rng.random() < 0.5 else -1))
    elif mode == "ulp":
        for j, k in enumerate("xyz"):
            B.ndata[k][b] = pa[j]
        B.ndata["x"][b] = np.nextafter(pa[0], np.float32(np.inf), dtype=np.float32)


def _exec_cat(ctx, case):
    from swcgeom.core import cat_tree

    sa, sb = G.spec_from_recipe(case["A"]), G.spec_from_recipe(case["B"])
    sb = dict(sb)
    sb["tag"] = sb["tag"] + TAG_B
    fz = case.get("junction", "asis") == "asis"  # other modes edit the trees before the call
    A, B = G.build(sa, frozen_ok=fz), G.build(sb, frozen_ok=fz)
    if case.get("derived") and fz:
        # the first tree is one the library derived from a used tree (sorted, re-rooted, or moved
        # by a float64 matrix, which leaves double-precision coordinates far from the origin)
        A, sa = G.derive(A, sa, int(case["derived"]), float64_ok=True)
        if any(v.dtype == np.float64 for v in A.ndata.values()):
            ctx.count("cat_first_tree_with_float64_coordinates")
    a, b, tr = case["a"], case["b"], case["translate"]
    _place_junction(A, B, a, b, case.get("junction", "asis"), case.get("jseed", 0))
    ca, cb = _cols(A), _cols(B)
    if (a + b) % 3 == 0:
        # node ids as numpy scalars, the flag as a numpy bool (e.g. the result of a comparison)
        out = cat_tree(A, B, np.int64(a), np.int32(b), translate=np.bool_(tr))
        ctx.count("cat_flag_as_numpy_bool_or_int")
    elif (a + b) % 3 == 1 and not tr:
        import warnings as _w

        with _w.catch_warnings():
            _w.simplefilter("ignore")
            out = cat_tree(A, B, a, b, no_move=True)  # the older spelling of translate=False
        ctx.count("cat_legacy_no_move")
    elif (a + b) % 2:
        out = cat_tree(A, B, a, b, translate=int(tr))
        ctx.count("cat_flag_as_numpy_bool_or_int")
    else:
        out = cat_tree(A, B, a, b, translate=tr)
    ctx.count("cat_checked")
    ctx.count("cat_translate" if tr else "cat_no_translate")
    what = f"cat_tree(a={a}, b={b}, translate={tr})"
    for T, c, nm in ((A, ca, "tree1"), (B, cb, "tree2")):
        for k, v in c.items():
            if k not in T.ndata or not np.array_equal(T.ndata[k], v):
                return ctx.violation("input-mutated", f"{what}: {nm} column {k!r} was modified",
                                     case)
    if type(A).__name__ == "Tree" and type(B).__name__ == "Tree" and (a + b) % 4 == 0:
        # both trees held under custom column names (`names=`): the same concatenation
        r = G.same_under_renaming(lambda p_, q_: cat_tree(p_, q_, a, b, translate=tr), A, B,
                                  level=(a + 2 * b) % 2)
        ctx.count("operations_under_custom_column_names")
        if r:
            return ctx.violation("custom-column-names", f"{what}: {r}", case)
        r = G.same_under_ambient(lambda: cat_tree(A, B, a, b, translate=tr), pick=a + 3 * b)
        if r:
            return ctx.violation("ambient-state", f"{what}: {r}", case)
    wf = topo.well_formed(out.id(), out.pid())
    if wf:
        return ctx.violation("malformed-result", f"{what}: {wf}", case)
    if "tag" not in out.ndata:
        return ctx.violation("column-lost", f"{what}: 'tag' column lost", case)
    tags = out.ndata["tag"]
    tA, tB = ca["tag"], cb["tag"]
    n1, n2 = len(tA), len(tB)
    pos = {int(t): i for i, t in enumerate(tags)}
    if len(pos) != len(tags):
        return ctx.violation("nodes-changed", f"{what}: duplicated nodes in the result", case)
    missA = [int(t) for t in tA if int(t) not in pos]
    if missA:
        return ctx.violation("nodes-changed", f"{what}: nodes of tree1 missing: {missA[:5]}", case)
    missB = [int(t) for t in tB if int(t) not in pos]
    merged = int(tB[b]) not in pos
    if len(tags) != n1 + n2 - (1 if merged else 0) or (set(missB) - {int(tB[b])}):
        return ctx.violation("nodes-changed",
                             f"{what}: result has {len(tags)} nodes; tree2 nodes missing: "
                             f"{missB[:5]} (only the junction node may be merged away)", case)
    # geometry: shift
    pa = np.array([ca[k][a] for k in "xyz"], dtype=np.float64)
    pb = np.array([cb[k][b] for k in "xyz"], dtype=np.float64)
    shift = (pa - pb) if tr else np.zeros(3)
    scale = max(1.0, float(np.abs(np.stack([cb[k] for k in "xyz"])).max()), float(np.abs(pa).max()),
                float(np.abs(pb).max()))
    # (node positions are single precision by the library's own convention -- Node.xyz() -- so
    # coincidence of the junction nodes is judged on the float32 positions, also for trees whose
    # columns happen to be held in double precision)
    pa_, pb_ = pa.astype(np.float32).astype(np.float64), pb.astype(np.float32).astype(np.float64)
    dist = float(np.linalg.norm(pb_ + (pa_ - pb_ if tr else 0) - pa_))
    # junction rule
    if tr:
        # the junction node itself: b - fl(b - a) evaluated in float32 is exactly a whenever b and a
        # are close (Sterbenz), at any magnitude -- then the nodes coincide and are merged
        pa32 = np.array([ca[k][a] for k in "xyz"], dtype=np.float32)
        pb32 = np.array([cb[k][b] for k in "xyz"], dtype=np.float32)
        exact = bool(np.array_equal(pb32 - (pb32 - pa32), pa32)) and \
            all(cb[k].dtype == np.float32 and ca[k].dtype == np.float32 for k in "xyz")
        if exact and scale > 20.0:
            ctx.count("merge_decided_exactly_at_large_coordinates")
            if not merged:
                return ctx.violation("junction-not-merged",
                                     f"{what}: the junction node of tree2, {dist0(pa32, pb32):.3g} "
                                     f"away from node {a} at |coordinates| ~ {scale:.3g}, lands "
                                     f"exactly on it when translated, but was not merged", case)
        if scale <= 20.0 and not merged:
            return ctx.violation("junction-not-merged",
                                 f"{what}: translated junction nodes coincide but were not merged",
                                 case)
        if scale > 20.0:
            ctx.count("merge_undecided_large_coords")
    else:
        if dist < 5e-6 and not merged:
            return ctx.violation("junction-not-merged", f"{what}: junction nodes {dist:.2e} apart "
                                                        f"(< 1e-5) were not merged", case)
        if dist > 2e-5 and merged:
            return ctx.violation("junction-wrongly-merged",
                                 f"{what}: junction nodes {dist:.3e} apart (> 1e-5) were merged: a "
                                 f"node of tree2 was dropped", case)
        if 5e-6 <= dist <= 2e-5:
            ctx.count("merge_undecided_near_eps")
    ctx.count("cat_merged" if merged else "cat_linked")
    # attributes of A: bit identical, every column
    idxA = np.array([pos[int(t)] for t in tA], dtype=np.int64)
    for k, v in ca.items():
        if k in ("id", "pid"):
            continue
        if k not in out.ndata or not np.array_equal(out.ndata[k][idxA], v):
            return ctx.violation("tree1-changed", f"{what}: column {k!r} of tree1's nodes changed",
                                 case)
    # attributes of B
    keepB = [i for i in range(n2) if int(tB[i]) in pos]
    idxB = np.array([pos[int(tB[i])] for i in keepB], dtype=np.int64)
    kb = np.array(keepB, dtype=np.int64)
    if not np.array_equal(out.r()[idxB], cb["r"][kb]):
        return ctx.violation("tree2-radius", f"{what}: radii of tree2's nodes changed", case)
    rootB = int(np.nonzero(cb["pid"] == -1)[0][0])
    tyB = cb["type"].copy()
    tyB[rootB], tyB[b] = cb["type"][b], cb["type"][rootB]
    if not np.array_equal(out.type()[idxB], tyB[kb]):
        return ctx.violation("tree2-type", f"{what}: types of tree2's nodes differ from the "
                                           f"original up to the root/junction exchange", case)
    for j, k in enumerate("xyz"):
        got = out.ndata[k][idxB].astype(np.float64)
        want = cb[k][kb].astype(np.float64) + shift[j]
        if tr:
            tol = 2e-6 * scale + 1e-30
            if np.abs(got - want).max(initial=0.0) > tol:
                i = int(np.argmax(np.abs(got - want)))
                return ctx.violation("tree2-translation",
                                     f"{what}: {k} of tree2 node {keepB[i]} is {got[i]!r}, expected "
                                     f"{want[i]!r} = original + (A[a] - B[b])", case)
        elif not np.array_equal(out.ndata[k][idxB], cb[k][kb]):
            return ctx.violation("tree2-moved", f"{what}: translate=False but tree2 moved", case)
    for k, v in cb.items():  # extra columns both trees have travel with tree2's nodes
        if k in ("id", "pid", "type", "x", "y", "z", "r") or k not in ca:
            continue
        if not np.array_equal(out.ndata[k][idxB], v[kb]):
            return ctx.violation("tree2-column", f"{what}: column {k!r} of tree2's nodes changed",
                                 case)
    for k in ca:
        if k not in cb and k not in ("id", "pid") and np.any(out.ndata[k][idxB] != 0):
            return ctx.violation("tree2-column", f"{what}: column {k!r} (absent from tree2) is not "
                                                 f"zero-filled", case)
    # expected parent relation
    exp = _relation(tA, ca["pid"])
    parB = _bfs_parents(cb["pid"], b)
    for u, p in parB.items():
        if u == b:
            if not merged:
                exp[int(tB[b])] = int(tA[a])
            continue
        exp[int(tB[u])] = int(tA[a]) if (p == b and merged) else int(tB[p])
    got = _relation(tags, out.pid())
    if got != exp:
        bad = [t for t in exp if exp[t] != got.get(t, "absent")][:4]
        return ctx.violation("edges-changed",
                             f"{what}: parent relation differs for tags {bad}: got "
                             f"{[got.get(t) for t in bad]}, expected {[exp[t] for t in bad]} "
                             f"(merged={merged})", case)
    return None


def _exec_path_reverse(ctx, case):
    """Re-rooting the simplest tree there is: every root-to-tip path of a tree, taken as a path
    and reversed (PathReverser = PathToTree + redirect_tree at the far end)."""
    from swcgeom.transforms.path import PathReverser, PathToTree

    spec = G.spec_from_recipe(case["tree"])
    tree = G.build(spec, frozen_ok=False)
    rev = PathReverser()
    for p in tree.get_paths()[:6]:
        ids = [int(i) for i in p.origin_id()]
        xyzr = np.array(p.xyzr(), copy=True)
        try:
            as_tree = PathToTree()(p)
            q = rev(p)
        except Exception as e:
            return ctx.violation("op-raised", f"PathReverser on the path {ids[:8]} (of {len(ids)} "
                                              f"nodes): {type(e).__name__}: {str(e)[:120]}", case)
        ctx.count("paths_reversed")
        if as_tree.number_of_nodes() != len(ids) or not np.array_equal(as_tree.xyzr(), xyzr) or \
                not np.array_equal(as_tree.pid(), np.arange(-1, len(ids) - 1)):
            return ctx.violation("nodes-changed", f"PathToTree of the path {ids[:8]} is not that "
                                                  f"chain", case)
        got = np.array(q.xyzr())
        if got.shape != xyzr.shape or not np.array_equal(got, xyzr[::-1]):
            return ctx.violation("edges-changed",
                                 f"PathReverser on the path {ids[:8]}: the result does not run "
                                 f"through the same points in the opposite order", case)


def execute(ctx, case):
    try:
        with warnings.catch_warnings():
            warnings.simplefilter("ignore")
            if case["op"] == "redirect":
                _exec_redirect(ctx, case)
            elif case["op"] == "reverse-paths":
                _exec_path_reverse(ctx, case)
            else:
                _exec_cat(ctx, case)
    except Exception as e:
        ctx.violation("op-raised", f"{case['op']}: {type(e).__name__}: {str(e)[:300]}", case)


def run(ctx):
    from swcgeom.core import tree_utils

    tap = probes.CallTap({"redirect_tree": tree_utils.redirect_tree,
                          "cat_tree": tree_utils.cat_tree})
    contracts.install()  # (after the tap: it re-binds these names to the contracted wrappers)
    with tap:
        _workload(ctx)
    for k, v in tap.counts.items():
        ctx.count("tap_" + k, v)
    contracts.report(ctx, "C07")


def _workload(ctx):
    rng = ctx.rng
    n_trees = ctx.scale(420, 54000)
    for k in range(n_trees):
        rc = G.random_recipe(rng, max_n=G.size_ladder(ctx, k, 9, 30, 200),
                             extras=int(rng.integers(0, 3)))
        if k % 4 == 1:
            rc["big_extra"] = True
            ctx.count("trees_with_64_bit_labels")
        n = G.spec_from_recipe(rc)["pid"].shape[0]
        nodes = range(n) if n <= 12 else sorted(set(rng.integers(0, n, 5).tolist()))
        for v in nodes:
            case = {"op": "redirect", "tree": rc, "node": int(v), "sort": bool(rng.random() < 0.5)}
            if rng.random() < 0.35 and n > 1:
                case["first"] = int(rng.integers(0, n))
            ctx.case(case, nontrivial=n >= 3 and v != 0, klass=f"redirect/{rc['shape']}")
            execute(ctx, case)
        if k % 3 == 0 and n >= 2:
            case = {"op": "reverse-paths", "tree": rc}
            ctx.case(case, nontrivial=n >= 3, klass="reverse-paths")
            execute(ctx, case)
        # concatenation
        rb = G.random_recipe(rng, max_n=G.size_ladder(ctx, k, 7, 20, 80),
                             extras=int(rng.integers(0, 3)),
                             geoms=["growth", "gauss", "int", "quarter", "coincident", "axis", "plane"])
        ra = dict(rc)
        if ra["geom"] in ("far", "big", "tiny"):
            ra["geom"] = "growth"
        nb = G.spec_from_recipe(rb)["pid"].shape[0]
        pairs = [(int(rng.integers(0, n)), int(rng.integers(0, nb))) for _ in range(4)]
        pairs += [(0, 0), (n - 1, nb - 1)]
        if n * nb <= 30:
            pairs = [(i, j) for i in range(n) for j in range(nb)]
        for a, b in pairs:
            jn = str(rng.choice(["asis", "asis", "coincident", "ulp", "near"]))
            tr = bool(rng.random() < 0.5)
            case = {"op": "cat", "A": ra, "B": rb, "a": a, "b": b, "translate": tr,
                    "junction": jn, "jseed": int(rng.integers(0, 2**31 - 1))}
            if jn == "asis" and rng.random() < 0.3:
                case["derived"] = int(rng.integers(1, 2**31 - 1))
            ctx.case(case, nontrivial=nb >= 2, klass=f"cat/{jn}/{'tr' if tr else 'notr'}")
            execute(ctx, case)
    for j, rc in enumerate(G.sweep_recipes(ctx, large=2, extras=1)):
        # sizes on / next to powers of two, and big branched trees (re-rooted and concatenated)
        n = rc["n"]
        case = {"op": "redirect", "tree": rc, "node": int(rng.integers(1, n)), "sort": bool(j % 2 == 0)}
        ctx.case(case, klass="redirect/size-sweep")
        ctx.count("size_sweep_cases")
        execute(ctx, case)
        if n >= 30000:
            rb = dict(rc, n=24000, seed=rc["seed"] + 1)
            case = {"op": "cat", "A": rc, "B": rb, "a": int(rng.integers(0, n)),
                    "b": int(rng.integers(1, 24000)), "translate": True, "junction": "asis",
                    "jseed": 1}
            ctx.case(case, klass="cat/size-sweep")
            execute(ctx, case)
    if ctx.shard == 0:  # deep chain: re-root at the far end
        n_deep = 5000 if ctx.quick else 30000
        rc = {"shape": "chain", "n": n_deep, "numbering": "sorted", "geom": "int",
              "types": "soma", "extras": 0, "seed": 3}
        for srt in (True, False):
            case = {"op": "redirect", "tree": rc, "node": n_deep - 1, "sort": srt}
            ctx.case(case, klass="redirect/deep-chain")
            execute(ctx, case)


def replay(ctx, case):
    ctx.case(case)
    execute(ctx, case)
