"""C18 — topology diagnosis and root repair tell the truth about any parent table.

Monitors
* exhaustive sweep over all parent tables {0..n-1} -> {-1} u {0..n-1} (n <= 4 quick, n <= 6
  thorough) of the four checkers, each call under a *logical step budget* (sys.monitoring LINE
  counter over swc_utils and dsu code): divergence is a decided outcome, independent of load;
* random larger tables (forests, long cycles, self loops, arbitrary ids / row order where the
  function takes a table);
* DisjointSetUnion: an icontract class invariant (parents in range, roots are fixed points,
  rank bound) installed on the real class, plus a naive partition model compared on *all pairs*
  after every operation of random union/find histories;
* root repair: generated forests written as SWC text and read with fix_roots off / 'somas' /
  'nearest' (and the table-level functions), compared through unique tags.
"""

from __future__ import annotations

import io
import itertools
import math
import warnings

import numpy as np
import pandas as pd

from rv import probes
from rv.oracles import topo

PROPERTY = "C18"
LEVEL = "exploration"
EXHAUSTIVE = {"quick": False, "thorough": False}  # the table sweep is exhaustive; the rest is not
TECHNIQUE = ("runtime monitoring: exhaustive small-table sweep of the checkers against a 15-line "
             "union-find / counting reference under a sys.monitoring logical step budget; "
             "icontract class invariant on DisjointSetUnion plus naive-partition model queried on "
             "all pairs after every operation; tag-based post-conditions on root repair over "
             "generated forests")
LEVEL_TEXT = ("Exploration with an exhaustive pocket: every parent table with n <= 4 (quick, 700 "
              "tables) / n <= 6 (thorough, 126 175 tables) goes through is_single_root, has_cyclic, "
              "is_sorted and is_bifurcate (both root modes) and is compared with the reference; "
              "random tables up to 300 nodes, random DSU histories (every pair queried after every "
              "operation, or only at the end so uncompressed paths survive) and generated forests "
              "(2-7 roots, id bases 0/1/5/100, interleaved fragments, shuffled rows) are sampled."
              " Frames with permuted / foreign index labels; a rejected has_cyclic call (1-based ids) precedes a third of the calls."
              " Regular table families (rings of every length in both orientations, rings with tails, two rings, tip-first chains); checkers on int32 arrays with the inputs compared afterwards; table-level repairs on forests of 2 .. 300 roots with arbitrary ids."
              " Several union-find structures driven in turns with has_cyclic called in between."
              " Tables shifted beyond 32-bit ids; the same table under custom column names next to decoy default-named columns; the older checker names and the tree-level front end."
              " Component labellings overwritten by the caller before the checkers run again.")
LEVEL_NOTE = ("Tables have parents drawn from the ids present or -1; has_cyclic is driven with ids "
              "that are a permutation of 0..n-1 (it indexes its union-find by id). Whether "
              "'nearest' picks the geometrically nearest node is recorded, not decided. Divergence is "
              "decided by a logical step budget of 2000*(n+2)^2 line events, far above the "
              "O(n^2) worst case of correct code.")
RULE = ("cases = parent tables (exhaustive for small n, then random), DSU operation histories, "
        "forest recipes x repair mode x entry point; non-trivial when the table / forest has >= 2 "
        "nodes or the history >= 2 operations; distinct = distinct tables / histories / recipes")
ASSUMPTIONS = [
    "parent ids are -1 or name a row of the table",
    "a self loop (pid == id) is a cycle",
    "connected = one weakly connected component of the (id, parent) graph",
]
REQUIRED = ["tables_exhaustive", "tables_random", "is_single_root_checked", "has_cyclic_checked",
            "is_sorted_checked", "is_bifurcate_checked", "cyclic_tables", "forest_tables",
            "dsu_histories", "dsu_pair_queries", "dsu_invariant_evaluations", "dsu_histories_interleaved",
            "dsu_library_use_between_queries", "older_checker_names", "tree_level_checker",
            "tables_with_ids_beyond_32_bits", "tables_under_custom_column_names",
            "labellings_overwritten_by_the_caller", "repair_off",
            "repair_somas", "repair_nearest", "repair_table_functions", "repair_three_or_more_roots",
            "step_budget_calls", "frames_with_other_index", "rejected_calls_before_has_cyclic",
            "tables_regular_families", "checkers_on_int32_arrays",
            "repair_tables_many_roots", "repair_tables_129_roots_and_more"]
FLOOR = {"quick": 1200, "thorough": 100000}
SHARDS = {"quick": 8, "thorough": 16}
TIMEOUT = {"quick": 300, "thorough": 3000}


# ------------------------------------------------------------------------------ reference
def ref_table(ids, pids):
    """(connected, cyclic, n_children per id) from first principles."""
    idx = {int(v): i for i, v in enumerate(ids)}
    n = len(ids)
    par = list(range(n))

    def find(x):
        while par[x] != x:
            x = par[x]
        return x

    cyc = False
    cnt = {int(v): 0 for v in ids}
    for i, p in zip(ids, pids):
        i, p = int(i), int(p)
        if p == -1:
            continue
        cnt[p] += 1
        a, b = find(idx[i]), find(idx[p])
        if a == b:
            cyc = True
        else:
            par[a] = b
    comps = len({find(i) for i in range(n)})
    return comps == 1, cyc, cnt


_BUDGET = None


def budget():
    global _BUDGET
    if _BUDGET is None:
        from swcgeom.core.swc_utils import base, checker, normalizer
        from swcgeom.utils import dsu

        _BUDGET = probes.StepBudget([base, checker, normalizer, dsu]).install()
    return _BUDGET


def _df(ids, pids):
    n = len(ids)
    return pd.DataFrame({"id": np.asarray(ids, dtype=np.int64), "type": np.ones(n, dtype=np.int64),
                         "x": np.arange(n, dtype=float), "y": np.zeros(n), "z": np.zeros(n),
                         "r": np.ones(n), "pid": np.asarray(pids, dtype=np.int64)})


def check_table(ctx, case):
    from swcgeom.core import swc_utils as su

    ids = np.asarray(case["ids"], dtype=np.int64)
    pids = np.asarray(case["pids"], dtype=np.int64)
    n = len(ids)
    conn, cyc, cnt = ref_table(ids, pids)
    positional = bool(np.array_equal(ids, np.arange(n)))
    perm = sorted(ids.tolist()) == list(range(n))
    roots = {int(i) for i, p in zip(ids, pids) if p == -1}
    if cyc:
        ctx.count("cyclic_tables")
    if len(roots) > 1:
        ctx.count("forest_tables")
    lim = 2000 * (n + 2) ** 2
    B = budget()

    def call(name, fn, want):
        ctx.count("step_budget_calls")
        try:
            got, _ = B.run(lim, fn)
        except probes.StepBudgetExceeded:
            return ctx.violation(f"{name}-diverges", f"{name} did not finish within {lim} line "
                                                     f"events on ids={ids.tolist()[:12]} "
                                                     f"pids={pids.tolist()[:12]}", case)
        except Exception as e:
            return ctx.violation(f"{name}-raised", f"{name} raised {type(e).__name__}: "
                                                   f"{str(e)[:120]} on pids={pids.tolist()[:12]}",
                                 case)
        ctx.count(f"{name.split('(')[0]}_checked")
        if not isinstance(got, (bool, np.bool_)):
            return ctx.violation(f"{name}-type", f"{name} returned {type(got).__name__}", case)
        if bool(got) != bool(want):
            return ctx.violation(f"{name.split('(')[0]}-wrong",
                                 f"{name} = {bool(got)}, the table ids={ids.tolist()[:12]} "
                                 f"pids={pids.tolist()[:12]} says {bool(want)}", case)

    df = _df(ids, pids)
    call("is_single_root", lambda: su.is_single_root(df), conn)
    if perm or len(set(ids.tolist())) == n:
        # the component labelling is handed out as an array; a caller relabels it in place
        # ("what if these were joined"); the checkers keep answering for the table
        try:
            lab = su.get_dsu(df)
            if isinstance(lab, np.ndarray) and lab.flags.writeable and lab.size:
                lab[...] = lab.flat[0]
            ctx.count("labellings_overwritten_by_the_caller")
        except Exception:
            pass
        call("is_single_root", lambda: su.is_single_root(df.copy()), conn)
    if n >= 2:
        # the same rows in a frame whose index is not 0..n-1 in row order (rows re-ordered or
        # filtered without reset_index, a frame indexed by something else): same table, same answer
        h_ = int(ids.sum() * 31 + pids.sum() * 17 + n)
        order = np.random.default_rng(h_ % (2**32)).permutation(n)
        ctx.count("frames_with_other_index")
        call("is_single_root", lambda: su.is_single_root(df.iloc[order]), conn)
        df3 = df.copy()
        df3.index = (np.arange(n)[::-1] * 3 + 1) if h_ % 2 else (ids + 1)
        call("is_single_root", lambda: su.is_single_root(df3), conn)
    if perm:
        if int(ids.sum() + pids.sum()) % 3 == 0:
            # an earlier call the checker rejects (the same table still carrying 1-based ids:
            # outside the documented 0..n-1), caught by the caller
            try:
                su.has_cyclic((ids + 1, np.where(pids >= 0, pids + 1, -1)))
            except Exception:
                ctx.count("rejected_calls_before_has_cyclic")
        call("has_cyclic", lambda: su.has_cyclic((ids, pids)), cyc)
    if positional:
        call("is_sorted", lambda: su.is_sorted((ids, pids)), bool(np.all(pids < ids)))
        # the same table handed over as plain lists / tuples
        call("is_sorted", lambda: su.is_sorted((ids.tolist(), pids.tolist())),
             bool(np.all(pids < ids)))
        call("is_sorted", lambda: su.is_sorted([tuple(ids.tolist()), tuple(pids.tolist())]),
             bool(np.all(pids < ids)))
        call("is_bifurcate(exclude_root=False)",
             lambda: su.is_bifurcate((ids.tolist(), pids.tolist()), exclude_root=False),
             all(v <= 2 for v in cnt.values()))
        call("has_cyclic", lambda: su.has_cyclic((ids.tolist(), pids.tolist())), cyc)
    if perm:
        # the arrays a Tree hands out (int32, the library's own width): read, never written
        i32, p32 = ids.astype(np.int32), pids.astype(np.int32)
        call("has_cyclic", lambda: su.has_cyclic((i32, p32)), cyc)
        if positional:
            call("is_sorted", lambda: su.is_sorted((i32, p32)), bool(np.all(pids < ids)))
        call("is_bifurcate(exclude_root=False)",
             lambda: su.is_bifurcate((i32, p32), exclude_root=False),
             all(v <= 2 for v in cnt.values()))
        call("has_cyclic", lambda: su.has_cyclic((i32, p32)), cyc)
        ctx.count("checkers_on_int32_arrays")
        if not (np.array_equal(i32, ids) and np.array_equal(p32, pids)):
            return ctx.violation("checker-mutates-input",
                                 f"a checker wrote into the (id, pid) arrays it was given: pids "
                                 f"{pids.tolist()[:10]} became {p32.tolist()[:10]}", case)
    call("is_bifurcate(exclude_root=False)",
         lambda: su.is_bifurcate((ids, pids), exclude_root=False),
         all(v <= 2 for v in cnt.values()))
    call("is_bifurcate(exclude_root=True)",
         lambda: su.is_bifurcate((ids, pids), exclude_root=True),
         all(v <= 2 for k, v in cnt.items() if k not in roots))
    if positional:
        # the same table with every id shifted beyond 32 bits (database keys as ids): parents
        # precede children exactly as before
        K = [2**31 - 3, 2**31, 2**32 + 5][int(ids.sum() + n) % 3]
        big_i, big_p = ids + K, np.where(pids >= 0, pids + K, -1)
        call("is_sorted", lambda: su.is_sorted((big_i, big_p)), bool(np.all(pids < ids)))
        ctx.count("tables_with_ids_beyond_32_bits")
    # the same table under custom column names (`names=`), next to default-named columns that
    # describe something else (raw and proofread parents side by side)
    from swcgeom.core.swc_utils import SWCNames

    nm_ = SWCNames(id="node", pid="parent")
    dfc = df.rename(columns={"id": "node", "pid": "parent"})
    dfc["id"], dfc["pid"] = ids, np.full(n, -1, dtype=np.int64)   # decoy: every node a root
    call("is_single_root", lambda: su.is_single_root(dfc, names=nm_), conn)
    import warnings as _w0

    with _w0.catch_warnings():
        _w0.simplefilter("ignore")
        call("is_bifurcate(exclude_root=False)", lambda: su.is_binary_tree(dfc, False, names=nm_),
             all(v <= 2 for v in cnt.values()))
    ctx.count("tables_under_custom_column_names")
    # the same questions through the older names the library still exports (table form), and
    # through the tree-level front end for tables that are trees
    import warnings as _w

    with _w.catch_warnings():
        _w.simplefilter("ignore")
        call("is_single_root", lambda: su.check_single_root(df), conn)
        for ex_ in (True, False):
            call(f"is_bifurcate(exclude_root={ex_})",
                 lambda ex_=ex_: (su.is_binary_tree(df, ex_) if n % 2 else
                                  su.is_binary_tree(df, exclude_root=ex_)),
                 all(v <= 2 for k, v in cnt.items() if not (ex_ and k in roots)))
        ctx.count("older_checker_names")
        if positional and conn and not cyc and roots == {0} and n >= 1:
            from swcgeom.core import Tree, tree_utils

            tr_ = Tree(n, pid=pids.astype(np.int32))
            for ex_ in (True, False):
                call(f"is_bifurcate(exclude_root={ex_})",
                     lambda ex_=ex_: tree_utils.is_binary_tree(tr_, ex_),
                     all(v <= 2 for k, v in cnt.items() if not (ex_ and k in roots)))
            ctx.count("tree_level_checker")
    if positional and conn and not cyc and len(roots) == 1 and n > 1:
        # diagnosis must agree with the library's own sorter: a connected acyclic single-rooted
        # table sorts, and the sorted table is reported sorted
        try:
            (nid, npid), _ = su.sort_nodes_impl((ids, pids))
            if not su.is_sorted((nid, npid)):
                ctx.violation("is_sorted-wrong", "is_sorted is False on sort_nodes_impl output", case)
        except Exception as e:
            ctx.violation("sort-raised", f"{type(e).__name__}: {e}", case)


# ---------------------------------------------------------------------------------- DSU
class _DsuInv:
    evals = 0
    problems: list = []


def _install_dsu_invariant():
    import icontract
    from swcgeom.utils import dsu as dsumod

    cls = dsumod.DisjointSetUnion
    if getattr(cls, "_rv_inv", False):
        return

    def dsu_consistent(self):
        _DsuInv.evals += 1
        par, rank = self.element_parent, self.rank
        n = len(par)
        if len(rank) != n:
            _DsuInv.problems.append("rank and parent arrays differ in length")
            return True
        size = [0] * n
        for v in range(n):
            p = par[v]
            if not (isinstance(p, (int, np.integer)) and 0 <= p < n):
                _DsuInv.problems.append(f"parent[{v}] = {p!r} out of range")
                return True
        for v in range(n):
            x, steps = v, 0
            while par[x] != x:
                x = par[x]
                steps += 1
                if steps > n:
                    _DsuInv.problems.append(f"parent pointers from {v} never reach a fixed point")
                    return True
            size[x] += 1
        for v in range(n):
            if par[v] == v and size[v] > 0 and rank[v] > math.log2(size[v]) + 1e-9:
                _DsuInv.problems.append(f"rank[{v}] = {rank[v]} exceeds log2(size {size[v]})")
                return True
        return True

    class _Never(Exception):
        pass

    icontract.invariant(dsu_consistent, error=_Never)(cls)
    cls._rv_inv = True


def check_dsu(ctx, case):
    from swcgeom.utils import DisjointSetUnion

    _install_dsu_invariant()
    rng = np.random.default_rng(case["seed"])
    n0, nops, mode = case["n"], case["nops"], case["mode"]
    # one structure, or several live ones used in turns (each answers for its own unions only);
    # between two steps the library's own user of the structure (has_cyclic) may run as well
    twins = int(case.get("twins", 1))
    sizes = [n0] + [max(2, n0 + int(rng.integers(-3, 4))) for _ in range(twins - 1)]
    ds = [DisjointSetUnion(m) for m in sizes]
    labels = [list(range(m)) for m in sizes]  # naive partition models
    ctx.count("dsu_histories")
    if twins > 1:
        ctx.count("dsu_histories_interleaved")
    ops = []
    for step in range(nops):
        w = int(rng.integers(0, twins))
        d, label, n = ds[w], labels[w], sizes[w]
        a, b = int(rng.integers(0, n)), int(rng.integers(0, n))
        if mode == "chainy" and rng.random() < 0.7:
            # merge big with singleton-ish: long uncompressed paths if rank logic is wrong
            b = int(rng.integers(0, n))
            a = step % n
        if twins > 1 and rng.random() < 0.15:
            from swcgeom.core import swc_utils as su_

            m_ = int(rng.integers(2, 9))
            pp = np.array([-1] + [int(rng.integers(0, i)) for i in range(1, m_)])
            su_.has_cyclic((np.arange(m_), pp))
            ctx.count("dsu_library_use_between_queries")
        u = rng.random()
        if u < 0.6:
            ops.append((w, "union", a, b))
            d.union_sets(a, b)
            la, lb = label[a], label[b]
            if la != lb:
                label[:] = [la if x == lb else x for x in label]
        elif u < 0.8:
            ops.append((w, "same", a, b))
            got = d.is_same_set(a, b)
            ctx.count("dsu_pair_queries")
            if bool(got) != (label[a] == label[b]):
                return ctx.violation("dsu-same-set-wrong",
                                     f"after {ops[-8:]} (structure, op, args): is_same_set({a},{b}) "
                                     f"= {got}, the unions performed on that structure say "
                                     f"{label[a] == label[b]}", case)
        else:
            ops.append((w, "find", a))
            r = d.find_parent(a)
            if not (0 <= int(r) < n) or label[r] != label[a]:
                return ctx.violation("dsu-find-wrong", f"after {ops[-8:]}: find_parent({a}) = {r}, "
                                                       f"which the unions performed never joined "
                                                       f"with {a}", case)
        if mode == "allpairs" or step == nops - 1:
            for w2 in range(twins):
                d2, label2 = ds[w2], labels[w2]
                for i in range(sizes[w2]):
                    for j in range(i, sizes[w2]):
                        ctx.count("dsu_pair_queries")
                        got = d2.is_same_set(i, j)
                        if bool(got) != (label2[i] == label2[j]):
                            return ctx.violation(
                                "dsu-same-set-wrong",
                                f"after {len(ops)} ops (last {ops[-6:]}): structure {w2}: "
                                f"is_same_set({i},{j}) = {got}, the unions performed say "
                                f"{label2[i] == label2[j]}", case)
        if _DsuInv.problems:
            p = _DsuInv.problems[0]
            _DsuInv.problems.clear()
            return ctx.violation("dsu-invariant", f"after {ops[-6:]}: {p}", case)


# -------------------------------------------------------------------------- root repair
def gen_forest(seed):
    rng = np.random.default_rng(seed)
    k = int(rng.choice([2, 2, 3, 3, 4, 5, 6, 7]))
    base = int(rng.choice([0, 1, 1, 5, 100]))
    rows = []  # (tag, parent tag or None, fragment)
    tag = 0
    centres = rng.normal(0, 6, (k, 3))
    for f in range(k):
        m = int(rng.integers(1, 7))
        first = tag
        for j in range(m):
            parent = None if j == 0 else int(rng.integers(first, tag))
            rows.append({"tag": tag, "ptag": parent, "frag": f})
            tag += 1
    n = len(rows)
    # interleaved geometry: fragments overlap in space so 'nearest' has real choices
    xyz = np.stack([centres[r["frag"]] + rng.normal(0, 5, 3) for r in rows]).astype(np.float32)
    if rng.random() < 0.3:
        xyz = np.round(xyz)  # ties in distance
    typ = rng.choice([0, 2, 3, 4, 5], n)
    rad = np.round(np.exp(rng.normal(0, .5, n)), 4)
    order = np.arange(n)
    layout = str(rng.choice(["grouped", "grouped", "interleaved", "shuffled"]))
    if layout == "interleaved":
        # a valid file where fragments' rows interleave (parents still precede children)
        keys = [(r["tag"] - min(q["tag"] for q in rows if q["frag"] == r["frag"]), r["frag"])
                for r in rows]
        order = np.array(sorted(range(n), key=lambda i: keys[i]))
        if rows[order[0]]["frag"] != 0:
            order = np.arange(n)
            layout = "grouped"
    elif layout == "shuffled":
        order = np.concatenate([[0], 1 + rng.permutation(n - 1)])
    if layout == "shuffled":
        # arbitrary distinct ids, rows in arbitrary order; the first root keeps the smallest id
        # (re-basing by the first root's id would otherwise map some other id onto the -1 marker)
        ids = base + np.concatenate([[0], 1 + rng.permutation(n - 1)])
    else:
        ids = np.empty(n, dtype=np.int64)
        ids[order] = base + np.arange(n)  # consecutive in row order
    return {"rows": rows, "xyz": xyz, "type": typ, "r": rad, "order": order.tolist(),
            "ids": [int(v) for v in ids], "k": k, "base": base, "layout": layout}


def forest_text(fr):
    rows, ids = fr["rows"], fr["ids"]
    lines = ["# forest"]
    for i in fr["order"]:
        r = rows[i]
        p = ids[r["ptag"]] if r["ptag"] is not None else -1
        x, y, z = (float(v) for v in fr["xyz"][i])
        lines.append(f"{ids[i]} {int(fr['type'][i])} {x!r} {y!r} {z!r} {float(fr['r'][i])!r} {p} "
                     f"{i}.0")
    return "\n".join(lines) + "\n"


def _components(n, edges):
    par = list(range(n))

    def find(x):
        while par[x] != x:
            x = par[x]
        return x

    cyc = False
    for a, b in edges:
        ra, rb = find(a), find(b)
        if ra == rb:
            cyc = True
        par[ra] = rb
    return len({find(i) for i in range(n)}), cyc


def _check_repaired(ctx, case, fr, df, mode, what):
    rows = fr["rows"]
    n = len(rows)
    if len(df) != n:
        return ctx.violation("repair-row-count", f"{what}: {len(df)} rows returned for {n}", case)
    tags = [int(round(v)) for v in df["tag"].tolist()]
    if sorted(tags) != list(range(n)):
        return ctx.violation("repair-rows-changed", f"{what}: the rows returned are not the rows of "
                                                    f"the file", case)
    if tags != [int(i) for i in fr["order"]]:
        return ctx.violation("repair-row-order", f"{what}: row order changed", case)
    id_of = {t: int(i) for t, i in zip(tags, df["id"].tolist())}
    if len(set(id_of.values())) != n:
        return ctx.violation("repair-ids", f"{what}: ids are not distinct", case)
    tag_of_id = {v: k for k, v in id_of.items()}
    ptag = {}
    for t, p in zip(tags, df["pid"].tolist()):
        p = int(p)
        if p == -1:
            ptag[t] = None
        elif p in tag_of_id:
            ptag[t] = tag_of_id[p]
        else:
            return ctx.violation("repair-dangling-parent", f"{what}: node tagged {t} has parent id "
                                                           f"{p}, which names no row", case)
    for pos, t in enumerate(tags):
        for k, want in (("type", int(fr["type"][t])), ("x", float(fr["xyz"][t][0])),
                        ("y", float(fr["xyz"][t][1])), ("z", float(fr["xyz"][t][2])),
                        ("r", float(fr["r"][t]))):
            if float(df[k].iloc[pos]) != float(want):
                return ctx.violation("repair-attribute-changed",
                                     f"{what}: {k} of node tagged {t} is {df[k].iloc[pos]!r}, the "
                                     f"file says {want!r}", case)
    first_root = fr["order"][0] if rows[fr["order"][0]]["ptag"] is None else \
        next(i for i in fr["order"] if rows[i]["ptag"] is None)
    old_roots = [r["tag"] for r in rows if r["ptag"] is None]
    for r in rows:  # every original edge
        if r["ptag"] is not None and ptag[r["tag"]] != r["ptag"]:
            return ctx.violation("repair-edge-lost", f"{what}: edge {r['ptag']}->{r['tag']} of the "
                                                     f"file became {ptag[r['tag']]}->{r['tag']}",
                                 case)
    if mode is False:
        for t in old_roots:
            if ptag[t] is not None:
                return ctx.violation("root-marker-lost", f"{what}: root tagged {t} lost its "
                                                         f"'no parent' marker (pid -> id of tag "
                                                         f"{ptag[t]})", case)
        return
    new_roots = [t for t in tags if ptag[t] is None]
    if new_roots != [first_root]:
        return ctx.violation("repair-roots", f"{what}: roots after repair are the nodes tagged "
                                             f"{new_roots}, expected only the first root "
                                             f"{first_root}", case)
    comps, cyc = _components(n, [(t, p) for t, p in ptag.items() if p is not None])
    if comps != 1 or cyc:
        return ctx.violation("repair-not-a-tree", f"{what}: result has {comps} component(s), "
                                                  f"cycle={cyc}", case)
    if mode == "somas":
        for t in old_roots:
            if t != first_root and ptag[t] != first_root:
                return ctx.violation("repair-somas-link", f"{what}: root tagged {t} was linked to "
                                                          f"{ptag[t]}, not to the first root", case)
    else:
        frag = {r["tag"]: r["frag"] for r in rows}
        for t in old_roots:
            if t != first_root and frag[ptag[t]] == frag[t]:
                return ctx.violation("repair-self-link", f"{what}: root tagged {t} was linked into "
                                                         f"its own fragment", case)


def check_repair(ctx, case):
    from swcgeom.core import Tree
    from swcgeom.core import swc_utils as su

    fr = gen_forest(case["seed"])
    mode = case["mode"]
    text = forest_text(fr)
    if fr["k"] >= 3:
        ctx.count("repair_three_or_more_roots")
    ctx.count("repair_" + (mode or "off"))
    ctx.count("layout_" + fr["layout"])
    ctx.count(f"id_base_{fr['base']}")
    with warnings.catch_warnings(record=True) as w:
        warnings.simplefilter("always")
        try:
            df, _ = su.read_swc(io.StringIO(text), extra_cols=["tag"], fix_roots=mode)
        except Exception as e:
            return ctx.violation("read-forest-raised",
                                 f"read_swc(fix_roots={mode!r}) raised {type(e).__name__}: "
                                 f"{str(e)[:160]} on a {fr['k']}-root file (id base {fr['base']}, "
                                 f"{fr['layout']})", case)
    if mode is False and not any("not a simple tree" in str(x.message) or "root" in str(x.message)
                                 for x in w):
        ctx.violation("no-forest-warning", "a file with several roots was read without a warning",
                      case)
    _check_repaired(ctx, case, fr, df, mode, f"read_swc(fix_roots={mode!r})")
    if fr["layout"] != "shuffled" and mode is not False:
        # the Tree front end on a conventional file: must be a well-formed tree
        with warnings.catch_warnings():
            warnings.simplefilter("ignore")
            try:
                t = Tree.from_swc(io.StringIO(text), fix_roots=mode)
            except Exception as e:
                return ctx.violation("read-forest-raised", f"Tree.from_swc(fix_roots={mode!r}): "
                                                           f"{type(e).__name__}: {e.__cause__}", case)
        wf = topo.well_formed(t.id(), t.pid())
        if wf:
            ctx.violation("repair-not-a-tree", f"Tree.from_swc(fix_roots={mode!r}): {wf}", case)
    # table-level functions on the raw (un-rebased) table; the copying forms must not touch the input
    with warnings.catch_warnings():
        warnings.simplefilter("ignore")
        raw, _ = su.read_swc(io.StringIO(text), extra_cols=["tag"], reset_index=False)
    before = raw.copy(deep=True)
    ctx.count("repair_table_functions")
    try:
        if mode == "somas":
            out = su.mark_roots_as_somas(raw)
        elif mode == "nearest":
            out = su.link_roots_to_nearest(raw)
        else:
            out = su.reset_index(raw)
    except Exception as e:
        return ctx.violation("repair-function-raised", f"{mode or 'reset_index'}: "
                                                       f"{type(e).__name__}: {str(e)[:160]}", case)
    if not raw.equals(before):
        return ctx.violation("repair-input-mutated", f"the copying form for {mode or 'reset_index'} "
                                                     f"changed its input table", case)
    _check_repaired(ctx, case, fr, out, mode, f"table function for {mode or 'reset_index'}")
    if mode is False:
        # documented re-basing: every id and every real parent shifts by the first root's id
        first = int(raw["id"].iloc[int((raw["pid"] == -1).to_numpy().argmax())])
        if not (np.array_equal(out["id"].to_numpy(), raw["id"].to_numpy() - first) and
                np.array_equal(out["pid"].to_numpy(),
                               np.where(raw["pid"].to_numpy() == -1, -1,
                                        raw["pid"].to_numpy() - first))):
            ctx.violation("reset-index-wrong", "reset_index did not shift ids and real parents by "
                                               "the first root's id", case)


def check_repair_tables(ctx, case):
    """The table-level repair functions on forests of many roots (2 .. 300: past any block size)
    whose ids are arbitrary -- in particular the first root (in row order) does not carry the
    smallest id.  No file and no re-basing is involved here, so that id layout is unambiguous."""
    from swcgeom.core import swc_utils as su

    rng = np.random.default_rng(case["seed"])
    k, mode = int(case["roots"]), case["mode"]
    rows, tag = [], 0
    for f in range(k):
        first = tag
        for j in range(int(rng.integers(1, 4))):
            rows.append({"tag": tag, "ptag": None if j == 0 else int(rng.integers(first, tag)),
                         "frag": f})
            tag += 1
    n = len(rows)
    xyz = (rng.normal(0, 30, (n, 3))).astype(np.float32)
    fr = {"rows": rows, "xyz": xyz, "type": rng.choice([0, 2, 3, 4, 5], n),
          "r": np.round(np.exp(rng.normal(0, .5, n)), 4), "order": list(range(n)), "k": k}
    ids = int(rng.choice([0, 1, 7])) + rng.permutation(n)
    if ids[0] == ids.min():  # the first root is *not* the lowest-numbered one
        j = int(np.argmax(ids))
        ids[0], ids[j] = ids[j], ids[0]
    raw = pd.DataFrame({
        "id": ids.astype(np.int64), "type": np.asarray(fr["type"], dtype=np.int64),
        "x": xyz[:, 0].astype(np.float64), "y": xyz[:, 1].astype(np.float64),
        "z": xyz[:, 2].astype(np.float64), "r": np.asarray(fr["r"], dtype=np.float64),
        "pid": np.array([-1 if r_["ptag"] is None else ids[r_["ptag"]] for r_ in rows],
                        dtype=np.int64),
        "tag": np.arange(n, dtype=np.float64)})
    before = raw.copy(deep=True)
    ctx.count("repair_tables_many_roots")
    if k >= 129:
        ctx.count("repair_tables_129_roots_and_more")
    with warnings.catch_warnings():
        warnings.simplefilter("ignore")
        try:
            out = su.mark_roots_as_somas(raw) if mode == "somas" else su.link_roots_to_nearest(raw)
        except Exception as e:
            return ctx.violation("repair-function-raised", f"{mode} on {k} roots: "
                                                           f"{type(e).__name__}: {str(e)[:160]}", case)
    if not raw.equals(before):
        return ctx.violation("repair-input-mutated", f"the copying form for {mode} changed its "
                                                     f"input table", case)
    _check_repaired(ctx, case, fr, out, mode, f"table function for {mode} on {k} roots")


def execute(ctx, case):
    k = case["kind"]
    if k == "repair_tables":
        return check_repair_tables(ctx, case)
    if k == "table":
        check_table(ctx, case)
    elif k == "dsu":
        check_dsu(ctx, case)
    else:
        check_repair(ctx, case)


def random_table(rng):
    n = int(rng.integers(2, 40)) if rng.random() < 0.8 else int(rng.integers(40, 300))
    style = str(rng.choice(["random", "forest", "one-cycle", "tree", "selfloop", "bigcycle"]))
    pid = np.full(n, -1, dtype=np.int64)
    if style == "random":
        pid = rng.integers(-1, n, n)
    elif style in ("forest", "tree", "one-cycle", "selfloop"):
        nroots = 1 if style != "forest" else int(rng.integers(2, 6))
        for i in range(nroots, n):
            pid[i] = rng.integers(0, i)
        if style == "one-cycle":
            a = int(rng.integers(0, n))
            # point some root-side node into its own subtree or a root into a tree
            pid[0] = a if a != 0 else n - 1
        if style == "selfloop":
            a = int(rng.integers(0, n))
            pid[a] = a
        perm = rng.permutation(n)  # relabel so that the numbering is arbitrary
        inv = np.empty(n, dtype=np.int64)
        inv[perm] = np.arange(n)
        pid = np.where(pid[perm] < 0, -1, inv[np.maximum(pid[perm], 0)])
        if rng.random() < 0.4:  # keep some sorted ones
            pid2 = np.full(n, -1, dtype=np.int64)
            for i in range(nroots, n):
                pid2[i] = rng.integers(0, i)
            pid = pid2
    else:  # one long cycle through all nodes (no root at all)
        perm = rng.permutation(n)
        pid[perm] = np.roll(perm, 1)
    ids = np.arange(n)
    u = rng.random()
    if u < 0.25:  # arbitrary distinct ids, arbitrary row order (table-level functions only)
        new = rng.choice(np.arange(0, 10 * n + 20), n, replace=False)
        order = rng.permutation(n)
        pid = np.where(pid < 0, -1, new[np.maximum(pid, 0)])[order]
        ids = new[order]
    elif u < 0.4:  # permuted row order, ids still a permutation of 0..n-1
        order = rng.permutation(n)
        ids, pid = ids[order], pid[order]
    return ids.tolist(), [int(p) for p in pid]


def run(ctx):
    rng = ctx.rng
    nmax = 4 if ctx.quick else 6
    k = 0
    for n in range(1, nmax + 1):
        for p in itertools.product(range(-1, n), repeat=n):
            k += 1
            if k % ctx.nshards != ctx.shard:
                continue
            case = {"kind": "table", "ids": list(range(n)), "pids": list(p)}
            ctx.case(case, nontrivial=n >= 2, klass=f"exhaustive/n={n}")
            ctx.count("tables_exhaustive")
            execute(ctx, case)
    # regular families random tables practically never produce: root-less rings of every length
    # in both orientations (parent = next row / previous row), rings with tails, long chains
    # listed tip first, stars around the last row, two rings
    fam = []
    for n in range(2, 41 if ctx.quick else 130):
        fwd = [(i + 1) % n for i in range(n)]
        bwd = [(i - 1) % n for i in range(n)]
        fam += [("ring-next", fwd), ("ring-prev", bwd),
                ("chain-tip-first", [i + 1 for i in range(n - 1)] + [-1]),
                ("star-last", [n - 1] * (n - 1) + [-1])]
        if n >= 5:
            t_ = n // 2
            fam.append(("ring-with-tail", [(i + 1) % t_ for i in range(t_)]
                        + [i - 1 for i in range(t_, n)]))
            fam.append(("two-rings", [(i + 1) % t_ for i in range(t_)]
                        + [t_ + (i + 1 - t_) % (n - t_) for i in range(t_, n)]))
    for j, (name, pids_) in enumerate(fam):
        if j % ctx.nshards != ctx.shard:
            continue
        case = {"kind": "table", "ids": list(range(len(pids_))), "pids": [int(v) for v in pids_]}
        ctx.case(case, klass="family/" + name)
        ctx.count("tables_regular_families")
        execute(ctx, case)
    for _ in range(ctx.scale(1600, 60000)):
        ids, pids = random_table(rng)
        case = {"kind": "table", "ids": ids, "pids": pids}
        ctx.case(case, klass="random-table")
        ctx.count("tables_random")
        execute(ctx, case)
    for _ in range(ctx.scale(500, 12000)):
        case = {"kind": "dsu", "seed": int(rng.integers(0, 2**31 - 1)),
                "n": int(rng.integers(2, 41)), "nops": int(rng.integers(2, 400 if not ctx.quick
                                                                        else 120)),
                "mode": str(rng.choice(["allpairs", "end", "chainy"]))}
        if case["mode"] == "allpairs":
            case["n"] = min(case["n"], 16)
        if rng.random() < 0.4:
            case["twins"] = int(rng.integers(2, 4))
        ctx.case(case, klass="dsu/" + case["mode"])
        execute(ctx, case)
    ctx.count("dsu_invariant_evaluations", _DsuInv.evals)
    root_counts = [2, 3, 5, 8, 16, 17, 64, 127, 128, 129, 130, 255, 256, 257, 300]
    for j, kroots in enumerate(root_counts):
        if j % ctx.nshards != ctx.shard:
            continue
        for mode in ("somas", "nearest"):
            case = {"kind": "repair_tables", "seed": 900 + j, "roots": kroots, "mode": mode}
            ctx.case(case, klass=f"repair-tables/{mode}")
            execute(ctx, case)
    for _ in range(ctx.scale(900, 24000)):
        case = {"kind": "repair", "seed": int(rng.integers(0, 2**31 - 1)),
                "mode": [False, "somas", "nearest"][int(rng.integers(0, 3))]}
        ctx.case(case, klass=f"repair/{case['mode'] or 'off'}")
        execute(ctx, case)


def replay(ctx, case):
    ctx.case(case)
    execute(ctx, case)
