"""C13 — closed-form volumes of the primitives equal the true geometric volume.

Monitor: value comparison of every closed-form volume the library reports (sphere, spherical
cap, frustum, sphere n sphere, sphere u sphere, sphere n frustum, sphere u frustum for a frustum
sharing the sphere's centre and radius at one end) with an oracle that shares no case analysis
with the library: all of these are solids of revolution about the line of centres, so the true
volume is the 1-D integral of pi * min(rho_A(z), rho_B(z))^2 (scipy.integrate.quad with break
points at the profile kinks).  A sys.monitoring tap confirms the sampling fallback was never
taken (the statement is about the volumes reported *without* sampling).
"""

from __future__ import annotations

import warnings

import numpy as np
from scipy.integrate import quad

from rv import probes

PROPERTY = "C13"
LEVEL = "exploration"
TECHNIQUE = ("runtime monitoring: value comparison of VolSphere / VolFrustumCone / intersect / "
             "union get_volume() and get_volume_spherical_cap() with 1-D quadrature of "
             "pi*min(rho)^2 along the common axis (solids of revolution); configurations built by "
             "class (tangent, internally tangent, nested, concentric, taper direction, end order, "
             "operand order, orientation incl. coordinate axes); call tap proving no sampling path")
LEVEL_TEXT = ("Exploration: thousands of configurations with radii and heights log-uniform over "
              "three decades, every relation r2 <,=,> r1 and h <,=,> r1, r2, tangent / internally "
              "tangent / nested / concentric / just-inside / just-outside sphere pairs in both "
              "operand orders, frusta given in either end order, pure cones, union called from "
              "either operand, random and coordinate-axis orientations, positions up to 300 radii "
              "from the origin. Held = held on those executions."
              " Directions a fraction of a degree off an axis or diagonal; sizes given as Python ints up to 4e7 (cube beyond 2^63); micro-scale and very large solids (1e-4 .. 1e7)."
              " Sizes are also numpy scalars / 0-d arrays; composite objects are sometimes first asked with a sampling option they reject."
              " Both centres as int32 / int16 arrays with separations beyond 46340 / 181."
              " Other composites are built (one measured) between building a composite and measuring it; every volume is asked for twice."
              " Sphere pairs in small length units (1e-5 .. 1e-9)."
              " The caller reuses its coordinate arrays after the solids are built."
              " Sphere-frustum solids under two-decimal print options right after a near twin.")
LEVEL_NOTE = ("Trusts scipy.integrate.quad (epsrel 1e-12, break points supplied). Tolerance: "
              "1e-7 of the smaller solid's volume + 1e-12 of the larger; inside the library's own "
              "eps = 1e-6 fast-path band (0 < r_near - r_far <= 1e-6) an allowance of "
              "2*pi*r*min(h,r)*1.5e-6 is added, and 2e-6*pi*r^3 when the far rim lies within 4e-6*r "
              "inside the sphere surface (the library's 't > 1 + eps' band). Heights > 0, sphere radii > 0. For two spheres a conditioning "
              "allowance 4e-16*(r1+r2)^4/d is added (rounding in any closed form of the lens as "
              "d -> 0).")
RULE = ("cases = (kind, radii, distance / height, orientation, position, operand / end order) drawn "
        "per class; non-trivial when the configuration is not disjoint-or-identical by construction; "
        "distinct = distinct parameter tuples")
ASSUMPTIONS = [
    "the frustum shares centre and radius with the sphere at one end (the statement's case)",
    "heights > 0, sphere radii > 0; far-end radius >= 0",
]
REQUIRED = ["composites_built_between_build_and_measure", "solids_measured_after_a_near_twin_under_coarse_print_options", "centre_arrays_overwritten_after_construction", "sphere_pairs_in_small_units", "sphere_checked", "cap_checked", "frustum_checked", "ss_intersections", "ss_unions",
            "sf_intersections", "sf_unions", "ss_tangent", "ss_nested", "ss_concentric",
            "ss_smaller_first", "sf_far_end_order", "sf_taper_narrowing", "sf_taper_widening",
            "sf_frustum_inside_sphere", "sf_h_below_r", "sf_h_above_r", "sf_axis_aligned",
            "sf_union_from_frustum", "integer_centres", "integer_sizes",
            "integer_sizes_cube_beyond_int64", "direction_near_axis", "micro_or_huge_sizes",
            "sizes_as_numpy_scalars_or_0d_arrays", "rejected_call_before_get_volume",
            "both_centres_small_integer_arrays"]
FLOOR = {"quick": 3000, "thorough": 640000}
SHARDS = {"quick": 8, "thorough": 16}

AXES = [[1, 0, 0], [-1, 0, 0], [0, 1, 0], [0, -1, 0], [0, 0, 1], [0, 0, -1], [1, 1, 1],
        [-1, -1, -1], [1, -1, 0]]


def integ(f, a, b, pts):
    if not b > a:
        return 0.0
    pts = sorted(p for p in set(pts) if a < p < b)
    with warnings.catch_warnings():
        warnings.simplefilter("ignore")
        v, _ = quad(f, a, b, points=pts or None, limit=400, epsabs=0, epsrel=1e-12)
    return v


def true_ss(r1, r2, d):
    """True volume of the intersection of two spheres at centre distance d."""
    lo, hi = max(-r1, d - r2), min(r1, d + r2)

    def rho2(z):
        return max(0.0, min(r1 * r1 - z * z, r2 * r2 - (z - d) ** 2))

    kink = [(d * d + r1 * r1 - r2 * r2) / (2 * d)] if d > 0 else []
    return np.pi * integ(rho2, lo, hi, kink)


def true_sf(r1, r2, h):
    """Sphere (radius r1, centre at z=0) n frustum from (z=0, r1) to (z=h, r2)."""

    def rho2(z):
        return max(0.0, min(r1 * r1 - z * z, (r1 + (r2 - r1) * z / h) ** 2))

    kink = []
    if r1 > r2:
        kink.append(2 * r1 * (r1 - r2) / ((r1 - r2) ** 2 + h * h) * h)
    return np.pi * integ(rho2, 0.0, min(r1, h), kink)


def _dir(case):
    u = np.array(case["u"], dtype=np.float64)
    return u / np.linalg.norm(u)


def _caller_reuses(ctx, scale, *arrays):
    """The caller's coordinate arrays are working buffers: once the solids are built it moves on and
    overwrites them (the next pair of points).  The solids stay where they were built."""
    k = 0
    for a in arrays:
        if isinstance(a, np.ndarray) and a.flags.writeable and a.dtype.kind == "f":
            a += (3.0 + 2 * k) * scale
            k += 1
    if k:
        ctx.count("centre_arrays_overwritten_after_construction")


def _vol(ctx, case, obj):
    """get_volume() of a composite; every other time the caller first tried to pass a sampling
    option these closed-form objects do not take (rejected with TypeError) -- the plain call
    afterwards still reports the closed form."""
    if case.get("bad_call_first"):
        try:
            obj.get_volume(n_samples=200)
        except TypeError:
            ctx.count("rejected_call_before_get_volume")
    if ctx.evaluations % 2 == 1:
        # other composites are built (and one of them measured) between building this one and
        # measuring it: every object answers for its own solids
        from swcgeom.utils import VolFrustumCone, VolSphere

        a, b = VolSphere((0.5, -1.0, 2.0), 1.75), VolSphere((1.5, -1.0, 2.0), 0.6)
        f = VolFrustumCone((0.5, -1.0, 2.0), 1.75, (0.5, 2.0, 2.0), 0.4)
        decoys = [a.intersect(b), a.union(b), a.intersect(f), a.union(f), f.union(a)]
        decoys[ctx.evaluations // 2 % len(decoys)].get_volume()
        ctx.count("composites_built_between_build_and_measure")
    v = obj.get_volume()
    again = obj.get_volume()  # (a composite remembers its volume)
    if not (again == v or (again != again and v != v)):
        ctx.violation("volume-changes-on-second-call", f"get_volume() gave {v!r}, then {again!r} on "
                                                       f"the same object", case)
    return v


def execute(ctx, case):
    if case.get("print_options") and not case.get("_inside"):
        # the caller prints its arrays with two decimals (np.set_printoptions): how arrays print is
        # none of the volume code's business
        with np.printoptions(precision=2, suppress=True, floatmode="fixed"):
            return execute(ctx, dict(case, _inside=True))
    from swcgeom.utils import VolFrustumCone, VolSphere

    k = case["kind"]
    if case.get("int_sizes"):
        case = dict(case, **{q: int(case[q]) for q in ("r1", "r2", "h", "d") if q in case})
        ctx.count("integer_sizes")
        if case["r1"] >= 2097152:
            ctx.count("integer_sizes_cube_beyond_int64")
    if case.get("size_form") and not case.get("int_sizes"):
        # the same sizes as numpy scalars or 0-d arrays (what indexing / np.asarray hand out)
        mk = {"np64": np.float64, "zero_d": lambda v: np.array(float(v))}[case["size_form"]]
        case = dict(case, **{q: mk(case[q]) for q in ("r1", "r2", "h", "d") if q in case})
        ctx.count("sizes_as_numpy_scalars_or_0d_arrays")
    if case.get("near_axis"):
        ctx.count("direction_near_axis")
    if case.get("wide"):
        ctx.count("micro_or_huge_sizes")
    if case.get("small_unit"):
        ctx.count("sphere_pairs_in_small_units")
    c = np.array(case["c"], dtype=np.float64)
    if case.get("int_centre"):
        # centres given as integers (tuple of ints / integer array), as voxel-grid callers do
        c = np.round(c)
        ctx.count("integer_centres")
    cin = c
    small = case.get("int_centre") in ("array32", "array16")
    if small:
        # both centres on the integer grid, held in 32- or 16-bit integer arrays (voxel indices,
        # integer nanometres): the second centre is the first plus an integer distance along a
        # coordinate axis, so nothing about the geometry is rounded
        dt = np.int32 if case["int_centre"] == "array32" else np.int16
        lim = 2**31 - 1 if dt is np.int32 else 2**15 - 1
        ax = np.zeros(3)
        ax[int(abs(c[0])) % 3] = 1.0 if int(abs(c[1])) % 2 else -1.0
        dist = float(np.round(case.get("d", case.get("h", 0.0))))
        if np.abs(c).max() + dist >= lim or (("h" in case) and dist < 1):
            small = False
        else:
            case = dict(case, u=ax.tolist(), **({"d": dist} if "d" in case else {}),
                        **({"h": dist} if "h" in case else {}))
            cin = c.astype(dt)
            ctx.count("both_centres_small_integer_arrays")
    if case.get("int_centre") == "tuple":
        cin = tuple(int(v) for v in c)
    elif case.get("int_centre") == "array":
        cin = c.astype(np.int64)
    try:
        if k == "sphere":
            r = case["r1"]
            got = VolSphere(cin, r).get_volume()
            want = np.pi * integ(lambda z: r * r - z * z, -r, r, [])
            ctx.count("sphere_checked")
            return _cmp(ctx, case, "sphere volume", got, want, want, want)
        if k == "cap":
            r, hc = case["r1"], case["h"]
            got = VolSphere(c, r).get_volume_spherical_cap(hc)
            want = np.pi * integ(lambda z: r * r - z * z, r - hc, r, [])
            ctx.count("cap_checked")
            return _cmp(ctx, case, f"spherical cap h={hc:.4g} of r={r:.4g}", got, want,
                        4 / 3 * np.pi * r ** 3, 4 / 3 * np.pi * r ** 3)
        if k == "frustum":
            r1, r2, h = case["r1"], case["r2"], case["h"]
            u = _dir(case)
            got = VolFrustumCone(c, r1, c + u * h, r2).get_volume()
            hh = float(np.linalg.norm((c + u * h) - c))
            want = np.pi * integ(lambda z: (r1 + (r2 - r1) * z / hh) ** 2, 0, hh, [])
            ctx.count("frustum_checked")
            return _cmp(ctx, case, "frustum volume", got, want, want, want)
        if k == "ss":
            r1, r2, d = case["r1"], case["r2"], case["d"]
            u = _dir(case)
            c2 = c + u * d
            dd = float(np.linalg.norm(c - c2))  # the distance the library will see
            c2_ = c2.astype(cin.dtype) if small else c2
            s1, s2 = VolSphere(cin, r1), VolSphere(c2_, r2)
            if ctx.evaluations % 3 == 0:
                _caller_reuses(ctx, r1 + r2, cin, c2_)
            ti = true_ss(r1, r2, dd)
            v1, v2 = 4 / 3 * np.pi * r1 ** 3, 4 / 3 * np.pi * r2 ** 3
            if r1 < r2:
                ctx.count("ss_smaller_first")
            ctx.count("ss_" + case["rel"])
            # conditioning of any closed form in d as d -> 0+ outside the nested range: the lens
            # formula divides an O(r^4) cancellation by d, so rounding alone contributes about
            # eps * r^4 / d; this is float noise (2e-7 relative at d/r = 1e-9), not a wrong volume
            cond = 4e-16 * (r1 + r2) ** 4 / dd if dd > 0 else 0.0
            gi = _vol(ctx, case, s1.intersect(s2))
            ctx.count("ss_intersections")
            if _cmp(ctx, case, f"sphere n sphere (r1={r1:.4g}, r2={r2:.4g}, d={dd:.6g}, "
                               f"{case['rel']})", gi, ti, min(v1, v2), max(v1, v2), cond):
                return
            gu = _vol(ctx, case, s1.union(s2))
            ctx.count("ss_unions")
            return _cmp(ctx, case, f"sphere u sphere (r1={r1:.4g}, r2={r2:.4g}, d={dd:.6g}, "
                                   f"{case['rel']})", gu, v1 + v2 - ti, min(v1, v2), max(v1, v2), cond)
        if k == "sf":
            r1, r2, h = case["r1"], case["r2"], case["h"]
            u = _dir(case)
            far = case["far"]
            c2 = c + u * h
            hh = float(np.linalg.norm(c2 - c))
            if small:
                c2 = c2.astype(cin.dtype)
            if case.get("print_options"):
                # ... and has just measured the same solids about an almost identical axis
                e_ = np.eye(3)[int(np.argmin(np.abs(u)))]
                u_ = u + 3e-4 * (e_ - (e_ @ u) * u)
                u_ /= np.linalg.norm(u_)
                c2_ = c + u_ * h
                VolSphere(c, r1).intersect(VolFrustumCone(c, r1, c2_, r2)).get_volume()
                ctx.count("solids_measured_after_a_near_twin_under_coarse_print_options")
            fc = VolFrustumCone(cin, r1, c2, r2) if not far else VolFrustumCone(c2, r2, cin, r1)
            s = VolSphere(cin, r1)
            if ctx.evaluations % 3 == 0:
                _caller_reuses(ctx, r1 + hh, cin, c2)
            ti = true_sf(r1, r2, hh)
            vs = 4 / 3 * np.pi * r1 ** 3
            vf = np.pi * hh * (r1 * r1 + r1 * r2 + r2 * r2) / 3
            allow = 2 * np.pi * r1 * min(hh, r1) * 1.5e-6 if 0 < r1 - r2 <= 1.5e-6 else 0.0
            # the library's second eps band: the far rim within eps (1e-6, relative to the slant
            # parameter) *inside* the sphere is not yet treated as "frustum inside the sphere";
            # the general formula then errs by O(eps * r^3) (measured 6e-7 relative)
            rim = np.hypot(hh, r2)
            if r2 < r1 and 0 <= (r1 - rim) <= 4e-6 * r1:
                allow += 2e-6 * np.pi * r1 ** 3
                ctx.count("sf_far_rim_in_eps_band")
            ctx.count("sf_far_end_order" if far else "sf_near_end_order")
            ctx.count("sf_taper_narrowing" if r2 < r1 else
                      ("sf_taper_widening" if r2 > r1 else "sf_cylinder"))
            ctx.count("sf_h_below_r" if hh < r1 else "sf_h_above_r")
            if r2 < r1 and np.hypot(hh, r2) < r1:
                ctx.count("sf_frustum_inside_sphere")
            if case.get("axis_aligned"):
                ctx.count("sf_axis_aligned")
            what = f"(r_sphere={r1:.5g}, r_far={r2:.5g}, h={hh:.5g}, far_order={far}, u=" \
                   f"{np.round(u, 3).tolist()})"
            gi = _vol(ctx, case, s.intersect(fc))
            ctx.count("sf_intersections")
            if _cmp(ctx, case, "sphere n frustum " + what, gi, ti, min(vs, vf), max(vs, vf), allow):
                return
            if case.get("union_from") == "frustum":
                gu = _vol(ctx, case, fc.union(s))
                ctx.count("sf_union_from_frustum")
            else:
                gu = _vol(ctx, case, s.union(fc))
            ctx.count("sf_unions")
            return _cmp(ctx, case, "sphere u frustum " + what, gu, vs + vf - ti, min(vs, vf),
                        max(vs, vf), allow)
    except Exception as e:
        ctx.violation("volume-raised", f"{k}: {type(e).__name__}: {str(e)[:200]} ({case})", case)


def _cmp(ctx, case, what, got, want, vsmall, vlarge, allow=0.0):
    tol = 1e-7 * vsmall + 1e-12 * vlarge + allow
    if not isinstance(got, (int, float, np.floating, np.integer)) or not np.isfinite(got) \
            or abs(float(got) - want) > tol:
        ctx.violation("volume-wrong", f"{what}: reported {got!r}, true volume {want!r} "
                                      f"(difference {abs(float(got) - want):.3g}, tolerance "
                                      f"{tol:.3g})", case)
        return True
    return False


def draw(rng):
    u = rng.random()
    r1 = float(10 ** rng.uniform(-1.5, 1.5))
    if rng.random() < 0.3:
        r1 = float(rng.choice([0.5, 1.0, 2.0, 3.0, 4.0]))
    wide = rng.random() < 0.2
    if wide:  # "every size": micro-scale and very large solids
        r1 = float(10 ** rng.uniform(-4, 7))
    c = (rng.normal(size=3) * r1 * 10 ** rng.uniform(-1, 2)).tolist()
    if rng.random() < 0.15:
        c = [0.0, 0.0, 0.0]
    axis_aligned = bool(rng.random() < 0.3)
    dirv = AXES[int(rng.integers(0, len(AXES)))] if axis_aligned else rng.normal(size=3).tolist()
    near_axis = False
    if not axis_aligned and rng.random() < 0.2:
        # a direction a fraction of a degree off a coordinate axis (or off a diagonal)
        a = np.array(AXES[int(rng.integers(0, len(AXES)))], dtype=np.float64)
        a /= np.linalg.norm(a)
        t = rng.normal(size=3)
        t -= a * (t @ a)
        t /= np.linalg.norm(t)
        dirv = (a + np.tan(10 ** rng.uniform(-6, -2)) * t).tolist()
        near_axis = True
    base = {"r1": r1, "c": c, "u": dirv, "axis_aligned": axis_aligned, "near_axis": near_axis,
            "wide": bool(wide)}
    if rng.random() < 0.3:
        base["int_centre"] = str(rng.choice(["tuple", "array", "array32", "array16"]))
    if rng.random() < 0.25:
        base["size_form"] = str(rng.choice(["np64", "zero_d"]))
    base["bad_call_first"] = bool(rng.random() < 0.4)
    if rng.random() < 0.12:
        # sizes given as Python ints (what `VolSphere(c, 3)` passes), small and very large
        base["int_sizes"] = True
        base["r1"] = r1 = float(rng.choice([1, 2, 3, 7, 40, 1290, 1291, 46341, 2097151, 2097152,
                                            3000000, 40000000]))
    if u < 0.04:
        return dict(base, kind="sphere")
    if u < 0.10:
        h = float(rng.choice([0.0, r1, 2 * r1])) if rng.random() < 0.3 else float(rng.uniform(0, 2) * r1)
        return dict(base, kind="cap", h=h)
    r2 = float(r1 * 10 ** rng.uniform(-1.5, 1.5)) if rng.random() < 0.8 else r1
    if rng.random() < 0.08:
        r2 = r1 * (1 - float(rng.choice([1e-3, 1e-5, 3e-7, 1e-9])))
    if rng.random() < 0.08:
        r2 = r1 * (1 + float(rng.choice([1e-3, 1e-5, 3e-7])))
    if u < 0.16:
        h = float(r1 * 10 ** rng.uniform(-1.5, 1.5))
        if rng.random() < 0.1:
            r2 = 0.0
        return dict(base, kind="frustum", r2=r2, h=h)
    if u < 0.5:
        rel = str(rng.choice(["random", "random", "tangent", "inner_tangent", "nested",
                              "concentric", "just_inside", "just_outside", "just_nested",
                              "just_not_nested", "disjoint"]))
        lo, hi = abs(r1 - r2), r1 + r2
        d = {"random": float(rng.uniform(0, 1.2) * hi), "tangent": hi, "inner_tangent": lo,
             "nested": float(rng.uniform(0, 1) * lo), "concentric": 0.0,
             "just_inside": hi * (1 - 1e-6), "just_outside": hi * (1 + 1e-6),
             "just_nested": lo * (1 - 1e-6), "just_not_nested": lo * (1 + 1e-6) + 1e-9 * hi,
             "disjoint": hi * float(rng.uniform(1.01, 3))}[rel]
        if rel in ("nested", "inner_tangent", "just_nested", "just_not_nested") and lo == 0:
            rel, d = "concentric", 0.0
        rel_c = {"random": "generic", "tangent": "tangent", "inner_tangent": "tangent",
                 "nested": "nested", "concentric": "concentric", "just_inside": "tangent",
                 "just_outside": "tangent", "just_nested": "nested", "just_not_nested": "nested",
                 "disjoint": "disjoint"}[rel]
        out = dict(base, kind="ss", r2=r2, d=float(d), rel=rel_c, rel_detail=rel)
        if rng.random() < 0.15 and not base.get("int_sizes") and not base.get("int_centre"):
            # the same pair of spheres in another length unit (metres instead of micrometres ...):
            # "every size" -- the two-sphere formulas carry no absolute tolerance
            k_ = float(10.0 ** -int(rng.choice([5, 6, 7, 9])))
            out.update(r1=r1 * k_, r2=r2 * k_, d=float(d) * k_, c=[v * k_ for v in base["c"]],
                       small_unit=True)
        return out
    h = float(r1 * 10 ** rng.uniform(-1.5, 1.5))
    v = rng.random()
    if v < 0.12:
        h = r1
    elif v < 0.2:
        h = r2 if r2 > 1e-2 * r1 else r1
    elif v < 0.3 and r2 < r1:  # far rim near the sphere surface: sqrt(h^2 + r2^2) ~ r1
        h = float(np.sqrt(max(r1 * r1 - r2 * r2, 1e-6 * r1 * r1)) * rng.choice([1 - 1e-6, 1.0,
                                                                                 1 + 1e-6, 0.9]))
    if rng.random() < 0.06:
        r2 = 0.0
    return dict(base, kind="sf", r2=r2, h=max(h, 1e-2 * r1), far=bool(rng.random() < 0.4),
                union_from=str(rng.choice(["sphere", "frustum"])))


def draw_case(rng):
    case = draw(rng)
    if case.get("int_sizes"):
        r1 = case["r1"]
        for k in ("r2", "h", "d"):
            if k in case:
                v = float(np.round(case[k]))
                if k == "h" or (k == "r2" and case["kind"] != "frustum" and case["kind"] != "sf"):
                    v = max(v, 1.0)
                case[k] = v
        if case["kind"] == "cap":
            case["h"] = float(min(case["h"], 2 * r1))
    return case


def run(ctx):
    from swcgeom.utils import volumetric_object as vo

    rng = ctx.rng
    targets = {"sdf_sampling": vo.VolMCObject._get_volume} if hasattr(vo, "VolMCObject") else {}
    tap = probes.CallTap(targets)
    with tap:
        for _ in range(ctx.scale(5000, 1040000)):
            case = draw_case(rng)
            if case["kind"] == "sf" and not case.get("int_sizes") and rng.random() < 0.3:
                case["print_options"] = True
            ctx.case(case, nontrivial=not (case["kind"] == "ss" and case["rel"] == "disjoint"),
                     klass=case["kind"] + ("/" + case["rel"] if case["kind"] == "ss" else ""))
            execute(ctx, case)
    ctx.count("sampling_fallback_calls", tap.counts.get("sdf_sampling", 0))
    if tap.counts.get("sdf_sampling", 0):
        ctx.violation("sampling-path-taken", f"the Monte-Carlo estimator ran "
                                             f"{tap.counts['sdf_sampling']} time(s) for a "
                                             f"configuration the statement lists as closed-form",
                      {"note": "see cases of this run"})


def replay(ctx, case):
    if "note" in case:
        return
    ctx.case(case)
    execute(ctx, case)
