"""C20 — image stacks survive save/load; rasterised trees match their geometry.

Monitors
* I/O: value comparison of ``read_imgs(save(a))`` with the documented scaling applied by the
  harness (uint->float: /max, float->uint: *max then cast, same kind: cast), shape (X, Y, Z, C);
  TIFF (save_tiff, compression on/off, save dtype), NPY and NRRD; value patterns that make a
  transposed or flipped axis visible.
* Raster: voxel-wise comparison of ``ToImageStack(res)(tree)`` with an independent float64
  round-cone signed distance evaluated at the voxel centres the statement defines; centres
  within 1e-3 of a surface are skipped and counted; shape = number of centres below the upper
  bound per axis, order (Z, X, Y); ``transform_and_save`` -> ``read_imgs`` closes the loop.
``sdflit`` failures surface as ``pyo3_runtime.PanicException`` (a BaseException): caught and
reported as an outcome, never a dead shard.
"""

from __future__ import annotations

import os
import shutil
import tempfile
import warnings

import numpy as np

from rv import probes
from rv.gen import trees as G

PROPERTY = "C20"
LEVEL = "exploration"
TECHNIQUE = ("runtime monitoring: value comparison of read_imgs(save_tiff / np.save / nrrd.write) "
             "round trips with harness-side documented scaling on axis-revealing value patterns; "
             "voxel-wise comparison of ToImageStack output with an independent float64 round-cone "
             "SDF at the stated voxel centres (near-surface centres classified inconclusive); "
             "transform_and_save -> read_imgs loop; BaseException capture around sdflit")
LEVEL_TEXT = ("Exploration: hundreds to thousands of stacks (all permutations of distinct sizes, "
              "size-1 axes in every position, C in {absent,1,3}, uint8/16/32 and float32/64 x save "
              "dtype x read dtype x TIFF/NPY/NRRD x compression) and of rasterised trees (2-30 "
              "nodes, dyadic / anisotropic / generic resolutions, radii around the voxel size, "
              "positions up to |1000|, explicit ranges), every voxel compared. Held = held on those "
              "executions."
              "A third of the rasters are repeated with the same transformer on the same tree object after an in-place edit."
              " Trees derived from an already rasterised tree (sort_tree, redirect_tree, a tip re-attached in place) are rasterised too."
              " Fortran-ordered, transposed and strided stacks; the rasteriser object is also re-used after another tree and a call with malformed ranges."
              " Trees naming one source file on one rasteriser; stacks holding only small integers (0/1 masks)."
              " Neurites lying in a plane thinner than a voxel; dtypes spelled as scalar type / dtype object / name; voxels whose level x maximum is an exact integer must convert exactly."
              " The older single-channel front end (read_images: get_full, shape, indexing)."
              " Flat neurites in one optical section (a raster of one z slice, saved and read back); two rasters of one transformer taken slice by slice in turns."
              " The caller's resolution array rescaled in place after construction."
              " A stack opened by a relative name and looked at after the caller changed directory.")
LEVEL_NOTE = ("Raster workload bounded to proper round cones (segment longer than the radius "
              "difference by a margin) and trees with >= 2 nodes; a voxel centre within 1e-3 of the "
              "surface, or a boundary centre within 1e-4 of the upper bound, is not decided. Trusts "
              "tifffile / pynrrd / numpy as file codecs and the closed-form round-cone distance.")
RULE = ("cases = (shape, dtype, pattern, format, save dtype, read dtype, compression) or (tree "
        "recipe, radii scale, resolution, ranges mode); non-trivial when the stack has >= 2 voxels / "
        "the raster has lit and unlit voxels; distinct = distinct case descriptions")
ASSUMPTIONS = [
    "float stacks hold values in [0, 1] (the documented assumption of the scaling)",
    "every rasterised edge is a proper round cone; the bounding box is at least one voxel thick",
]
REQUIRED = ["io_roundtrips", "io_tiff", "io_npy", "io_nrrd", "io_uint_to_float", "io_float_to_uint",
            "io_same_kind", "io_size1_axis", "io_rgb", "io_3d_input", "rasters", "voxels_compared",
            "voxels_lit", "raster_anisotropic", "raster_generic_resolution", "raster_far_positions",
            "raster_saved_and_read", "raster_explicit_ranges", "raster_thin_tiles",
            "raster_whole_brain_coordinates",
            "rasters_after_inplace_edit", "rasters_of_derived_trees", "io_non_contiguous_input",
            "io_small_integer_values", "io_dtype_spelled_as_object_or_name", "rasters_one_voxel_thick",
            "io_float_stacks_holding_exactly_one",
            "transformer_reused", "rejected_calls_before_raster", "rasters_interleaved",
            "raster_one_slice_saved_and_read", "io_older_gray_front_end",
            "resolution_arrays_edited_after_construction", "io_relative_name_then_chdir",
            "tap_get_samplers"]
FLOOR = {"quick": 450, "thorough": 45000}
SHARDS = {"quick": 8, "thorough": 16}
TIMEOUT = {"quick": 400, "thorough": 3000}

UMAX = {"uint8": 2**8 - 1, "uint16": 2**16 - 1, "uint32": 2**32 - 1}


# ------------------------------------------------------------------------------- I / O
def pattern(shape4, dtype, kind, seed):
    X, Y, Z, C = shape4
    i, j, k, c = np.meshgrid(np.arange(X), np.arange(Y), np.arange(Z), np.arange(C), indexing="ij")
    if kind == "ramp":  # every axis, and its direction, is visible
        v = (i * 7 + j * 13 + k * 29 + c * 101 + 3) % 251
        lev = v / 250.0
    elif kind == "random":
        lev = np.random.default_rng(seed).random(shape4)
    elif kind == "extremes":
        # only the two ends of the range: exactly 0 and exactly 1 (float) / 0 and the dtype's maximum
        lev = ((i + j + k + c) % 2).astype(np.float64)
        lev.reshape(-1)[0] = 1.0
    elif kind in ("mask", "ones", "low"):
        # raw integer values, not levels: a 0/1 mask, an all-ones stack, values 0..3 (what label
        # volumes hold); as floats the same small numbers
        rng_ = np.random.default_rng(seed)
        raw = {"mask": lambda: rng_.integers(0, 2, shape4), "ones": lambda: np.ones(shape4),
               "low": lambda: rng_.integers(0, 4, shape4)}[kind]()
        if kind == "mask":
            raw.reshape(-1)[0] = 1
        return raw.astype(dtype) if not dtype.startswith("float") else (raw / 4.0).astype(dtype)
    else:
        lev = np.full(shape4, 0.5)
    if dtype.startswith("float"):
        return lev.astype(dtype)
    return np.floor(lev * UMAX[dtype]).astype(dtype)


def convert(a, to):
    """The documented conversion, applied by the harness (float64 arithmetic)."""
    src = a.dtype.name
    if src.startswith("uint") and to.startswith("float"):
        return (a.astype(np.float64) / UMAX[src]).astype(to), 1.0 / UMAX[src]
    if src.startswith("float") and to.startswith("uint"):
        return np.floor(a.astype(np.float64) * UMAX[to]).astype(to), 1.0
    return a.astype(to), 0.0


def check_io(ctx, case, tmp):
    import nrrd

    from swcgeom.images.io import read_imgs, save_tiff

    shape = tuple(case["shape"])
    shape4 = shape if len(shape) == 4 else shape + (1,)
    a4 = pattern(shape4, case["dtype"], case["pattern"], case["seed"])
    a = a4 if len(shape) == 4 else a4[..., 0]
    fmt = case["fmt"]
    f = os.path.join(tmp, "stack" + {"tiff": ".tif", "tiff2": ".tiff", "npy": ".npy",
                                     "nrrd": ".nrrd"}[fmt])
    lay = case.get("layout", "C")
    if lay == "F":
        a = np.asfortranarray(a)
    elif lay == "T":  # a transposed view of a volume stored in another axis order
        a = np.ascontiguousarray(a.transpose(tuple(range(a.ndim))[::-1])).transpose(
            tuple(range(a.ndim))[::-1])
    elif lay == "S":  # every other plane of a larger block
        big = np.zeros((a.shape[0] * 2,) + a.shape[1:], dtype=a.dtype)
        big[::2] = a
        a = big[::2]
    if lay != "C":
        ctx.count("io_non_contiguous_input")
    if case["pattern"] in ("mask", "ones", "low") and not case["dtype"].startswith("float"):
        ctx.count("io_small_integer_values")
    if case["pattern"] == "extremes" and case["dtype"].startswith("float"):
        ctx.count("io_float_stacks_holding_exactly_one")
    keep = a.copy()
    stored = a4
    if fmt.startswith("tiff"):
        kw = {}
        if case["save_dtype"]:
            # the same dtype as a scalar type, a dtype object or its name
            sp_ = case["seed"] % 3
            kw["dtype"] = [np.dtype(case["save_dtype"]).type, np.dtype(case["save_dtype"]),
                           str(case["save_dtype"])][sp_]
            if sp_:
                ctx.count("io_dtype_spelled_as_object_or_name")
            stored, _ = convert(a4, case["save_dtype"])
        if case["compression"] is False:
            kw["compression"] = False
        save_tiff(a, f, **kw)
        ctx.count("io_tiff")
    elif fmt == "npy":
        np.save(f, a)
        ctx.count("io_npy")
    else:
        nrrd.write(f, a)
        ctx.count("io_nrrd")
    if not np.array_equal(a, keep):
        return ctx.violation("save-mutates-input", "saving modified the array it was given", case)
    rd = case["read_dtype"]
    if rd and rd.startswith("uint") and stored.dtype.name.startswith("uint") \
            and np.dtype(rd).itemsize < stored.dtype.itemsize:
        rd = None  # a narrowing integer cast wraps around: not a rescaling the statement speaks of
    kw = {} if rd is None else {"dtype": [np.dtype(rd).type, np.dtype(rd), str(rd)][
        (case["seed"] // 3) % 3]}
    if rd is not None and (case["seed"] // 3) % 3:
        ctx.count("io_dtype_spelled_as_object_or_name")
    st = read_imgs(f, **kw)
    b = np.asarray(st.get_full())
    ctx.count("io_roundtrips")
    if len(shape) == 3:
        ctx.count("io_3d_input")
    if 1 in shape4[:3]:
        ctx.count("io_size1_axis")
    if shape4[3] == 3:
        ctx.count("io_rgb")
    want_dtype = rd or "float32"
    want, step = convert(stored, want_dtype)
    s, w = stored.dtype.name, want_dtype
    ctx.count("io_uint_to_float" if s.startswith("uint") and w.startswith("float") else
              ("io_float_to_uint" if s.startswith("float") and w.startswith("uint") else
               "io_same_kind"))
    if tuple(b.shape) != shape4 or tuple(st.shape) != shape4:
        return ctx.violation("shape-changed", f"{fmt}: saved {shape} ({case['dtype']}), read back "
                                              f"shape {tuple(b.shape)}, expected {shape4}", case)
    if b.dtype != np.dtype(want_dtype):
        return ctx.violation("dtype-wrong", f"read dtype {b.dtype}, requested {want_dtype}", case)
    # one quantisation step of slack wherever a float was quantised (on save and / or on read)
    quantised_on_save = bool(case.get("save_dtype")) and case["dtype"].startswith("float") \
        and str(case["save_dtype"]).startswith("uint")
    if want_dtype.startswith("uint"):
        diff = np.abs(b.astype(np.int64) - want.astype(np.int64))
        tol = 1 if (s.startswith("float") or quantised_on_save) else 0
        if tol and case["dtype"].startswith("float"):
            # the step of slack is for *rounding*: where level x maximum is an exact integer (0.0,
            # 1.0, k / max ...) there is nothing to round and the value must come out exactly
            qd = str(case["save_dtype"]) if quantised_on_save else want_dtype
            if qd.startswith("uint") and (quantised_on_save or s.startswith("float")):
                scaled = a4.astype(np.float64) * UMAX[qd]
                exact = scaled == np.floor(scaled)
                if (not quantised_on_save or qd == want_dtype) and (diff[exact] > 0).any():
                    idx = tuple(int(v) for v in np.argwhere(exact & (diff > 0))[0])
                    return ctx.violation(
                        "values-changed",
                        f"{fmt}: float level {a4[idx]!r} x {UMAX[qd]} is exactly "
                        f"{int(scaled[idx])}, read back as {b[idx]!r} ({case['dtype']} saved as "
                        f"{stored.dtype}, read as {want_dtype})", case)
                ctx.count("io_exact_levels_checked", int(exact.sum()))
    else:
        diff = np.abs(b.astype(np.float64) - want.astype(np.float64))
        tol = 2e-6 + (step if quantised_on_save else 0.0)
    if diff.max() > tol:
        idx = np.unravel_index(int(diff.argmax()), diff.shape)
        return ctx.violation(
            "values-changed",
            f"{fmt}: {case['dtype']} stack {shape} saved as {stored.dtype}, read as {want_dtype}: "
            f"voxel {tuple(int(v) for v in idx)} is {b[idx]!r}, expected {want[idx]!r} "
            f"(max difference {diff.max():.6g}, {int((diff > tol).sum())} voxels differ)", case)
    if fmt.startswith("tiff") and case["seed"] % 3 == 0:
        # an image stack object (not an array) can be saved as well: same content again
        f2 = os.path.join(tmp, "again.tif")
        if case["seed"] % 2 and want_dtype == "float32":
            save_tiff(st, f2, dtype=np.float32)  # (the same dtype spelled out: nothing to rescale)
        else:
            save_tiff(st, f2)
        b2 = np.asarray(read_imgs(f2, **kw).get_full())
        ctx.count("io_stack_object_resaved")
        if b2.shape != b.shape or not np.allclose(b2.astype(np.float64), b.astype(np.float64),
                                                  atol=tol if tol else 0, rtol=0):
            return ctx.violation("values-changed", f"saving the stack object read from {fmt} and "
                                                   f"reading it again changed shape or values "
                                                   f"({b.shape} -> {b2.shape})", case)
    # indexing protocol of the stack object agrees with the full array
    i, j, k = (int(v) // 2 for v in shape4[:3])
    if not np.array_equal(np.asarray(st[i, j, k]), b[i, j, k]):
        return ctx.violation("indexing-wrong", "stack[i, j, k] differs from get_full()[i, j, k]", case)
    if case["seed"] % 5 == 2:
        # the stack opened by a relative name; the caller then changes directory (to where another
        # file of that name lies) before it looks at the voxels: they are those of the file opened
        old_cwd = os.getcwd()
        other = os.path.join(tmp, "elsewhere")
        os.makedirs(other, exist_ok=True)
        try:
            os.chdir(tmp)
            rel = os.path.basename(f)
            if fmt.startswith("tiff"):
                save_tiff(np.zeros((2, 2, 2), dtype=np.uint8), os.path.join(other, rel))
            else:
                np.save(os.path.join(other, rel), np.zeros((2, 2, 2, 1), dtype=np.uint8)) \
                    if fmt == "npy" else None
            st_rel = read_imgs(rel, **kw)
            os.chdir(other)
            try:
                late = np.asarray(st_rel.get_full())
            except Exception as e:
                return ctx.violation("values-changed",
                                     f"{fmt}: a stack opened as {rel!r} could not be looked at after "
                                     f"the caller changed directory: {type(e).__name__}: "
                                     f"{str(e)[:80]}", case)
            ctx.count("io_relative_name_then_chdir")
            if late.shape != b.shape or not np.array_equal(late, b, equal_nan=True):
                return ctx.violation("values-changed",
                                     f"{fmt}: a stack opened as {rel!r}, looked at after the caller "
                                     f"changed directory, has shape {late.shape} / other voxels than "
                                     f"the file that was opened ({b.shape})", case)
        finally:
            os.chdir(old_cwd)
    if shape4[3] == 1 and case["seed"] % 4 == 1:
        # the older single-channel front end the library still exports: the same voxels without
        # the channel axis, through get_full, shape and indexing
        from swcgeom.images.io import read_images

        with warnings.catch_warnings():
            warnings.simplefilter("ignore")
            gs = read_images(f, **kw)
            ctx.count("io_older_gray_front_end")
            try:
                full, shp = np.asarray(gs.get_full()), tuple(gs.shape)
                one = gs[i, j, k]
                blk = np.asarray(gs[:, :, :])
            except BaseException as e:
                if isinstance(e, (KeyboardInterrupt, SystemExit)):
                    raise
                return ctx.violation("gray-front-end-raised",
                                     f"read_images(...) of a {shape} {fmt} stack: "
                                     f"{type(e).__name__}: {str(e)[:100]}", case)
        if shp != tuple(shape4[:3]) or not np.array_equal(full, b[..., 0]) or \
                not np.array_equal(blk, b[..., 0]) or not np.array_equal(np.asarray(one), b[i, j, k, 0]):
            return ctx.violation("values-changed", f"read_images(...): shape {shp} / voxels differ "
                                                   f"from read_imgs(...) without the channel axis",
                                 case)


# ------------------------------------------------------------------------------- raster
def sd_round_cone(P, a, b, r1, r2):
    ba = b - a
    l2 = ba @ ba
    rr = r1 - r2
    a2 = l2 - rr * rr
    il2 = 1.0 / l2
    pa = P - a
    y = pa @ ba
    z = y - l2
    x2 = ((pa * l2 - np.outer(y, ba)) ** 2).sum(1)
    y2 = y * y * l2
    z2 = z * z * l2
    k = np.sign(rr) * rr * rr * x2
    c1 = np.sign(z) * a2 * z2 > k
    c2 = np.sign(y) * a2 * y2 < k
    out = (np.sqrt(np.maximum(x2 * a2 * il2, 0)) + y * rr) * il2 - r1
    out = np.where(c2, np.sqrt(x2 + y2) * il2 - r1, out)
    out = np.where(c1, np.sqrt(x2 + z2) * il2 - r2, out)
    return out


def raster_tree(case):
    from swcgeom.core import Tree

    rng = np.random.default_rng(case["seed"])
    rc = case["tree"]
    pid = G.parent_array(np.random.default_rng(rc["seed"]), rc["shape"], rc["n"])
    n = len(pid)
    res = np.array(case["res"], dtype=np.float64)
    vox = float(res.mean())
    step = case["step"] * vox
    xyz = np.zeros((n, 3))
    xyz[0] = np.array(case["origin"], dtype=np.float64) + rng.uniform(-3, 3, 3)
    r = case["rscale"] * vox * np.exp(rng.normal(0, 0.4, n))
    for i in range(1, n):
        for _ in range(50):
            d = rng.normal(size=3)
            d /= np.linalg.norm(d)
            L = step * float(rng.uniform(0.6, 1.6))
            if L > abs(r[i] - r[pid[i]]) * 1.3 + 0.05 * vox:
                break
            r[i] = r[pid[i]] * float(rng.uniform(0.8, 1.25))
        xyz[i] = xyz[pid[i]] + d * L
    if case.get("planar") is not None:
        # a neurite lying in a plane x = const (or y = const), thinner than a voxel: the raster is
        # one voxel thick along that axis (and still has that axis)
        ax = int(case["planar"])
        c0 = np.floor(xyz[0, ax] / res[ax]) * res[ax] + 0.45 * res[ax]
        xyz[:, ax] = c0
        r = np.minimum(r, 0.3 * float(res[ax]))
    t = Tree(n, pid=pid.astype(np.int32), type=np.array([1] + [3] * (n - 1), dtype=np.int32),
             x=xyz[:, 0].astype(np.float32), y=xyz[:, 1].astype(np.float32),
             z=xyz[:, 2].astype(np.float32), r=r.astype(np.float32),
             source="/data/cells/neuron.swc" if case["seed"] % 2 else "")
    return t, pid


def check_raster(ctx, case, tmp):
    from swcgeom.transforms import ToImageStack

    tree, pid = raster_tree(case)
    res_arg = case["res"] if not case.get("scalar_res") else case["res"][0]
    form = case.get("res_form", "list")
    if not case.get("scalar_res"):
        res_arg = {"list": list, "tuple": tuple, "array": np.array,
                   "array32": lambda v: np.array(v, dtype=np.float32)}[form](case["res"])
    elif float(res_arg).is_integer() and form in ("tuple", "array"):
        res_arg = int(res_arg) if form == "tuple" else np.float32(res_arg)
    ctx.count("resolution_form_" + (form if not case.get("scalar_res") else "scalar"))
    tf = ToImageStack(res_arg)
    if isinstance(res_arg, np.ndarray) and res_arg.ndim == 1 and case["seed"] % 2 == 0:
        # the resolution array is the caller's: it is rescaled in place for the next transformer
        res_arg *= 2
        ctx.count("resolution_arrays_edited_after_construction")
    if case["seed"] % 3 == 0:
        # the transformer object was in use before: it rasterised another tree, and then the
        # caller asked for this tree with malformed ranges (rejected) before getting it right
        from swcgeom.core import Tree as _T

        other = _T(3, pid=np.array([-1, 0, 1], dtype=np.int32),
                   x=np.array([0, 4, 8], dtype=np.float32) + 500.0,
                   r=np.array([1, 1.5, 1], dtype=np.float32),
                   source=tree.source)  # (both name the same file, as derived trees do)
        try:
            tf(other)
            ctx.count("transformer_reused")
            try:
                list(tf.transform(tree, verbose=False, ranges=([0, 0, 0],)))
            except Exception:
                ctx.count("rejected_calls_before_raster")
        except BaseException as e:
            if isinstance(e, (KeyboardInterrupt, SystemExit)):
                raise
    if _raster_pass(ctx, case, tmp, tree, pid, tf, res_arg, "") is not True:
        return
    if case.get("interleave") and case["ranges"] == "auto":
        # two rasters of one transformer produced slice by slice in turns (the slices come from a
        # generator): each must be what the same call gives when it runs alone
        from swcgeom.core import Tree as _T

        rng = np.random.default_rng(case["seed"] + 23)
        shift = rng.integers(-6, 7, 3).astype(np.float32) * np.float32(np.mean(case["res"]))
        other = _T(len(pid), pid=np.array(tree.pid()), type=np.array(tree.type()),
                   x=tree.x()[::-1].copy() + shift[0], y=tree.y() * np.float32(0.5) + shift[1],
                   z=tree.z()[::-1].copy() + shift[2], r=tree.r() * np.float32(1.3),
                   source=tree.source)
        try:
            alone_a = np.stack(list(tf.transform(tree, verbose=False)), axis=0)
            alone_b = np.stack(list(tf.transform(other, verbose=False)), axis=0)
            ga, gb = tf.transform(tree, verbose=False), tf.transform(other, verbose=False)
            sa, sb = [], []
            while ga is not None or gb is not None:
                for g_, acc in ((ga, sa), (gb, sb)):
                    if g_ is not None:
                        try:
                            acc.append(next(g_))
                        except StopIteration:
                            if g_ is ga:
                                ga = None
                            else:
                                gb = None
            ctx.count("rasters_interleaved")
            for nm, alone, turn in (("first", alone_a, sa), ("second", alone_b, sb)):
                got = np.stack(turn, axis=0) if turn else np.zeros((0,))
                if got.shape != alone.shape or not np.array_equal(got, alone):
                    return ctx.violation("interleaved-rasters-differ",
                                         f"two rasters of one ToImageStack({res_arg}) taken slice by "
                                         f"slice in turns: the {nm} one (shape {got.shape}) differs "
                                         f"from the same raster produced alone (shape {alone.shape}, "
                                         f"{int((got != alone).sum()) if got.shape == alone.shape else '?'}"
                                         f" voxels)", case)
        except BaseException as e:
            if isinstance(e, (KeyboardInterrupt, SystemExit, probes.StepBudgetExceeded)):
                raise
            ctx.skip("interleaved rasters: the shifted twin could not be rasterised")
    if case.get("edit") and case["ranges"] == "auto":
        # the same transformer on the same tree object after an in-place edit through node
        # handles: the raster must follow the new geometry
        rng = np.random.default_rng(case["seed"] + 11)
        n = len(pid)
        vox = float(np.mean(case["res"]))
        for _ in range(2):
            i = int(rng.integers(0, n))
            nd = tree.node(i)
            d = rng.normal(size=3)
            d = d / np.linalg.norm(d) * vox * float(rng.uniform(2, 5))
            nd.x, nd.y, nd.z = float(nd.x + d[0]), float(nd.y + d[1]), float(nd.z + d[2])
        j = int(rng.integers(0, n))
        tree.node(j).r = float(tree.node(j).r * 1.6)
        ctx.count("rasters_after_inplace_edit")
        if _raster_pass(ctx, case, tmp, tree, pid, tf, res_arg,
                        "after an in-place edit of the tree: ") is not True:
            return
    dv = case.get("derive")
    if dv and case["ranges"] == "auto" and len(pid) >= 3:
        # trees derived from the one just rasterised (and therefore already walked): renumbered,
        # re-rooted, or with a tip re-attached in place; the raster follows the tree as it is now
        from swcgeom.core import redirect_tree, sort_tree

        rng = np.random.default_rng(case["seed"] + 17)
        X0, R0 = tree.xyz().astype(np.float64), tree.r().astype(np.float64)
        pid0 = np.array(tree.pid())
        ctx.count("rasters_of_derived_trees")
        if dv == "sort":
            _raster_pass(ctx, case, tmp, sort_tree(tree), pid0, tf, res_arg,
                         "sort_tree of a tree rasterised before: ", geom=(X0, R0))
        elif dv == "reroot":
            v = int(rng.integers(1, len(pid0)))
            # (sort=True: with sorting off the root is no longer node 0, and the library's
            # traversals -- the rasteriser's included -- start at node 0 by convention)
            _raster_pass(ctx, case, tmp, redirect_tree(tree, v, sort=True), pid0, tf, res_arg,
                         f"redirect_tree(.., {v}) of a tree rasterised before: ", geom=(X0, R0))
        else:
            kids = np.bincount(pid0[pid0 >= 0], minlength=len(pid0))
            tips = [int(i) for i in np.nonzero(kids == 0)[0] if i != 0]
            k = tips[int(rng.integers(0, len(tips)))]
            cand = [j for j in range(len(pid0)) if j not in (k, int(pid0[k]))]
            j = cand[int(rng.integers(0, len(cand)))]
            tree.node(k).pid = j
            pid1 = pid0.copy()
            pid1[k] = j
            _raster_pass(ctx, case, tmp, tree, pid1, tf, res_arg,
                         f"after re-attaching tip {k} to node {j} in place: ")


def _raster_pass(ctx, case, tmp, tree, pid, tf, res_arg, prefix, geom=None):
    from swcgeom.images.io import read_imgs

    X = tree.xyz().astype(np.float64)
    R = tree.r().astype(np.float64)
    if geom is not None:
        # the rasterised tree is a renumbering / re-rooting of another one: same points, same
        # undirected edges, so the same union of rounded cones (given by the harness)
        X, R = geom
    for c, p in enumerate(pid):
        if p >= 0 and np.linalg.norm(X[c] - X[p]) <= abs(R[c] - R[p]) * 1.1 + 1e-3:
            ctx.skip("an edge is not a proper round cone")
            return
    st = np.array(case["res"], dtype=np.float32).astype(np.float64)  # (the resolution asked for)
    if case["ranges"] == "auto":
        cmin = np.floor((X - R[:, None]).min(0).astype(np.float32)).astype(np.float64)
        cmax = np.ceil((X + R[:, None]).max(0).astype(np.float32)).astype(np.float64)
        cmin32 = np.floor((tree.xyz() - tree.r().reshape(-1, 1)).min(0)).astype(np.float64)
        cmax32 = np.ceil((tree.xyz() + tree.r().reshape(-1, 1)).max(0)).astype(np.float64)
        if not (np.array_equal(cmin, cmin32) and np.array_equal(cmax, cmax32)):
            ctx.skip("bounding box lies within float32 rounding of an integer")
            return
        kw = {}
    else:
        rng = np.random.default_rng(case["seed"] + 5)
        cmin = np.floor((X - R[:, None]).min(0)) - rng.integers(0, 3, 3)
        cmax = np.ceil((X + R[:, None]).max(0)) + rng.integers(0, 3, 3)
        if case["ranges"] == "crop":  # a window cutting through the tree
            cmax = cmin + np.maximum(np.ceil((cmax - cmin) * 0.6), np.ceil(st) + 1)
        elif case["ranges"] == "slab":
            # a thin tile in the middle of the box: segments cross it with both end nodes outside
            ax = int(rng.integers(0, 3))
            mid = np.floor((cmin[ax] + cmax[ax]) / 2)
            cmin[ax], cmax[ax] = mid, mid + np.ceil(2 * st[ax]) + 1
            ctx.count("raster_thin_tiles")
        # the caller's own range arrays (often float32, like tree.xyz()), reused between calls:
        # they are read, never written
        if case["seed"] % 2:
            rng_lo, rng_hi = cmin.astype(np.float32), cmax.astype(np.float32)
        else:
            rng_lo, rng_hi = cmin.copy(), cmax.copy()
        keep_lo, keep_hi = rng_lo.copy(), rng_hi.copy()
        kw = {"ranges": (rng_lo, rng_hi)}
        ctx.count("raster_explicit_ranges")
    if ((cmax - cmin) < st).any():
        ctx.skip("bounding box thinner than one voxel")
        return
    counts, edge_risky = [], False
    for a in range(3):
        cs = cmin[a] + st[a] / 2 + np.arange(0, int((cmax[a] - cmin[a]) / st[a]) + 3) * st[a]
        # dyadic strides on integer bounds are exact in float32: 'centre < bound' is then decided
        # exactly (a centre exactly on the bound is outside); otherwise a centre within rounding
        # of the bound may legitimately fall on either side
        exact = (st[a] * 128) % 1 == 0 and abs(cmax[a]) < 1e5 and abs(cmin[a]) < 1e5
        if not exact and (np.abs(cs - cmax[a]) < 1e-4 * (1 + abs(cmax[a]))).any():
            edge_risky = True
        counts.append(int((cs < cmax[a]).sum()))
    if np.prod(counts) > 4_000_000:
        ctx.skip("raster too large")
        return
    try:
        if kw:
            first = np.stack(list(tf.transform(tree, verbose=False, **kw)), axis=0)
            img = np.stack(list(tf.transform(tree, verbose=False, **kw)), axis=0)  # same arrays again
            if not (np.array_equal(rng_lo, keep_lo) and np.array_equal(rng_hi, keep_hi)):
                return ctx.violation("caller-ranges-mutated", f"{prefix}transform(ranges=...) wrote "
                                                              f"into the caller's range arrays", case)
            if first.shape != img.shape or not np.array_equal(first, img):
                return ctx.violation("call-history-dependence",
                                     f"{prefix}the same ranges gave shape {first.shape} first and "
                                     f"{img.shape} on the second call", case)
        else:
            img = tf(tree)
    except BaseException as e:  # pyo3 PanicException derives from BaseException
        if isinstance(e, (KeyboardInterrupt, SystemExit, probes.StepBudgetExceeded)):
            raise
        return ctx.violation("raster-raised", f"{prefix}ToImageStack({res_arg}) raised {type(e).__name__}: "
                                              f"{str(e)[:200]} (z range {cmin[2]}..{cmax[2]})", case)
    ctx.count("rasters")
    if case.get("planar") is not None:
        ctx.count("rasters_one_voxel_thick")
    if len(set(np.round(st, 6))) > 1:
        ctx.count("raster_anisotropic")
    if any(abs(np.log2(s) - round(np.log2(s))) > 1e-9 for s in st):
        ctx.count("raster_generic_resolution")
    if np.abs(X).max() > 200:
        ctx.count("raster_far_positions")
    want_shape = (counts[2], counts[0], counts[1])
    if img.shape != want_shape:
        if edge_risky:
            ctx.skip("a boundary voxel centre lies within rounding of the upper bound")
            return
        return ctx.violation("raster-shape", f"{prefix}ToImageStack({res_arg}): shape {img.shape}, the "
                                             f"bounding box {cmin.tolist()}..{cmax.tolist()} holds "
                                             f"(Z, X, Y) = {want_shape} voxel centres", case)
    if img.dtype != np.uint8:
        return ctx.violation("raster-dtype", f"dtype {img.dtype}", case)
    Zn, Xn, Yn = img.shape
    I, J, K = np.meshgrid(np.arange(Xn), np.arange(Yn), np.arange(Zn), indexing="ij")
    P = cmin + st / 2 + np.stack([I.ravel(), J.ravel(), K.ravel()], 1) * st
    d = np.full(len(P), np.inf)
    for c, p in enumerate(pid):
        if p >= 0:
            d = np.minimum(d, sd_round_cone(P, X[p], X[c], R[p], R[c]))
    lit = img.transpose(1, 2, 0).ravel() > 0
    # sdflit evaluates distances in float32: allow 1e-3 plus a few float32 ulps of the largest
    # coordinate (0.001 near the origin, ~0.1 at |x| = 3e4)
    # (32 ulps: the rounded-cone distance is a chain of float32 differences, dot products and a
    # square root; 20 ulps were observed once in 8e4 rasters at |x| ~ 1.2e3)
    ulp_ = 1.2e-7 * float(np.abs(X).max())
    near = np.abs(d) < min(1e-3 + 32 * ulp_, max(1e-3 + 8 * ulp_, 0.2 * float(st.min())))
    bad = ((d < 0) != lit) & ~near
    ctx.count("voxels_compared", int((~near).sum()))
    ctx.count("voxels_near_surface_skipped", int(near.sum()))
    ctx.count("voxels_lit", int(lit.sum()))
    vals = np.unique(img)
    if not set(vals.tolist()) <= {0, 255}:
        return ctx.violation("raster-values", f"voxel values {vals[:6].tolist()}", case)
    if bad.any():
        q = int(np.nonzero(bad)[0][0])
        return ctx.violation(
            "voxel-wrong",
            f"{prefix}ToImageStack({res_arg}): {int(bad.sum())} of {len(P)} voxels disagree with the "
            f"geometry ({int((lit & bad).sum())} lit outside, {int((~lit & bad).sum())} dark inside); "
            f"e.g. voxel (k,i,j)=({int(K.ravel()[q])},{int(I.ravel()[q])},{int(J.ravel()[q])}) "
            f"centre {P[q].round(3).tolist()} signed distance {d[q]:.4f} lit={bool(lit[q])}", case)
    if case.get("save") and not kw:
        f = os.path.join(tmp, "raster.tif")
        tf.transform_and_save(f, tree, verbose=False)
        with warnings.catch_warnings():
            warnings.simplefilter("ignore")
            back = np.asarray(read_imgs(f, dtype=np.uint8).get_full())
        ctx.count("raster_saved_and_read")
        if Zn == 1 and Xn != Yn:
            ctx.count("raster_one_slice_saved_and_read")
        if back.shape != (Xn, Yn, Zn, 1) or not np.array_equal(back[..., 0],
                                                               img.transpose(1, 2, 0)):
            return ctx.violation("saved-raster-differs",
                                 f"transform_and_save -> read_imgs gives shape {back.shape}, the "
                                 f"in-memory raster is (Z,X,Y)={img.shape}", case)
    return True


def execute(ctx, case):
    tmp = tempfile.mkdtemp(prefix="rv-c20-")
    try:
        with warnings.catch_warnings():
            warnings.simplefilter("ignore")
            if case["kind"] == "io":
                check_io(ctx, case, tmp)
            else:
                check_raster(ctx, case, tmp)
    except Exception as e:
        ctx.violation("op-raised", f"{case['kind']}: {type(e).__name__}: {str(e)[:300]}", case)
    finally:
        shutil.rmtree(tmp, ignore_errors=True)


SHAPES = [(5, 4, 3), (3, 5, 4), (4, 3, 5), (5, 3, 4), (3, 4, 5), (4, 5, 3), (1, 4, 3), (5, 1, 3),
          (5, 4, 1), (1, 1, 3), (1, 4, 1), (5, 1, 1), (1, 1, 1), (2, 3, 4), (3, 3, 3), (7, 2, 6),
          (16, 9, 5), (2, 2, 2)]


def run(ctx):
    from swcgeom.transforms import ToImageStack

    rng = ctx.rng
    tap = probes.CallTap({"get_samplers": ToImageStack._get_samplers})
    with tap:
        for k in range(ctx.scale(640, 64000)):
            shape = SHAPES[int(rng.integers(0, len(SHAPES)))]
            cmode = int(rng.integers(0, 3))
            if cmode:
                shape = shape + ((1,) if cmode == 1 else (3,))
            fmt = str(rng.choice(["tiff", "tiff", "tiff2", "npy", "nrrd"]))
            dtype = str(rng.choice(["uint8", "uint16", "float32", "uint8", "float32", "uint32",
                                    "float64"]))
            if fmt.startswith("tiff") and dtype == "uint32" and len(shape) == 4 and shape[3] == 3:
                dtype = "uint16"
            case = {"kind": "io", "shape": list(shape), "dtype": dtype, "fmt": fmt,
                    "pattern": str(rng.choice(["ramp", "ramp", "random", "constant", "mask", "ones",
                                               "low", "extremes"])),
                    "seed": int(rng.integers(0, 2**31 - 1)),
                    "save_dtype": None, "compression": None,
                    "read_dtype": [None, None, "uint8", "uint16", "float32", "float64"][
                        int(rng.integers(0, 6))]}
            if fmt.startswith("tiff"):
                case["save_dtype"] = [None, None, "uint8", "uint16", "float32"][
                    int(rng.integers(0, 5))]
                case["compression"] = [None, False][int(rng.integers(0, 2))]
            case["layout"] = str(rng.choice(["C", "C", "F", "T", "S"]))
            ctx.case(case, nontrivial=int(np.prod(shape)) >= 2, klass=f"io/{fmt}")
            execute(ctx, case)
        for k in range(ctx.scale(150, 15000)):
            u = rng.random()
            if u < 0.35:
                res = [float(rng.choice([0.5, 1.0, 2.0]))] * 3
            elif u < 0.5:
                res = [float(v) for v in rng.choice([0.5, 1.0, 2.0, 0.25], 3)]
            elif u < 0.7:  # everyday decimal voxel sizes (not representable in binary)
                res = [float(v) for v in rng.choice([0.2, 0.3, 0.4, 0.6, 0.8, 1.2, 1.6], 3)]
                if rng.random() < 0.5:
                    res = [res[0]] * 3
            else:
                res = [float(v) for v in np.round(rng.uniform(0.4, 2.2, 3), 3)]
                if rng.random() < 0.3:
                    res = [res[0]] * 3
            far = rng.random()
            whole_brain = False
            origin = [0.0, 0.0, 0.0]
            if far < 0.5:
                origin = (rng.normal(0, 1, 3) * 60).round(2).tolist()
            elif far < 0.7:
                origin = (rng.choice([-1, 1], 3) * rng.uniform(300, 1200, 3)).round(2).tolist()
            elif far < 0.8:
                # whole-brain coordinates, finely sampled (exactly representable: multiples of 1/8
                # around 2^14): segments are short compared with the coordinates, not degenerate
                origin = (rng.choice([-1, 1], 3) * rng.choice([16384.0, 24576.0, 32768.0], 3)
                          ).tolist()
                res = [0.125] * 3
                whole_brain = True
            rc = {"shape": str(rng.choice(["chain", "binary", "recursive", "star", "neuron",
                                           "pair"])),
                  "n": int(rng.integers(2, 31)), "seed": int(rng.integers(0, 2**31 - 1))}
            case = {"kind": "raster", "tree": rc, "seed": int(rng.integers(0, 2**31 - 1)),
                    "res": res, "scalar_res": bool(len(set(res)) == 1 and rng.random() < 0.5),
                    "rscale": float(rng.choice([0.4, 0.8, 1.5, 3.0])),
                    "step": float(rng.choice([1.5, 3.0, 6.0])), "origin": origin,
                    "ranges": str(rng.choice(["auto", "auto", "auto", "pad", "crop", "slab", "slab"])),
                    "save": bool(rng.random() < 0.25), "edit": bool(rng.random() < 0.35),
                    "res_form": str(rng.choice(["list", "tuple", "array", "array32"]))}
            if rng.random() < 0.4:
                case["derive"] = str(rng.choice(["sort", "reroot", "relink"]))
            if rng.random() < 0.16 and not whole_brain:
                case["planar"] = int(rng.integers(0, 3))
                if case["planar"] == 2:
                    # a flat neurite in one optical section: a raster of exactly one z slice, which
                    # is also saved and read back
                    case["res"] = [case["res"][0], case["res"][1], 1.0]
                    case["scalar_res"] = False
                    case["ranges"], case["save"] = "auto", True
            case["interleave"] = bool(rng.random() < 0.2)
            if case["ranges"] == "slab":  # long thin segments, so that they cross the tile
                case["step"], case["rscale"] = 6.0, 0.8
            if whole_brain:  # short segments (1-2 voxels of 1/8), still far longer than an ulp
                case["step"], case["rscale"], case["ranges"] = 1.5, 0.8, "auto"
                case["tree"]["n"] = min(case["tree"]["n"], 12)
                ctx.count("raster_whole_brain_coordinates")
            ctx.case(case, klass="raster")
            execute(ctx, case)
    ctx.count("tap_get_samplers", tap.counts["get_samplers"])


def replay(ctx, case):
    ctx.case(case)
    execute(ctx, case)
