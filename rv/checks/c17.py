"""C17 — point-cloud tree construction yields the intended spanning tree.

Monitor: post-condition on every ``PointsToMST`` / ``PointsToCuntzMST`` call: the output
positions are exactly the input points (+ soma) as a multiset, it is one tree rooted at the soma
/ first point, the branching limit holds, without balancing and limit the total length equals
scipy's minimum-spanning-tree weight, and with a balancing factor every point has the parent an
independent float64 replay of the stated greedy rule gives it (near-ties are inconclusive and
counted).  The C03 contract set stays installed (sort_tree is called inside).
"""

from __future__ import annotations

import warnings
from collections import Counter

import numpy as np
from scipy.sparse.csgraph import minimum_spanning_tree
from scipy.spatial.distance import cdist

from rv import contracts, probes
from rv.oracles import topo

PROPERTY = "C17"
LEVEL = "exploration"
TECHNIQUE = ("runtime monitoring: post-condition on PointsToMST / PointsToCuntzMST calls (point "
             "multiset, single root at the soma / first point, connectivity, child-count limit); "
             "scipy minimum-spanning-tree weight as length oracle; independent float64 replay of "
             "the stated greedy attachment rule deciding every parent, near-ties classified "
             "inconclusive; C03 contract set active")
LEVEL_TEXT = ("Exploration: thousands of clouds (2-300 points; Gaussian, uniform, clustered, "
              "several-armed around the soma, far from the origin; float64 and float32 inputs; soma "
              "given or not) x bf in {0,.1,.4,.7,1} x limit in {-1,1,2,3} x root exemption x sort "
              "mode x both classes. Held = held on those executions."
              "Integer-typed (voxel) clouds and clouds with coincident points are included; the length oracle is an own Prim implementation cross-checked against scipy where scipy's dense reading is sound."
              " Transform objects are also re-used: after another cloud and after a call with argument forms they reject."
              " Names given at call time; float32 clouds of 255 .. 513 points far from the origin."
              " Constructions asked to use custom column names."
              " A point buffer refilled in place and handed to the same transform object again.")
LEVEL_NOTE = ("Points in general position (no duplicates). A replay step whose best and second-best "
              "costs differ by less than 1e-9 relative (1e-5 for float32 input, whose distances the "
              "library computes in float32) makes the case inconclusive for the parent comparison "
              "only. Trusts scipy's minimum_spanning_tree.")
RULE = ("cases = (cloud recipe: seed, n, layout, dtype, soma) x (class, bf, limit, exclude_soma, "
        "sort); non-trivial when the cloud has >= 3 points; distinct = distinct case descriptions")
ASSUMPTIONS = [
    "points are pairwise distinct and finite",
    "the limit rule: a connected point that already has k children is no longer a candidate parent "
    "(the root is exempt when exclude_soma is set)",
]
REQUIRED = ["constructions_under_custom_column_names", "point_buffers_refilled_in_place", "constructions", "points_multiset_checked", "mst_length_checked", "limit_checked",
            "limit_root_not_exempt", "root_wants_more_than_k", "parents_replayed", "balanced_replayed",
            "float32_clouds", "integer_clouds", "clouds_with_coincident_points", "far_clouds", "soma_given", "soma_first_point", "class_PointsToMST",
            "class_PointsToCuntzMST", "tap_call", "transform_instances_reused",
            "rejected_calls_before_construction", "names_given_at_call_time", "size_sweep_cases"]
FLOOR = {"quick": 650, "thorough": 52000}
SHARDS = {"quick": 8, "thorough": 16}
TIMEOUT = {"quick": 300, "thorough": 3000}


def cloud(case):
    rng = np.random.default_rng(case["seed"])
    n, lay = case["n"], case["layout"]
    if lay == "gauss":
        p = rng.normal(0, 10, (n, 3))
    elif lay == "uniform":
        p = rng.uniform(-20, 20, (n, 3))
    elif lay == "clustered":
        c = rng.normal(0, 30, (max(1, n // 8 + 1), 3))
        p = c[rng.integers(0, len(c), n)] + rng.normal(0, 2, (n, 3))
    elif lay == "arms":  # several arms leaving the first point: the root attracts many children
        k = int(rng.integers(4, 8))
        dirs = rng.normal(size=(k, 3))
        dirs /= np.linalg.norm(dirs, axis=1)[:, None]
        p = np.zeros((n, 3))
        for i in range(1, n):
            a = (i - 1) % k
            p[i] = dirs[a] * (3.0 + 2.5 * ((i - 1) // k)) + rng.normal(0, 0.15, 3)
    else:
        raise ValueError(lay)
    if case["far"]:
        p = p + rng.uniform(2000, 9000, 3) * rng.choice([-1, 1], 3)
    soma = None
    if case["soma"]:
        soma = (p[0] + rng.normal(0, 3, 3)) if lay != "arms" else p[0] + rng.normal(0, .1, 3)
    if case["dtype"] == "float32":
        p = p.astype(np.float32)
        if soma is not None and case.get("soma32", True):
            soma = soma.astype(np.float32)
    elif case["dtype"].startswith("int"):  # voxel coordinates
        p = np.round(p * 2).astype(case["dtype"])
        _, first = np.unique(p, axis=0, return_index=True)
        p = p[np.sort(first)]
        if soma is not None:
            if case["seed"] % 2:  # an integer soma ...
                soma = np.round(soma * 2).astype(case["dtype"]) + np.array([0, 0, 1],
                                                                           case["dtype"])
            else:                 # ... or one between the voxels (sub-voxel soma centre)
                soma = np.round(soma * 2) + np.array([0.25, -0.5, 0.375])
    if case.get("dups"):
        # coincident samples (and a soma that is also in the cloud): still one node per point
        rng2 = np.random.default_rng(case["seed"] + 9)
        k = int(rng2.integers(1, 4))
        idx = rng2.integers(0, len(p), k)
        p = np.concatenate([p, p[idx]])
        if soma is not None and rng2.random() < 0.5:
            soma = p[int(rng2.integers(0, len(p)))].copy()
    return p, soma


def prim_weight(D):
    """Weight of a minimum spanning tree of the complete graph with distance matrix D (own Prim:
    scipy's dense csgraph reads a zero entry as 'no edge', which hides coincident points)."""
    n = len(D)
    best = D[0].copy()
    inside = np.zeros(n, dtype=bool)
    inside[0] = True
    total = 0.0
    for _ in range(n - 1):
        cand = np.where(inside, np.inf, best)
        j = int(np.argmin(cand))
        total += float(cand[j])
        inside[j] = True
        best = np.minimum(best, D[j])
    return total


def replay_rule(points, bf, k, exclude_soma, tie):
    """Independent replay of the stated rule. Returns (parents | None, near_tie)."""
    n = len(points)
    D = cdist(points, points)
    par = np.full(n, -1)
    acc = np.zeros(n)
    nchild = np.zeros(n, dtype=int)
    connected = np.zeros(n, dtype=bool)
    connected[0] = True
    near = False
    for _ in range(n - 1):
        cand = connected.copy()
        if k != -1:
            sat = nchild >= k
            if exclude_soma:
                sat[0] = False
            cand &= ~sat
        rows = np.nonzero(cand)[0]
        cols = np.nonzero(~connected)[0]
        if len(rows) == 0:
            return None, near
        C = D[np.ix_(rows, cols)] + bf * acc[rows][:, None]
        flat = np.argsort(C, axis=None)[:2]
        a, b = np.unravel_index(flat[0], C.shape)
        best = C[a, b]
        if len(flat) > 1:
            second = C[np.unravel_index(flat[1], C.shape)]
            if abs(second - best) <= tie * (1 + best):
                near = True
        i, j = rows[a], cols[b]
        par[j] = i
        acc[j] = acc[i] + D[i, j]
        nchild[i] += 1
        connected[j] = True
    return par, near


def _key(p):
    return tuple(np.asarray(p, dtype=np.float32).tolist())


def execute(ctx, case):
    from swcgeom.transforms import PointsToCuntzMST, PointsToMST

    pts, soma = cloud(case)
    bf, k, ex, srt = case["bf"], case["k"], case["exclude_soma"], case["sort"]
    cls = case["cls"]
    allp = np.concatenate([[soma], pts]) if soma is not None else pts
    has_dups = len({_key(p) for p in allp}) != len(allp)
    if has_dups and not case.get("dups"):
        ctx.skip("cloud has duplicate points in float32")
        return
    if has_dups:
        ctx.count("clouds_with_coincident_points")
    if case["dtype"].startswith("int"):
        ctx.count("integer_clouds")
    ctx.count("class_" + cls)
    ctx.count("soma_given" if soma is not None else "soma_first_point")
    if case["dtype"] == "float32":
        ctx.count("float32_clouds")
    if case["far"]:
        ctx.count("far_clouds")
    pts_before = pts.copy()
    try:
        with warnings.catch_warnings():
            warnings.simplefilter("ignore")
            # the limit as a Python int or as a numpy integer (what `for k in np.arange(...)` gives)
            karg = [k, np.int64(k), np.int32(k)][case["seed"] % 3]
            if cls == "PointsToMST":
                tf = PointsToMST(furcations=karg, exclude_soma=ex, sort=srt)
                bf = 0.0
            else:
                tf = PointsToCuntzMST(bf=bf, furcations=karg, exclude_soma=ex, sort=srt)
            if case["seed"] % 2:
                # the same transform object was used before: once for another cloud, and once in
                # a way it rejects (the cloud as a nested list / the soma as a 1x3 row) -- the
                # call proper comes after the caller has corrected its arguments
                other = np.random.default_rng(case["seed"]).normal(0, 30, (7, 3))
                tf(other)
                ctx.count("transform_instances_reused")
                try:
                    if soma is not None and case["seed"] % 4 == 1:
                        tf(pts, np.asarray(soma).reshape(1, 3))
                    else:
                        tf(pts.tolist(), *([] if soma is None else [soma]))
                    ctx.count("lenient_argument_forms_accepted")
                except Exception:
                    ctx.count("rejected_calls_before_construction")
            if case["seed"] % 5 == 2:
                # the column names given at call time (the older, still accepted spelling)
                from swcgeom.core.swc import SWCNames

                t = tf(pts, soma, names=SWCNames()) if soma is not None else \
                    tf(pts, names=SWCNames())
                ctx.count("names_given_at_call_time")
            else:
                t = tf(pts, soma) if soma is not None else tf(pts)
    except Exception as e:
        return ctx.violation("construction-raised", f"{cls}(bf={bf}, furcations={k}, exclude_soma="
                                                    f"{ex}) raised {type(e).__name__}: "
                                                    f"{str(e)[:200]}", case)
    ctx.count("constructions")
    if not np.array_equal(pts, pts_before):
        return ctx.violation("input-mutated", "the point array was modified", case)
    if case["seed"] % 3 == 1 and 3 <= len(pts) <= 150:
        # the caller's point array is a working buffer: after one construction it is refilled in
        # place (the next sample) and handed to the same transform object again -- the second tree
        # is the tree of the points the buffer holds then
        from rv.gen import trees as G_

        mk2 = (lambda: PointsToMST(furcations=k, exclude_soma=ex, sort=srt)) if cls == "PointsToMST" \
            else (lambda: PointsToCuntzMST(bf=bf, furcations=k, exclude_soma=ex, sort=srt))
        try:
            with warnings.catch_warnings():
                warnings.simplefilter("ignore")
                buf = np.array(pts, copy=True)
                tfb = mk2()
                tfb(buf, soma) if soma is not None else tfb(buf)
                if buf.dtype.kind == "f":
                    buf[:, 2] *= 8
                    buf[:, 0] += 3
                else:
                    buf[:, 2] *= 2
                    buf[:, 0] += 3
                buf[:] = buf[::-1].copy()
                second = tfb(buf, soma) if soma is not None else tfb(buf)
                fresh = mk2()(buf.copy(), soma) if soma is not None else mk2()(buf.copy())
            ctx.count("point_buffers_refilled_in_place")
            r = G_._same(fresh, second)
        except Exception as e:
            r = f"raised {type(e).__name__}: {str(e)[:120]}"
        if r:
            return ctx.violation("stale-after-buffer-refill",
                                 f"{cls}: the same transform object called again after the caller "
                                 f"refilled its point array in place does not build the tree of the "
                                 f"new points: {r}", case)
    if case["seed"] % 4 == 3 and len(pts) <= 120:
        # the same construction asked to name its columns differently (`names=`): the same tree
        # under those names
        mk_ = (lambda nm: PointsToMST(furcations=k, exclude_soma=ex, sort=srt, names=nm)) \
            if cls == "PointsToMST" else \
            (lambda nm: PointsToCuntzMST(bf=bf, furcations=k, exclude_soma=ex, sort=srt, names=nm))
        from rv.gen import trees as G

        nm_ = G.custom_names(case["seed"] // 4 % 2)
        try:
            with warnings.catch_warnings():
                warnings.simplefilter("ignore")
                t_c = mk_(nm_)(pts, soma) if soma is not None else mk_(nm_)(pts)
            ctx.count("constructions_under_custom_column_names")
            r = None if tuple(t_c.names) == tuple(nm_) else f"the tree carries names {tuple(t_c.names)}"
            r = r or G._same(t, t_c)
        except Exception as e:
            r = f"raised {type(e).__name__}: {str(e)[:120]}"
        if r:
            return ctx.violation("custom-column-names", f"{cls}(..., names={tuple(nm_)}): {r}", case)
    n = len(allp)
    if t.number_of_nodes() != n:
        return ctx.violation("point-count", f"{t.number_of_nodes()} nodes for {n} points (incl. "
                                            f"soma)", case)
    pid = t.pid()
    wf = topo.well_formed(t.id(), pid)
    if wf:
        return ctx.violation("not-a-tree", f"result is not a single well-formed tree: {wf}", case)
    if srt and n > 1 and not np.all(pid[1:] < t.id()[1:]):
        return ctx.violation("not-sorted", "sort=True but a parent follows its child", case)
    xyz = t.xyz()
    keys_out = Counter(_key(p) for p in xyz)
    keys_in = Counter(_key(p) for p in allp)
    ctx.count("points_multiset_checked")
    if keys_out != keys_in:
        return ctx.violation("points-changed", f"output positions are not the input points: "
                                               f"{len(keys_in - keys_out)} missing, "
                                               f"{len(keys_out - keys_in)} unexpected", case)
    if _key(xyz[0]) != _key(allp[0]):
        return ctx.violation("wrong-root", f"root is at {xyz[0].tolist()}, expected the "
                                           f"{'soma' if soma is not None else 'first point'} "
                                           f"{np.asarray(allp[0]).tolist()}", case)
    got = {_key(xyz[i]): (_key(xyz[p]) if p >= 0 else None) for i, p in enumerate(pid)}
    nchild = Counter(int(p) for p in pid if p >= 0)
    nchild = Counter({_key(xyz[i]) if not has_dups else ("node", i, _key(xyz[i])): c
                      for i, c in nchild.items()})
    P64 = np.asarray(allp, dtype=np.float64)
    if k != -1:
        ctx.count("limit_checked")
        if not ex:
            ctx.count("limit_root_not_exempt")
        for kk, c in nchild.items():
            is_root = (kk == _key(allp[0])) if not has_dups else (kk[1] == 0)
            if c > k and not (ex and is_root):
                return ctx.violation(
                    "limit-exceeded",
                    f"a node ({'the root' if is_root else 'not the root'}) has {c} "
                    f"children with furcations={k}, exclude_soma={ex}", case)
    if bf == 0 and k == -1:
        want = prim_weight(cdist(P64, P64))
        if not has_dups:  # cross-check of the oracle itself where scipy's reading is sound
            alt = float(minimum_spanning_tree(cdist(P64, P64)).sum())
            if abs(alt - want) > 1e-9 * (1 + want):
                raise AssertionError("harness: Prim and scipy MST weights differ")
        gotlen = float(sum(np.linalg.norm(P64_of(xyz, i) - P64_of(xyz, p))
                           for i, p in enumerate(pid) if p >= 0))
        ctx.count("mst_length_checked")
        scale = 1 + float(np.abs(P64).max())
        if abs(gotlen - want) > 1e-5 * want + 1e-6 * scale * n * (30 if case["dtype"] == "float32"
                                                                  else 1):
            return ctx.violation("not-minimal", f"total length {gotlen:.6f}, a minimum spanning "
                                                f"tree of the points has {want:.6f}", case)
    tie = 1e-5 if case["dtype"] == "float32" else 1e-9
    if case["dtype"] == "float32" and case["far"]:
        tie = 1e-3  # float32 differences of coordinates ~1e4 carry ~1e-3 absolute error
    if has_dups:
        ctx.skip("coincident points: exact ties, parent comparison not decided")
        return
    par, near = replay_rule(P64, bf, k, ex, tie)
    if par is None:
        ctx.skip("replay: every connected point saturated")
        return
    if k != -1 and not ex:
        # would the root have taken more than k children without the limit?
        free, _ = replay_rule(P64, bf, -1, ex, tie)
        if free is not None and int((free == 0).sum()) > k:
            ctx.count("root_wants_more_than_k")
    if near:
        ctx.skip("replay near-tie: parent comparison not decided")
        return
    ctx.count("parents_replayed")
    if bf > 0:
        ctx.count("balanced_replayed")
    exp = {_key(allp[j]): (_key(allp[p]) if p >= 0 else None) for j, p in enumerate(par)}
    if got != exp:
        diff = [(a, got[a], exp[a]) for a in exp if got[a] != exp[a]][:2]
        return ctx.violation(
            "wrong-parent",
            f"{cls}(bf={bf}, furcations={k}, exclude_soma={ex}): {sum(got[a] != exp[a] for a in exp)} "
            f"of {n} points are not attached to the connected point minimising distance + bf * path "
            f"length; e.g. point {diff[0][0]} -> {diff[0][1]} instead of {diff[0][2]}", case)


def P64_of(xyz, i):
    return xyz[i].astype(np.float64)


def run(ctx):
    from swcgeom.transforms import PointsToCuntzMST

    contracts.install()
    rng = ctx.rng
    tap = probes.CallTap({"call": PointsToCuntzMST.__call__})
    with tap:
        for kk in range(ctx.scale(1100, 88000)):
            u = rng.random()
            n = int(rng.integers(2, 12)) if u < 0.3 else (int(rng.integers(12, 60)) if u < 0.9
                                                         else int(rng.integers(60, 300)))
            case = {"seed": int(rng.integers(0, 2**31 - 1)), "n": n,
                    "layout": str(rng.choice(["gauss", "uniform", "clustered", "arms"])),
                    "far": bool(rng.random() < 0.2),
                    "dtype": str(rng.choice(["float64", "float64", "float32", "int64", "int32"])),
                    "dups": bool(rng.random() < 0.12),
                    "soma": bool(rng.random() < 0.5),
                    "cls": str(rng.choice(["PointsToMST", "PointsToCuntzMST", "PointsToCuntzMST"])),
                    "bf": float(rng.choice([0, .1, .4, .7, 1.0])),
                    "k": int(rng.choice([-1, -1, 1, 2, 3, 4])),
                    "exclude_soma": bool(rng.random() < 0.5),
                    "sort": bool(rng.random() < 0.5)}
            ctx.case(case, nontrivial=n >= 3, klass=f"{case['cls']}/{case['layout']}")
            execute(ctx, case)
        # cloud sizes random cases rarely have (past 255 / 295 / 511 points), far from the origin
        # in single precision -- where any shortcut in the distance computation shows
        sizes = [255, 256, 257, 295, 296, 297, 400, 511, 512, 513] + ([] if ctx.quick else
                                                                      [1000, 1024, 1025, 2000])
        for j, n_ in enumerate(sizes):
            if j % ctx.nshards != ctx.shard:
                continue
            for cls_, bf_ in (("PointsToMST", 0.0), ("PointsToCuntzMST", 0.4)):
                case = {"seed": 5000 + 17 * j + ctx.seed, "n": n_, "layout": "uniform",
                        "far": True, "dtype": "float32", "dups": False, "soma": bool(j % 2),
                        "cls": cls_, "bf": bf_, "k": -1 if cls_ == "PointsToMST" else 3,
                        "exclude_soma": True, "sort": bool(j % 2)}
                ctx.case(case, klass="size-sweep")
                ctx.count("size_sweep_cases")
                execute(ctx, case)
    ctx.count("tap_call", tap.counts["call"])
    for fn, mech, detail in contracts.REC.problems:
        ctx.violation("c03-contract:" + mech, f"{fn}: {detail}",
                      {"note": "global C03 contract set during the C17 workload"})
    ctx.count("c03_contract_evaluations", sum(contracts.REC.evals.values()))


def replay(ctx, case):
    if "note" in case:
        return
    ctx.case(case)
    execute(ctx, case)
