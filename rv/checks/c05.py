"""C05 — node renumbering is a pure relabelling with parents before children.

Monitor: post-condition over every sort call (three forms), decided through unique node tags:
with unique tags a result row identifies the input row it came from, so "same attributed tree
under a new numbering" is an O(n) dictionary comparison and a violation names the offending
node.  sys.monitoring taps count entries into sort_nodes_impl / _sort_tree.
"""

from __future__ import annotations

import io
import warnings

import numpy as np
import pandas as pd

from rv import probes, contracts
from rv.gen import trees as G
from rv.oracles import topo

PROPERTY = "C05"
LEVEL = "exploration"
TECHNIQUE = ("runtime monitoring: post-condition on every sort call (tree, table, file forms) "
             "decided by a unique-tag bijection oracle; idempotence probe; sys.monitoring call "
             "taps and step budget on the real sort code")
LEVEL_TEXT = ("Exploration: thousands of generated single-rooted trees (all shape classes, "
              "permuted numberings, non-contiguous ids, shuffled rows, root anywhere, 0-3 extra "
              "columns incl. int64/float64/object) go through sort_tree, sort_nodes/sort_nodes_ and "
              "read_swc(sort_nodes=True); each result is compared with the tag oracle. Held = held "
              "on the executions produced."
              "Trees whose root is not stored at position 0 are sorted too."
              " Generated trees come in several representations of the same values (strided, other dtypes / lists, one array as two columns, read-only where the harness never writes) and half of them were queried, a third put through aborted operations, before use."
              " Trees the library derived from used ones (also with float64 coordinates); size sweep with 32-bit id tables and big branched trees."
              " read / sort call forms spelled positionally, by keyword and with defaults written out."
              " Sorted results re-rooted without sorting / re-linked in place and sorted again; sort_nodes_impl results kept across another sort; the C03 contract set (incl. re-verification of earlier results) is active."
              " Sorting twins under custom column names."
              " What sort_nodes_impl / sort_tree handed out is overwritten in place, then the same tree is sorted again.")
LEVEL_NOTE = ("Trusts the tag oracle (dict comparison) and pandas/numpy equality; sibling order "
              "and integer dtype width are free.")
RULE = ("cases = (tree recipe, form in {tree, table, table-inplace, file}, id scheme, row order, "
        "extra columns); non-trivial when the tree has >= 3 nodes; distinct = distinct (recipe, "
        "form, id scheme, order) tuples")
ASSUMPTIONS = [
    "inputs are single-rooted trees; ids distinct",
    "sibling order after sorting is unspecified; dtype width of id/pid is unspecified",
    "file form: extra columns are floats (the reader's documented behaviour)",
]
REQUIRED = ["tree_form_checked", "table_form_checked", "file_form_checked", "idempotence_checked",
            "tap_sort_nodes_impl", "is_sorted_true", "is_sorted_on_inputs", "tree_root_not_at_0", "size_sweep_cases",
            "read_options_by_position", "sorted_results_edited_then_sorted_again",
            "worker_results_kept_across_another_sort",
            "sorted_under_custom_column_names",
            "sorted_again_after_results_were_overwritten"]
FLOOR = {"quick": 1000, "thorough": 60000}
SHARDS = {"quick": 8, "thorough": 16}

STD = ["id", "type", "x", "y", "z", "r", "pid"]


def _relation(tags, pid):
    """tag -> tag of parent (None for the root)."""
    return {int(tags[i]): (int(tags[p]) if p >= 0 else None) for i, p in enumerate(pid)}


def _check_sorted_result(ids, pid, what):
    ids, pid = np.asarray(ids), np.asarray(pid)
    n = len(ids)
    if not np.array_equal(ids, np.arange(n)):
        return ("ids-not-arange", f"{what}: ids are not 0..n-1: {ids[:10].tolist()}")
    if n and pid[0] != -1:
        return ("root-not-zero", f"{what}: node 0 has parent {pid[0]}")
    if n > 1 and not np.all(pid[1:] < ids[1:]):
        k = 1 + int(np.nonzero(~(pid[1:] < ids[1:]))[0][0])
        return ("not-sorted", f"{what}: pid[{k}]={pid[k]} is not smaller than its child's id")
    if n > 1 and (pid[1:] < 0).any():
        return ("extra-root", f"{what}: more than one node without parent")
    return None


def _columns_follow(spec_cols, out_cols, tags_in, tags_out, what):
    """Every per-node column value must travel with its node (bit-exact)."""
    pos_in = {int(t): i for i, t in enumerate(tags_in)}
    if sorted(pos_in) != sorted(int(t) for t in tags_out):
        return ("not-a-bijection", f"{what}: output tags are not a permutation of the input tags")
    idx = np.array([pos_in[int(t)] for t in tags_out], dtype=np.int64)
    for k, v in spec_cols.items():
        if k not in out_cols:
            return ("column-lost", f"{what}: column {k!r} missing from the result")
        a, b = np.asarray(v)[idx], np.asarray(out_cols[k])
        same = (a == b) | ((a != a) & (b != b)) if a.dtype.kind == "f" else (a == b)
        if not np.all(same):
            j = int(np.nonzero(~np.asarray(same))[0][0])
            return ("column-permuted-wrongly",
                    f"{what}: column {k!r} of node tag {int(tags_out[j])} is {b[j]!r}, was {a[j]!r}")
    return None


def _idempotent(pid1, tags1, pid2, tags2):
    if _relation(tags1, pid1) != _relation(tags2, pid2):
        return ("resort-changes-tree", "sorting a sorted result changed the parent relation")
    return None


# ---------------------------------------------------------------- forms
def _tree_form(ctx, case, spec):
    from swcgeom.core import sort_tree
    from swcgeom.core import swc_utils as su

    if case.get("root_elsewhere") and len(spec["pid"]) >= 2:
        # a tree whose root is not stored at position 0 (what re-rooting without sorting returns)
        rng = np.random.default_rng(case["tseed"])
        n = len(spec["pid"])
        old_of_new = rng.permutation(n)
        if old_of_new[0] == int(np.nonzero(spec["pid"] == -1)[0][0]):
            old_of_new[[0, 1]] = old_of_new[[1, 0]]
        new_of_old = np.empty(n, dtype=np.int64)
        new_of_old[old_of_new] = np.arange(n)
        pid_old = spec["pid"][old_of_new]
        spec = {k: np.asarray(v)[old_of_new] for k, v in spec.items()}
        spec["pid"] = np.where(pid_old < 0, -1, new_of_old[np.maximum(pid_old, 0)]).astype(np.int32)
        ctx.count("tree_root_not_at_0")
    tree = G.build(spec, frozen_ok=True)
    if case.get("derived") and not case.get("root_elsewhere"):
        # what gets sorted is itself a tree the library derived from a used one (sorted already,
        # re-rooted, or moved by a float64 matrix: double-precision coordinate columns)
        tree, spec = G.derive(tree, spec, int(case["derived"]), float64_ok=True)
        if any(v.dtype == np.float64 for v in tree.ndata.values()):
            ctx.count("trees_with_float64_coordinates_sorted")
    before = {k: v.copy() for k, v in tree.ndata.items()}
    out = sort_tree(tree)
    ctx.count("tree_form_checked")
    for k, v in before.items():
        if not np.array_equal(tree.ndata[k], v, equal_nan=v.dtype.kind == "f"):
            ctx.violation("input-mutated", f"sort_tree changed its input column {k!r}", case)
            return
    r = _check_sorted_result(out.id(), out.pid(), "sort_tree")
    if r:
        return ctx.violation(r[0], r[1], case)
    if "tag" not in out.ndata:
        return ctx.violation("column-lost", "sort_tree dropped extra column 'tag'", case)
    tags_out = out.ndata["tag"]
    cols = {k: v for k, v in spec.items() if k not in ("pid",)}
    r = _columns_follow(cols, out.ndata, spec["tag"], tags_out, "sort_tree")
    if r:
        return ctx.violation(r[0], r[1], case)
    if _relation(spec["tag"], spec["pid"]) != _relation(tags_out, out.pid()):
        return ctx.violation("parent-relation-changed",
                             "sort_tree: parent relation differs under the tag bijection", case)
    if su.is_sorted((out.id(), out.pid())) is not True:
        return ctx.violation("is_sorted-false", "swc_utils.is_sorted(result) is not True", case)
    # is_sorted on the *input* numbering, as arrays and as plain lists: true exactly when every
    # parent id is smaller than its child's
    truth = bool(np.all(tree.pid() < tree.id()))
    for form, topo_ in (("arrays", (tree.id(), tree.pid())),
                        ("lists", (tree.id().tolist(), tree.pid().tolist()))):
        ans = su.is_sorted(topo_)
        ctx.count("is_sorted_on_inputs")
        if bool(ans) != truth:
            return ctx.violation("is_sorted-wrong", f"is_sorted({form}) = {ans} on the input "
                                                    f"numbering, parents precede children: {truth}",
                                 case)
    ctx.count("is_sorted_true")
    again = sort_tree(out)
    r = _check_sorted_result(again.id(), again.pid(), "sort_tree twice") or _idempotent(
        out.pid(), tags_out, again.pid(), again.ndata["tag"]) or _columns_follow(
        cols, again.ndata, spec["tag"], again.ndata["tag"], "sort_tree twice")
    ctx.count("idempotence_checked")
    if r:
        return ctx.violation(r[0], r[1], case)
    if type(tree).__name__ == "Tree" and case["tseed"] % 3 == 0:
        # the same tree held under custom column names (`names=`): the same sorted tree
        r = G.same_under_renaming(sort_tree, tree, level=case["tseed"] // 3 % 2)
        ctx.count("sorted_under_custom_column_names")
        if r:
            return ctx.violation("custom-column-names", f"sort_tree: {r}", case)
        r = G.same_under_ambient(lambda: sort_tree(tree), pick=case["tseed"])
        if r:
            return ctx.violation("ambient-state", f"sort_tree: {r}", case)
    # the two-step use of the exported worker: the (new ids, new parents, row index) of this
    # topology are kept while another topology of the same size is sorted, and are applied afterwards
    if len(out.id()) >= 2:
        n_ = len(out.id())
        ids_a, pids_a = np.array(tree.id()), np.array(tree.pid())
        (nid_a, npid_a), idx_a = su.sort_nodes_impl((ids_a, pids_a))
        other_p = np.arange(-1, n_ - 1)[::-1].copy()  # a chain numbered from the tip: n-1 <- ... <- 0
        other_p = np.where(np.arange(n_) == n_ - 1, -1, np.arange(n_) + 1)
        su.sort_nodes_impl((np.arange(n_), other_p))
        su.sort_nodes_impl((np.arange(n_, dtype=ids_a.dtype), other_p.astype(pids_a.dtype)))
        ctx.count("worker_results_kept_across_another_sort")
        r = _check_sorted_result(nid_a, npid_a, "sort_nodes_impl (result kept across another sort)")
        if r:
            return ctx.violation(r[0], r[1], case)
        tags_k = np.asarray(tree.ndata["tag"])[idx_a]
        if sorted(int(t_) for t_ in tags_k) != sorted(int(t_) for t_ in tree.ndata["tag"]) or \
                _relation(tree.ndata["tag"], pids_a) != _relation(tags_k, npid_a):
            return ctx.violation("parent-relation-changed",
                                 "sort_nodes_impl: the row index returned for one table, applied after "
                                 "another table of the same size was sorted, no longer carries the "
                                 "columns to their nodes", case)
    # what the worker and sort_tree handed out belongs to the caller: overwritten in place (1-based
    # numbering, a reversed index ...), then the same tree is sorted again
    if len(out.id()) >= 2:
        (w_ids, w_pids), w_idx = su.sort_nodes_impl((np.array(tree.id()), np.array(tree.pid())))
        for arr_ in (w_ids, w_pids, w_idx):
            if isinstance(arr_, np.ndarray) and arr_.flags.writeable:
                arr_ += 1
                arr_[::2] = arr_[::2][::-1].copy()
        first_pid, first_tag = np.array(out.pid()), np.array(out.ndata["tag"])
        scratch = sort_tree(tree)
        for k_, v_ in scratch.ndata.items():
            if v_.flags.writeable:
                v_[...] = 0
        redo = sort_tree(tree)
        ctx.count("sorted_again_after_results_were_overwritten")
        if not (np.array_equal(redo.pid(), first_pid) and np.array_equal(redo.ndata["tag"], first_tag)
                and np.array_equal(redo.id(), np.arange(len(first_pid)))):
            return ctx.violation("edit-leaks-to-later-result",
                                 "sort_tree: after the caller overwrote, in place, what an earlier "
                                 "sort of the same tree had returned, sorting it again gives another "
                                 "result", case)
    # the sorted result lives on: it is re-rooted without sorting, or a node of a copy of it is
    # re-attached in place -- and what comes out of that is sorted again
    n = len(out.id())
    if n >= 3:
        from swcgeom.core import redirect_tree

        rng = np.random.default_rng(case["tseed"] + 29)
        for how in ("reroot", "relink"):
            if how == "reroot":
                v = int(rng.integers(1, n))
                inp = redirect_tree(out, v, sort=False)
            else:
                inp = out.copy()
                pp = np.array(inp.pid())
                k = int(rng.integers(1, n))
                ch = {}
                for c_, p_ in enumerate(pp):
                    ch.setdefault(int(p_), []).append(c_)
                sub, stack = set(), [k]
                while stack:
                    q = stack.pop()
                    sub.add(q)
                    stack.extend(ch.get(q, []))
                cands = [j for j in range(n) if j not in sub and j != int(pp[k]) and j > k]
                if not cands:
                    continue
                inp.node(k).pid = int(cands[int(rng.integers(0, len(cands)))])
            ctx.count("sorted_results_edited_then_sorted_again")
            cols_in = {k_: v_.copy() for k_, v_ in inp.ndata.items() if k_ not in ("id", "pid")}
            res = sort_tree(inp)
            what = f"sort_tree of a sorted tree after {how}"
            r = _check_sorted_result(res.id(), res.pid(), what) or _columns_follow(
                cols_in, res.ndata, inp.ndata["tag"], res.ndata["tag"], what)
            if r:
                return ctx.violation(r[0], r[1], case)
            if _relation(inp.ndata["tag"], inp.pid()) != _relation(res.ndata["tag"], res.pid()):
                return ctx.violation("parent-relation-changed",
                                     f"{what}: parent relation differs under the tag bijection", case)


def _make_table(spec, case):
    """Arbitrary distinct ids, rows in arbitrary order, root anywhere."""
    rng = np.random.default_rng(case["tseed"])
    n = len(spec["pid"])
    scheme = case["ids"]
    if scheme == "offset":
        ids = np.arange(n) + int(rng.integers(1, 1000))
    elif scheme == "sparse":
        ids = np.sort(rng.choice(np.arange(0, 50 * n + 10), size=n, replace=False))
    elif scheme == "scrambled":
        ids = rng.choice(np.arange(0, 50 * n + 10), size=n, replace=False)
    else:
        ids = np.arange(n)
    ids = ids.astype(np.int64)
    pid = np.where(spec["pid"] >= 0, ids[np.maximum(spec["pid"], 0)], -1)
    order = {"asis": np.arange(n), "reverse": np.arange(n)[::-1],
             "shuffle": rng.permutation(n)}[case["order"]]
    cols = {"id": ids, "type": spec["type"].astype(np.int64), "x": spec["x"].astype(np.float64),
            "y": spec["y"].astype(np.float64), "z": spec["z"].astype(np.float64),
            "r": spec["r"].astype(np.float64), "pid": pid.astype(np.int64),
            "tag": spec["tag"].astype(np.int64)}
    for k, v in spec.items():
        if k.startswith("e"):
            cols[k] = v
    ex = case.get("xcol")
    if ex == "big_int":
        cols["uid"] = (2**53 + 1 + 2 * spec["tag"].astype(np.int64))
    elif ex == "f64":
        cols["w"] = spec["tag"].astype(np.float64) / 3.0
    elif ex == "obj":
        cols["label"] = np.array([f"n{int(t)}" for t in spec["tag"]], dtype=object)
    elif ex == "bool":
        cols["flag"] = (spec["tag"] % 2 == 0)
    if case.get("idtype") == "int32":  # tables typed like the library's own trees
        cols["id"], cols["pid"] = cols["id"].astype(np.int32), cols["pid"].astype(np.int32)
    df = pd.DataFrame({k: np.asarray(v)[order] for k, v in cols.items()})
    return df


def _table_form(ctx, case, spec, inplace):
    from swcgeom.core import swc_utils as su

    df = _make_table(spec, case)
    before = df.copy(deep=True)
    if inplace:
        out = df.copy(deep=True)
        ret = su.sort_nodes_(out)
        if ret is not None:
            ctx.violation("inplace-returns", "sort_nodes_ returned a value", case)
    else:
        out = su.sort_nodes(df)
        if not before.equals(df):
            return ctx.violation("input-mutated", "sort_nodes changed the table it was given", case)
        if out is df:
            return ctx.violation("input-aliased", "sort_nodes returned its input object", case)
    ctx.count("table_form_checked")
    if list(out.columns) != list(before.columns) or len(out) != len(before):
        return ctx.violation("column-lost", f"columns/rows changed: {list(out.columns)} "
                                            f"x {len(out)}", case)
    r = _check_sorted_result(out["id"].to_numpy(), out["pid"].to_numpy(), "sort_nodes")
    if r:
        return ctx.violation(r[0], r[1], case)
    tags_out = out["tag"].to_numpy()
    cols_in = {k: before[k].to_numpy() for k in before.columns if k not in ("id", "pid")}
    cols_out = {k: out[k].to_numpy() for k in out.columns}
    r = _columns_follow(cols_in, cols_out, before["tag"].to_numpy(), tags_out, "sort_nodes")
    if r:
        return ctx.violation(r[0], r[1], case)
    id2tag = dict(zip(before["id"].tolist(), before["tag"].tolist()))
    rel_in = {int(t): (id2tag[p] if p != -1 else None)
              for t, p in zip(before["tag"].tolist(), before["pid"].tolist())}
    if rel_in != _relation(tags_out, out["pid"].to_numpy()):
        return ctx.violation("parent-relation-changed",
                             "sort_nodes: parent relation differs under the tag bijection", case)
    if su.is_sorted(su.get_topology(out)) is not True:
        return ctx.violation("is_sorted-false", "swc_utils.is_sorted(result) is not True", case)
    ctx.count("is_sorted_true")
    again = su.sort_nodes(out)
    r = _check_sorted_result(again["id"].to_numpy(), again["pid"].to_numpy(), "sort twice") or \
        _idempotent(out["pid"].to_numpy(), tags_out, again["pid"].to_numpy(),
                    again["tag"].to_numpy())
    ctx.count("idempotence_checked")
    if r:
        ctx.violation(r[0], r[1], case)


def _file_form(ctx, case, spec):
    from swcgeom.core import swc_utils as su
    from swcgeom.core import Tree

    df = _make_table(spec, case)
    df = df[[c for c in df.columns if df[c].dtype.kind in "if"]]
    extras = [c for c in df.columns if c not in STD]
    lines = ["# generated by rv C05"]
    for row in df.itertuples(index=False):
        d = row._asdict()
        lines.append(" ".join([str(int(d["id"])), str(int(d["type"])), repr(float(d["x"])),
                               repr(float(d["y"])), repr(float(d["z"])), repr(float(d["r"])),
                               str(int(d["pid"]))] + [repr(float(d[e])) for e in extras]))
    text = "\n".join(lines) + "\n"
    with warnings.catch_warnings():
        warnings.simplefilter("ignore")
        # the request spelled by keyword, with the extra columns by position, all by position
        # (extra_cols, fix_roots, sort_nodes), or with reset_index spelled out as well
        form = case["tseed"] % 4
        if form == 0:
            out, _ = su.read_swc(io.StringIO(text), extra_cols=extras, sort_nodes=True)
        elif form == 1:
            out, _ = su.read_swc(io.StringIO(text), extras, sort_nodes=True)
            ctx.count("read_options_by_position")
        elif form == 2:
            out, _ = su.read_swc(io.StringIO(text), extras, False, True)
            ctx.count("read_options_by_position")
        else:
            out, _ = su.read_swc(io.StringIO(text), tuple(extras), sort_nodes=True,
                                 reset_index=bool(case["tseed"] % 8 < 4))
            ctx.count("read_options_by_position")
    ctx.count("file_form_checked")
    r = _check_sorted_result(out["id"].to_numpy(), out["pid"].to_numpy(), "read_swc(sort)")
    if r:
        return ctx.violation(r[0], r[1], case)
    tags_out = out["tag"].to_numpy().astype(np.int64)
    cols_in = {k: df[k].to_numpy().astype(np.float64) for k in df.columns
               if k not in ("id", "pid")}
    cols_out = {k: out[k].to_numpy().astype(np.float64) for k in out.columns}
    r = _columns_follow(cols_in, cols_out, df["tag"].to_numpy(), tags_out, "read_swc(sort)")
    if r:
        return ctx.violation(r[0], r[1], case)
    id2tag = dict(zip(df["id"].tolist(), df["tag"].tolist()))
    rel_in = {int(t): (id2tag[p] if p != -1 else None)
              for t, p in zip(df["tag"].tolist(), df["pid"].tolist())}
    if rel_in != _relation(tags_out, out["pid"].to_numpy()):
        return ctx.violation("parent-relation-changed",
                             "read_swc(sort_nodes=True): parent relation differs", case)
    # the Tree front end must agree with the table front end
    with warnings.catch_warnings():
        warnings.simplefilter("ignore")
        t = Tree.from_swc(io.StringIO(text), sort_nodes=True)
    if not (np.array_equal(t.pid(), out["pid"].to_numpy())
            and np.array_equal(t.x(), out["x"].to_numpy().astype(np.float32))):
        ctx.violation("tree-frontend-differs", "Tree.from_swc(sort_nodes=True) differs from "
                                               "read_swc(sort_nodes=True)", case)


_BUDGET = None


def _budget():
    global _BUDGET
    if _BUDGET is None:
        from swcgeom.core.swc_utils import normalizer

        _BUDGET = probes.StepBudget([normalizer.sort_nodes_impl]).install()
    return _BUDGET


def execute(ctx, case):
    spec = G.spec_from_recipe(case["tree"])
    n = len(spec["pid"])
    form = case["form"]
    fn = {"tree": lambda: _tree_form(ctx, case, spec),
          "table": lambda: _table_form(ctx, case, spec, False),
          "table_": lambda: _table_form(ctx, case, spec, True),
          "file": lambda: _file_form(ctx, case, spec)}[form]
    try:
        _budget().run(400 * (n + 3) ** 2, fn)
    except probes.StepBudgetExceeded as e:
        ctx.violation("diverged", f"sorting did not finish within the step budget: {e}", case)
    except Exception as e:
        ctx.violation("sort-raised", f"{form}: {type(e).__name__}: {str(e)[:300]}", case)


def run(ctx):
    from swcgeom.core.swc_utils import normalizer
    from swcgeom.core import tree_utils

    contracts.install()
    tap = probes.CallTap({"sort_nodes_impl": normalizer.sort_nodes_impl,
                          "_sort_tree": tree_utils._sort_tree,
                          "sort_nodes_": normalizer.sort_nodes_})
    with tap:
        rng = ctx.rng
        n_trees = ctx.scale(500, 27000)
        for k in range(n_trees):
            rc = G.random_recipe(rng, max_n=G.size_ladder(ctx, k, 9, 40, 400),
                                 extras=int(rng.integers(0, 3)))
            nontrivial = rc["n"] >= 3 and rc["shape"] not in ("single", "pair")
            for form in ("tree", "table", "table_", "file"):
                case = {"tree": rc, "form": form,
                        "ids": str(rng.choice(["plain", "offset", "sparse", "scrambled"])),
                        "order": str(rng.choice(["asis", "reverse", "shuffle"])),
                        "xcol": str(rng.choice(["none", "big_int", "f64", "obj", "bool"])),
                        "tseed": int(rng.integers(0, 2**31 - 1))}
                if form == "tree":
                    case.update(ids="plain", order="asis", xcol="none",
                                root_elsewhere=bool(rng.random() < 0.35))
                    if rng.random() < 0.3:
                        case["derived"] = int(rng.integers(1, 2**31 - 1))
                ctx.case(case, nontrivial=nontrivial, klass=f"{form}/{rc['shape']}")
                execute(ctx, case)
        # sizes random cases never have (powers of two, block sizes, big branched trees) and
        # tables whose id columns are 32 bits wide with sparse ids
        for j, rc in enumerate(G.sweep_recipes(ctx, large=2, extras=1)):
            for form in (("tree", "table") if rc["n"] <= 10000 else ("tree", "table_")):
                case = {"tree": rc, "form": form, "ids": "sparse" if form != "tree" else "plain",
                        "order": "shuffle" if form != "tree" else "asis", "xcol": "none",
                        "tseed": 7 + j, "idtype": "int32" if j % 2 == 0 else "int64"}
                ctx.case(case, klass=f"size-sweep/{form}")
                ctx.count("size_sweep_cases")
                execute(ctx, case)
        # one deep chain per shard (stack discipline on deep inputs)
        n_deep = 20000 if ctx.quick else 100000
        if ctx.shard < 2:
            rc = {"shape": "chain", "n": n_deep, "numbering": "sorted" if ctx.shard else "perm",
                  "geom": "int", "types": "soma", "extras": 0, "seed": ctx.sub_seed("deep")}
            case = {"tree": rc, "form": "tree", "ids": "plain", "order": "asis", "xcol": "none",
                    "tseed": 1}
            ctx.case(case, klass="deep-chain")
            try:
                _tree_form(ctx, case, G.spec_from_recipe(rc))
            except RecursionError as e:
                ctx.violation("recursion-limit", f"sort_tree on a {n_deep}-node chain: {e}", case)
            except Exception as e:
                ctx.violation("sort-raised", f"{type(e).__name__}: {e}", case)
    for k, v in tap.counts.items():
        ctx.count("tap_" + k, v)
    contracts.report(ctx, "C05")


def replay(ctx, case):
    ctx.case(case)
    execute(ctx, case)
