"""C04 — traversal is structural recursion, at any depth.

Monitor: history + trace specification.  The harness passes recording callbacks whose
return values are fresh unique tokens; the (enter|leave, node, argument identities) events
are logged at the client boundary and checked offline against a specification computed from
children lists only.
"""

from __future__ import annotations

import sys

import numpy as np

from rv.gen import trees as G
from rv.oracles import topo
from rv import probes

PROPERTY = "C04"
LEVEL = "exploration"
RULE = ("cases = (tree recipe, entry point in {swc_utils.traverse, Tree.traverse, "
        "Tree.Node.traverse}, callback mode in {enter, leave, both}, start node); every start "
        "node for trees up to 40 nodes, sampled starts above; deep chains/combs/brooms at the "
        "default recursion limit and chains under a lowered limit; raising callbacks. "
        "A case is non-trivial when the start node's subtree has >= 2 nodes; distinct = distinct "
        "(recipe, api, mode, start) tuples.")
ASSUMPTIONS = [
    "inputs are well-formed trees (id == position, root 0), any numbering",
    "sibling visiting order and order of values inside the children list are free",
    "held = held on the executions produced; depth explored up to 1e4 (quick) / 1e5 (thorough)",
]
REQUIRED = ["traversals_started_inside_callbacks", "raised_limit_traversals", "histories_checked", "events_checked", "deep_traversals", "low_limit_traversals",
            "raising_callbacks_checked", "list_mutating_callbacks", "history_traversals",
            "inplace_reparentings", "history_copies", "history_rerootings", "handle_variants",
            "falsy_callable_callbacks", "forest_traversals", "row_permuted_topologies",
            "near_recursion_limit_chains", "tap__traverse_dfs", "size_sweep_cases",
            "trees_beyond_46341_nodes"]
FLOOR = {"quick": 1200, "thorough": 100000}
SHARDS = {"quick": 8, "thorough": 16}
TECHNIQUE = ("runtime monitoring: recorded enter/leave callback histories with unique tokens "
             "checked offline against a structural-recursion trace specification; lowered "
             "recursion limit and 1e4/1e5-deep trees; sys.monitoring step budget and call tap")
LEVEL_TEXT = ("Exploration: every traversal the workload produces (3 entry points x 3 callback "
              "modes x all start nodes of thousands of generated trees, plus deep chains, combs "
              "and brooms) is checked event by event against the specification; held means held "
              "on those executions, not for all trees."
              "Start nodes are also addressed as tree[-k] / tree[np.int64(i)]; half of the leave callbacks mutate the list they receive; histories on one tree object interleave traversals with in-place re-parenting through node handles, copies and re-rootings."
              " Generated trees come in several representations of the same values (strided, other dtypes / lists, one array as two columns, read-only where the harness never writes) and half of them were queried, a third put through aborted operations, before use. Chains of 80-257 nodes under the lowered recursion limit as well."
              " Size sweep 255 .. 8193 and big branched, permuted trees up to 10^5 nodes."
              " Callbacks that start traversals themselves (another tree, the same tree from another node), each inner history held to the same specification."
              " Chains of 1 500 / 4 000 nodes under recursion limits the caller raised.")
LEVEL_NOTE = ("Trusts the harness's own children-list oracle (15 lines) and that callbacks are "
              "invoked in the calling thread; sibling order is deliberately unconstrained.")

APIS = ("su", "tree", "node")
MODES = ("e", "l", "el")


NESTED = [0]


class Tok:
    __slots__ = ("k", "n")

    def __init__(self, k, n):
        self.k, self.n = k, n


def check_history(pid, start, ev, ret, has_enter, has_leave):
    """Trace specification of structural recursion. Returns None or (mechanism, detail)."""
    ch = topo.children_lists(pid)
    D = set(topo.descendants(ch, start))
    ent, lev = {}, {}
    for t, (kind, node, arg, tok) in enumerate(ev):
        d = ent if kind == "enter" else lev
        if node in d:
            return ("visited-twice", f"{kind}({node}) called twice")
        d[node] = (t, arg, tok)
    if has_enter:
        if set(ent) != D:
            extra, miss = sorted(set(ent) - D)[:5], sorted(D - set(ent))[:5]
            return ("enter-set", f"entered set != subtree of {start}: extra {extra} missing {miss}")
        for v in D:
            t, arg, tok = ent[v]
            if v == start:
                if arg is not None:
                    return ("start-arg", f"start node {v} received {arg!r}, expected None")
            else:
                p = int(pid[v])
                pt, _, ptok = ent[p]
                if not pt < t:
                    return ("enter-order", f"enter({v}) before enter(parent {p})")
                if arg is not ptok:
                    return ("enter-arg", f"enter({v}) did not receive the value returned by "
                                         f"enter(parent {p})")
                if has_leave and not t < lev[p][0]:
                    return ("enter-after-parent-leave", f"enter({v}) after leave(parent {p})")
    elif ent:
        return ("enter-set", "enter events without an enter callback")
    if has_leave:
        if set(lev) != D:
            extra, miss = sorted(set(lev) - D)[:5], sorted(D - set(lev))[:5]
            return ("leave-set", f"left set != subtree of {start}: extra {extra} missing {miss}")
        for v in D:
            t, arg, tok = lev[v]
            if sorted(map(id, arg)) != sorted(id(lev[c][2]) for c in ch[v]):
                return ("leave-children-values",
                        f"leave({v}) got {len(arg)} values, not exactly its {len(ch[v])} "
                        f"children's return values")
            if any(lev[c][0] > t for c in ch[v]):
                return ("leave-order", f"leave({v}) before one of its children")
            if has_enter and not ent[v][0] < t:
                return ("leave-before-enter", f"leave({v}) before enter({v})")
        if ret is not lev[start][2]:
            return ("return-value", "traverse did not return the start node's leave value")
    else:
        if ret is not None:
            return ("return-value", f"traverse without leave returned {ret!r}")
    return None


class _FalsyCallable:
    def __init__(self, fn):
        self.fn = fn

    def __call__(self, *a):
        return self.fn(*a)

    def __len__(self):
        return 0


def _run_traverse(tree, api, mode, start, *, raise_at=None, hostile=False, falsy=False,
                  nested=None):
    """Run one traversal with recording callbacks; returns (events, ret, node_errors).
    ``nested``: the callbacks themselves traverse -- another tree ("other"), or this tree from
    another node ("same") -- and those inner traversals are checked against the same trace
    specification; the outer history is checked by the caller as always."""
    from swcgeom.core import Tree
    from swcgeom.core import swc_utils as su

    ev, node_err, kept = [], [], []
    boom = RuntimeError("rv-callback-raise")
    inner_host = G.host_tree(int(start) % 5, 6 + int(start) % 7) if nested == "other" else tree
    inner_pid = np.array(inner_host.pid())
    inner_runs = [0]

    def inner(i):
        if nested is None or inner_runs[0] >= 24:
            return
        inner_runs[0] += 1
        m_ = len(inner_pid)
        s_ = 0 if nested == "other" else (i * 7 + 3) % m_
        ev2 = []

        def e2(nd, arg):
            j = int(nd) if use_su else int(nd.id)
            tok = Tok("e", j)
            ev2.append(("enter", j, arg, tok))
            return tok

        def l2(nd, arg):
            j = int(nd) if use_su else int(nd.id)
            tok = Tok("l", j)
            ev2.append(("leave", j, list(arg), tok))
            return tok

        use_su = inner_runs[0] % 3 == 0
        if use_su:
            ret2 = su.traverse((inner_host.id(), inner_host.pid()), enter=e2, leave=l2, root=s_)
        elif inner_runs[0] % 3 == 1:
            ret2 = inner_host.traverse(enter=e2, leave=l2, root=s_)
        else:
            ret2 = inner_host.node(s_).traverse(enter=e2, leave=l2)
        NESTED[0] += 1
        r2 = check_history(inner_pid, s_, ev2, ret2, True, True)
        if r2 and not node_err:
            node_err.append(f"a traversal started from inside a callback (of {nested} tree, from "
                            f"node {s_}) is itself not structural recursion: [{r2[0]}] {r2[1]}")

    def ident(nd):
        if api in ("su", "su_rows"):
            return int(nd)
        if not isinstance(nd, Tree.Node):
            node_err.append(f"callback got {type(nd).__name__}, not Tree.Node")
        elif nd.attach is not tree:
            node_err.append("callback node is attached to another tree")
        i = int(nd.id)
        kept.append((nd, i))  # callbacks may keep / return the handle they were given
        return i

    def enter(nd, arg):
        i = ident(nd)
        if raise_at == ("enter", i):
            raise boom
        tok = Tok("e", i)
        ev.append(("enter", i, arg, tok))
        inner(i)
        return tok

    def leave(nd, arg):
        i = ident(nd)
        if raise_at == ("leave", i):
            raise boom
        tok = Tok("l", i)
        ev.append(("leave", i, list(arg), tok))
        if hostile:
            # a callback may consume the list it was handed (in-place reduce): that must not leak
            # into what any other node receives
            arg.append(Tok("junk", i))
            arg.reverse()
        inner(i)
        return tok

    kw = {}
    if "e" in mode:
        kw["enter"] = enter
    if "l" in mode:
        kw["leave"] = leave
    if falsy:
        # callables that are *falsy* objects (a recorder that is still empty): a callback is
        # "given" when it is not None, whatever its truth value
        kw = {k: _FalsyCallable(f) for k, f in kw.items()}
    try:
        if api == "su":
            ret = su.traverse((tree.id(), tree.pid()), root=start, **kw)
        elif api == "su_rows":
            # the functional form takes any (ids, pids) table: rows in another order than the ids,
            # the start node given as a numpy scalar
            n_ = tree.number_of_nodes()
            order = np.random.default_rng(n_ * 7919 + int(start)).permutation(n_)
            ret = su.traverse((tree.id()[order], tree.pid()[order]), root=np.int64(start), **kw)
        elif api == "tree":
            ret = tree.traverse(root=start, **kw)
        elif api == "node_neg":  # the same node addressed from the end
            ret = tree[int(start) - tree.number_of_nodes()].traverse(**kw)
        elif api == "node_item":
            ret = tree[np.int64(start)].traverse(**kw)
        else:
            ret = tree.node(start).traverse(**kw)
    except RuntimeError as e:
        if raise_at is not None:
            return ev, ("raised", e is boom), node_err
        raise
    for nd, i in kept:  # a handle kept by the callback must still denote the node it was given for
        if int(nd.id) != i:
            node_err.append(f"node handle passed for node {i} later reads as node {int(nd.id)} "
                            f"(handles are shared between callback invocations)")
            break
    return ev, ret, node_err


_BUDGET = None


def _budget():
    global _BUDGET
    if _BUDGET is None:
        from swcgeom.core.swc_utils import base
        from swcgeom.core import tree as tree_mod

        _BUDGET = probes.StepBudget([base, tree_mod.Tree.traverse]).install()
    return _BUDGET


def execute(ctx, case) -> None:
    kind = case["kind"]
    if kind == "small":
        _exec_small(ctx, case)
    elif kind == "deep":
        _exec_deep(ctx, case)
    elif kind == "lowlimit":
        _exec_lowlimit(ctx, case)
    elif kind == "raise":
        _exec_raise(ctx, case)
    elif kind == "history":
        _exec_history(ctx, case)


def _exec_small(ctx, case):
    spec = G.spec_from_recipe(case["tree"])
    if case.get("forest"):
        # more than one root (what reading a multi-root file without repair gives): a traversal
        # from a node never leaves that node's component
        pid = spec["pid"].copy()
        n_ = len(pid)
        rng_ = np.random.default_rng(case["forest"])
        for v in rng_.integers(1, n_, int(rng_.integers(1, 4))):
            pid[int(v)] = -1
        spec = dict(spec, pid=pid)
        ctx.count("forest_traversals")
    tree = G.build(spec)
    pid = spec["pid"]
    api, mode, start = case["api"], case["mode"], case["start"]
    n = len(pid)
    try:
        if case.get("hostile"):
            ctx.count("list_mutating_callbacks")
        if case.get("falsy"):
            ctx.count("falsy_callable_callbacks")
        if api == "su_rows":
            ctx.count("row_permuted_topologies")
        (ev, ret, nerr), steps = _budget().run(2000 * (n + 2) ** 2, _run_traverse, tree, api,
                                               mode, start, hostile=bool(case.get("hostile")),
                                               falsy=bool(case.get("falsy")),
                                               nested=case.get("nested"))
    except probes.StepBudgetExceeded as e:
        ctx.violation("diverged", f"traversal did not finish within the step budget: {e}", case)
        return
    except RecursionError as e:
        ctx.violation("recursion-limit", f"RecursionError on a {n}-node tree: {e}", case)
        return
    except Exception as e:
        ctx.violation("traverse-raised", f"{type(e).__name__}: {e}", case)
        return
    ctx.count("histories_checked")
    ctx.count("events_checked", len(ev))
    ctx.count("line_events_under_budget", steps)
    if nerr:
        ctx.violation("node-wrapping", nerr[0], case)
    r = check_history(pid, start, ev, ret, "e" in mode, "l" in mode)
    if r:
        ctx.violation(r[0], r[1] + f" | pid={pid.tolist() if n <= 30 else '...'}", case)


def _exec_history(ctx, case):
    """Traversals of one tree *object* interleaved with in-place topology edits through node
    handles, copies and re-rootings: every traversal must follow the topology of that moment."""
    from swcgeom.core.tree_utils import redirect_tree

    rng = np.random.default_rng(case["hseed"])
    spec = G.spec_from_recipe(case["tree"])
    tree = G.build(spec)
    pid = spec["pid"].astype(np.int64).copy()
    n = len(pid)
    root = 0

    def traverse_and_check(t, cur_pid, cur_root, what):
        ch = topo.children_lists(cur_pid)
        start = int(rng.integers(0, n)) if rng.random() < 0.6 else cur_root
        api = ("su", "tree", "node", "node_neg", "node_item")[int(rng.integers(0, 5))]
        mode = MODES[int(rng.integers(0, 3))]
        try:
            ev, ret, nerr = _run_traverse(t, api, mode, start)
        except Exception as e:
            ctx.violation("traverse-raised", f"{what}: {api} from {start}: {type(e).__name__}: {e}",
                          case)
            return False
        ctx.count("history_traversals")
        ctx.count("events_checked", len(ev))
        if api in ("node_neg", "node_item"):
            ctx.count("handle_variants")
        r = check_history(cur_pid, start, ev, ret, "e" in mode, "l" in mode)
        if r:
            ctx.violation(r[0], f"{what} ({api}, mode {mode}, start {start}): {r[1]} | pid now "
                                f"{cur_pid.tolist() if n <= 30 else '...'}", case)
            return False
        return True

    if not traverse_and_check(tree, pid, root, "fresh tree"):
        return
    for step in range(case["nsteps"]):
        u = rng.random()
        if u < 0.55 and n >= 3:
            # re-parent a node in place (it stays a tree: the new parent is outside its subtree)
            ch = topo.children_lists(pid)
            k = int(rng.integers(0, n))
            if k == root:
                continue
            sub = set(topo.descendants(ch, k))
            cands = [j for j in range(n) if j not in sub and j != pid[k]]
            if not cands:
                continue
            j = int(cands[int(rng.integers(0, len(cands)))])
            tree.node(k).pid = j
            pid[k] = j
            ctx.count("inplace_reparentings")
            what = f"after node({k}).pid = {j} (step {step})"
        elif u < 0.75:
            tree = tree.copy()
            ctx.count("history_copies")
            what = f"copy of the traversed tree (step {step})"
        elif n >= 2:
            v = int(rng.integers(0, n))
            tree = redirect_tree(tree, v, sort=False)
            pid = np.asarray(tree.pid()).astype(np.int64).copy()
            root = int(np.nonzero(pid == -1)[0][0])
            ctx.count("history_rerootings")
            what = f"redirect_tree(tree, {v}, sort=False) of the traversed tree (step {step})"
        else:
            continue
        if not np.array_equal(np.asarray(tree.pid()), pid):
            ctx.violation("history-harness", "shadow parent array out of step", case)
            return
        if not traverse_and_check(tree, pid, root, what):
            return


def _big_pid(shape, n):
    if shape == "chain":
        return np.arange(-1, n - 1)
    if shape == "revchain":  # children numbered before parents: node i's parent is i+1, root 0
        pid = np.arange(1, n + 1)
        pid[0] = -1
        pid[n - 1] = 0
        return pid
    if shape == "comb":  # spine of n/2 nodes, one tooth per spine node
        h = n // 2
        pid = np.empty(n, dtype=np.int64)
        pid[:h] = np.arange(-1, h - 1)
        pid[h:] = np.arange(0, n - h)
        return pid
    if shape == "broom":
        h = (2 * n) // 3
        pid = np.empty(n, dtype=np.int64)
        pid[:h] = np.arange(-1, h - 1)
        pid[h:] = h - 1
        return pid
    raise ValueError(shape)


def _exec_deep(ctx, case):
    from swcgeom.core import Tree
    from swcgeom.core import swc_utils as su

    n, shape, api, mode = case["n"], case["shape"], case["api"], case["mode"]
    pid = _big_pid(shape, n).astype(np.int32)
    tree = Tree(n, pid=pid)
    start = case.get("start", 0)
    try:
        ev, ret, nerr = _run_traverse(tree, api, mode, start)
    except RecursionError as e:
        ctx.violation("recursion-limit", f"RecursionError on a {shape} of {n} nodes via {api}: "
                                         f"{str(e)[:100]}", case)
        return
    except Exception as e:
        ctx.violation("traverse-raised", f"{type(e).__name__}: {e}", case)
        return
    ctx.count("deep_traversals")
    ctx.count("events_checked", len(ev))
    r = check_history(pid, start, ev, ret, "e" in mode, "l" in mode)
    if r:
        ctx.violation(r[0], f"{r[1]} (deep {shape}, n={n})", case)


def _exec_lowlimit(ctx, case):
    """Any per-node recursion fails quickly under a recursion limit just above the current
    depth (the real 1e4/1e5 chains at the default limit are run separately)."""
    from swcgeom.core import Tree

    n, api, mode = case["n"], case["api"], case["mode"]
    pid = _big_pid(case["shape"], n).astype(np.int32)
    tree = Tree(n, pid=pid)
    old = sys.getrecursionlimit()
    depth = len(__import__("inspect").stack(0))
    lim = depth + 70 if not case.get("raised") else int(case["raised"])
    try:
        sys.setrecursionlimit(lim)
        try:
            ev, ret, nerr = _run_traverse(tree, api, mode, 0)
        finally:
            sys.setrecursionlimit(old)
    except RecursionError:
        ctx.violation("recursion-limit", f"traversal of a {n}-node {case['shape']} recursed "
                                         f"per node (recursion limit = {lim})", case)
        return
    ctx.count("low_limit_traversals" if not case.get("raised") else "raised_limit_traversals")
    r = check_history(pid, 0, ev, ret, "e" in mode, "l" in mode)
    if r:
        ctx.violation(r[0], r[1], case)


def _exec_raise(ctx, case):
    spec = G.spec_from_recipe(case["tree"])
    tree = G.build(spec)
    pid = spec["pid"]
    at = (case["where"], case["node"])
    mode = "el"
    try:
        ev, ret, _ = _run_traverse(tree, case["api"], mode, case["start"], raise_at=at)
    except Exception as e:
        ctx.violation("exception-changed", f"callback exception surfaced as "
                                           f"{type(e).__name__}: {e}", case)
        return
    ctx.count("raising_callbacks_checked")
    ch = topo.children_lists(pid)
    in_sub = case["node"] in set(topo.descendants(ch, case["start"]))
    if in_sub:
        if not (isinstance(ret, tuple) and ret[0] == "raised"):
            ctx.violation("exception-swallowed", f"exception raised in {at} did not propagate",
                          case)
        elif not ret[1]:
            ctx.violation("exception-changed", "a different exception object propagated", case)
    else:
        if isinstance(ret, tuple) and ret and ret[0] == "raised":
            ctx.violation("enter-set", f"callback for node {case['node']} outside the subtree of "
                                       f"{case['start']} was invoked", case)


def run(ctx):
    from swcgeom.core.swc_utils import base

    tap = probes.CallTap({"_traverse_dfs": base._traverse_dfs})
    with tap:
        _workload(ctx)
    ctx.count("tap__traverse_dfs", tap.counts["_traverse_dfs"])
    ctx.count("traversals_started_inside_callbacks", NESTED[0])


def _workload(ctx):
    rng = ctx.rng
    n_trees = ctx.scale(260, 20000)
    for k in range(n_trees):
        rc = G.random_recipe(rng, max_n=G.size_ladder(ctx, k, 10, 40, 150), extras=0)
        spec = G.spec_from_recipe(rc)
        n = len(spec["pid"])
        starts = range(n) if n <= 40 else sorted(set(rng.integers(0, n, 12).tolist()) | {0})
        ch = topo.children_lists(spec["pid"])
        for start in starts:
            api = (APIS + ("node_neg", "node_item", "su_rows"))[int(rng.integers(0, 6))]
            mode = MODES[int(rng.integers(0, 3))]
            case = {"kind": "small", "tree": rc, "api": api, "mode": mode, "start": int(start)}
            if "l" in mode and rng.random() < 0.5:
                case["hostile"] = True
            if rng.random() < 0.15:
                case["falsy"] = True
            if n >= 3 and rng.random() < 0.15:
                case["forest"] = int(rng.integers(1, 2**31 - 1))
            elif rng.random() < 0.25:
                case["nested"] = "other" if rng.random() < 0.5 else "same"
            ctx.case(case, nontrivial=len(ch[start]) > 0, klass=f"small/{rc['shape']}")
            execute(ctx, case)
        # all three entry points and all three modes must agree on one start per tree
        start = int(rng.integers(0, n))
        for api in APIS:
            for mode in MODES:
                case = {"kind": "small", "tree": rc, "api": api, "mode": mode, "start": start}
                ctx.case(case, nontrivial=len(ch[start]) > 0, klass=f"api/{api}/{mode}")
                execute(ctx, case)
        if k % 2 == 0:
            case = {"kind": "history", "tree": rc, "hseed": int(rng.integers(0, 2**31 - 1)),
                    "nsteps": int(rng.integers(1, 7))}
            ctx.case(case, nontrivial=n >= 3, klass="history")
            execute(ctx, case)
        if k % 4 == 0 and n >= 2:
            case = {"kind": "raise", "tree": rc, "api": APIS[k // 4 % 3],
                    "start": int(rng.integers(0, n)), "node": int(rng.integers(0, n)),
                    "where": ("enter", "leave")[int(rng.integers(0, 2))]}
            ctx.case(case, klass="raising-callback")
            execute(ctx, case)

    # sizes random cases never have: on / next to powers of two, and big *branched* trees with
    # permuted numbering (products of ids and sizes pass 2^31 beyond 46 341 nodes)
    for rc in G.sweep_recipes(ctx, large=2):
        n = rc["n"]
        for start in (0, int(rng.integers(1, n))):
            case = {"kind": "small", "tree": rc, "api": APIS[int(rng.integers(0, len(APIS)))],
                    "mode": MODES[int(rng.integers(0, 3))], "start": int(start)}
            ctx.case(case, klass="size-sweep" + ("/large" if n > 10000 else ""))
            ctx.count("size_sweep_cases")
            if n > 40000:
                ctx.count("trees_beyond_46341_nodes")
            execute(ctx, case)
    # deep structures at the default recursion limit
    deep_n = 10_000 if ctx.quick else 100_000
    jobs = [(s, a, m) for s in ("chain", "revchain", "comb", "broom") for a in APIS for m in MODES]
    for j, (shape, api, mode) in enumerate(jobs):
        if j % ctx.nshards != ctx.shard:
            continue
        case = {"kind": "deep", "shape": shape, "n": deep_n, "api": api, "mode": mode}
        ctx.case(case, klass=f"deep/{shape}")
        execute(ctx, case)
        case = {"kind": "deep", "shape": shape, "n": deep_n // 10, "api": api, "mode": mode,
                "start": deep_n // 30}
        ctx.case(case, klass=f"deep-start/{shape}")
        execute(ctx, case)
    # chains just below the interpreter's own recursion limit (an implementation that recurses
    # "because the tree is small enough" fails exactly there)
    lim = sys.getrecursionlimit()
    for j, (shape, api, mode) in enumerate(jobs):
        if (j + 5) % ctx.nshards != ctx.shard or shape not in ("chain", "revchain"):
            continue
        for n_ in (lim - 3, lim - 40, lim // 2 + 100):
            case = {"kind": "deep", "shape": shape, "n": int(n_), "api": api, "mode": mode}
            ctx.case(case, klass=f"near-limit/{shape}")
            ctx.count("near_recursion_limit_chains")
            execute(ctx, case)
    # lowered recursion limit
    for j, (shape, api, mode) in enumerate(jobs):
        if (j + 3) % ctx.nshards != ctx.shard:
            continue
        # (also chains short enough for an implementation to think recursion is safe there)
        for n in ((90, 200, 256, 300, 2000) if ctx.quick else
                  (80, 90, 128, 200, 255, 256, 257, 300, 512, 1000, 2000, 5000)):
            case = {"kind": "lowlimit", "shape": shape, "n": n, "api": api, "mode": mode}
            ctx.case(case, klass=f"lowlimit/{shape}")
            execute(ctx, case)
        # ... and under a recursion limit the caller has *raised* (deep trees elsewhere in its
        # program): chains deep enough to exhaust the interpreter's C stack long before that limit
        for n, lim in ((1500, 20000), (4000, 10**6)):
            case = {"kind": "lowlimit", "shape": shape, "n": n, "api": api, "mode": mode,
                    "raised": lim}
            ctx.case(case, klass=f"raised-limit/{shape}")
            execute(ctx, case)


def replay(ctx, case):
    ctx.case(case)
    execute(ctx, case)
