"""C19 — population containers index correctly and load each file at most once, on demand.

Monitor: a ``sys.addaudithook`` open log scoped to the case's temp root plus a shadow model of the
directory listing, checked after *every* operation of a random access history: every file opened
at most once per population object, the opened set equal to the files requested so far (plus the
first file, probed at construction), and every returned tree the tree of the right file (each
file carries a unique node count and a unique marker coordinate).  Chains, directory matching,
mapping and population transforms are compared with plain list semantics.
"""

from __future__ import annotations

import os
import shutil
import tempfile
import warnings
from collections import Counter

import numpy as np

from rv import audit, contracts, probes

PROPERTY = "C19"
LEVEL = "exploration"
TECHNIQUE = ("runtime monitoring: audit-hook (sys.addaudithook 'open') log of real file opens + "
             "shadow model of the listing, compared after every operation of random access "
             "histories (index, negative index, slice-then-index, iteration, len, out-of-range); "
             "list-semantics oracle for ChainTrees / Populations / to_population / map / "
             "PopulationTransform; call tap on LazyLoadingTrees.load")
LEVEL_TEXT = ("Exploration: hundreds (quick) to thousands (thorough) of generated directory layouts "
              "(0-25 files, nested and empty folders, non-swc files, differing file sets across "
              "roots) each driven through a history of 5-60 operations with the open log checked "
              "after every step; chains with empty members and chains of chains indexed over the "
              "whole range [-N, N) and just outside it. Held = held on those executions."
              "Populations of 140-200 files are walked twice; map runs with verbose off and on with a deliberately slow first tree."
              " Directory roots are spelled with trailing / doubled separators and relative to the working directory."
              " Some directory entries are symbolic links to files stored elsewhere."
              " Slices of populations made of slices; chaining without intersection."
              " Extension filters given explicitly next to extension-less files."
              " Populations built by the older constructor from a list of file names (lazy, and eager when the caller asks: every file exactly once at construction, never again); directories of extended-format files through from_eswc; population transforms whose outputs carry no source."
              " A mapped function that maps over another population."
              " User containers offering only __getitem__ / __len__; one population of more than 1024 files; from_eswc directories; the older list-of-names constructor."
              " The caller's list of names reversed / truncated after construction."
              " Two data sets with the same relative layout opened by relative root after chdir.")
LEVEL_NOTE = ("'The i-th file' is the i-th entry of the library's own listing (Population.find_swcs), "
              "which must be a permutation of the layout's .swc files; the order of a directory walk "
              "is the operating system's. Population.map runs in worker processes and is decided at "
              "the client boundary (results, order, count) on a few cases per shard because each "
              "costs a process pool.")
RULE = ("cases = (layout seed, history seed, history length) per kind in {history, chain, "
        "populations, map, transform}; non-trivial when the layout has >= 2 swc files; distinct = "
        "distinct case descriptions")
ASSUMPTIONS = [
    "files are not modified while a population is alive",
    "opens are observed through CPython's 'open' audit event",
]
REQUIRED = ["histories", "operations", "open_log_checks", "index_ops", "negative_index_ops",
            "slice_ops", "iterate_ops", "filter_ops", "out_of_range_ops", "chain_elements_checked",
            "chain_negative_indices", "chain_empty_members", "populations_rows_checked", "populations_slices_checked",
            "to_population_checked", "map_checked", "map_verbose_checked", "map_then_read_audited", "listing_order_injected",
            "large_populations", "roots_spelled_differently", "slices_of_sliced_populations",
            "populations_without_intersection", "extension_given_explicitly",
            "transform_checked", "tap_load", "symbolic_link_entries", "constructed_from_name_list",
            "eager_constructions", "eswc_populations", "eswc_populations_matched",
            "transform_outputs_without_source", "map_inside_map_checked",
            "protocol_only_containers", "populations_of_more_than_1024_files",
            "callers_name_list_edited_after_construction",
            "populations_opened_by_relative_root_after_chdir",
            "audit_file_opens"]
FLOOR = {"quick": 250, "thorough": 20000}
SHARDS = {"quick": 8, "thorough": 16}
TIMEOUT = {"quick": 300, "thorough": 3000}


_ALIASES: dict = {}  # real path of a link target -> (population root, listed relative path)
_LINKS = [0]


def make_layout(rng, root, *, nfiles=None, marker_base=0, small=False):
    """Write a directory tree of swc files; returns {relative path: (n_nodes, marker)}."""
    os.makedirs(root, exist_ok=True)
    k = int(rng.integers(0, 26)) if nfiles is None else nfiles
    dirs = ["", "sub", "sub/deep", "other", "z"]
    files = {}
    for d in ("empty", "sub/empty2"):
        if rng.random() < 0.4:
            os.makedirs(os.path.join(root, d), exist_ok=True)
    for i in range(k):
        d = dirs[int(rng.integers(0, len(dirs)))] if rng.random() < 0.6 else ""
        rel = os.path.join(d, f"cell{i:02d}.swc")
        n = 2 + (i if not small else i % 7)
        marker = float(marker_base + i)
        p = os.path.join(root, rel)
        os.makedirs(os.path.dirname(p), exist_ok=True)
        link = rng.random() < 0.12
        if link:
            # a link-farm entry: the directory entry is a symbolic link to the file proper, which
            # lies elsewhere under another name
            store = os.path.join(root, ".store")
            os.makedirs(store, exist_ok=True)
            target = os.path.join(store, f"blob{i:02d}.dat")
            os.symlink(target if i % 2 else os.path.relpath(target, os.path.dirname(p)), p)
            _ALIASES[os.path.realpath(target)] = (os.path.realpath(root), rel)
            _LINKS[0] += 1
            p = target
        with open(p, "w") as f:
            f.write(f"# cell {i}\n")
            for j in range(n):
                f.write(f"{j + 1} {1 if j == 0 else 3} {marker} {j} 0 1 {j if j else -1}\n")
        files[rel] = (n, marker)
    for name in ("notes.txt", "sub/readme.md", "cell.swc.bak", "x.eswc", "README", "sub/.gitkeep",
                 ".DS_Store", "Makefile"):
        if rng.random() < 0.4:
            p = os.path.join(root, name)
            os.makedirs(os.path.dirname(p), exist_ok=True)
            with open(p, "w") as f:
                f.write("1 1 0 0 0 1 -1\n")
    return files


def _is_tree_of(t, root, rel, files):
    n, marker = files[rel]
    return (t.number_of_nodes() == n and float(t.x()[0]) == marker
            and os.path.realpath(t.source) == os.path.realpath(os.path.join(root, rel)))


class OpenLog:
    """Counts opens per file (relative to ``root``) from the audit log."""

    def __init__(self, root):
        self.root = os.path.realpath(root)

    def counts(self):
        c = Counter()
        for path, mode in audit.snapshot():
            rp = os.path.realpath(path)
            if rp in _ALIASES and _ALIASES[rp][0] == self.root:
                c[_ALIASES[rp][1]] += 1  # opened through its symbolic link
            elif rp.startswith(self.root + os.sep) and os.path.isfile(rp):
                c[os.path.relpath(rp, self.root)] += 1
        return c


def _spell(ctx, root, rng):
    """Another spelling of the same directory, as callers write them (trailing separator, doubled
    separators, relative to the working directory)."""
    k = int(rng.integers(0, 6))
    if k >= 3:
        return root
    ctx.count("roots_spelled_differently")
    if k == 0:
        return root + os.sep
    if k == 1:
        head, tail = os.path.split(root)
        return head + os.sep + os.sep + tail + os.sep
    return os.path.relpath(root, os.getcwd())


def check_history(ctx, case, tmp):
    from swcgeom.core import Population

    rng = np.random.default_rng(case["seed"])
    root = os.path.join(tmp, "pop")
    if case.get("huge"):
        # well over a thousand files (a whole-brain data set)
        files = make_layout(rng, root, nfiles=int(rng.integers(1040, 1100)), small=True)
        ctx.count("populations_of_more_than_1024_files")
    elif case.get("large"):
        # more files than any plausible bounded cache: a second pass must still read nothing
        files = make_layout(rng, root, nfiles=int(rng.integers(140, 200)), small=True)
        ctx.count("large_populations")
    else:
        files = make_layout(rng, root)
    ctx.count("histories")
    audit.start(tmp)
    log = OpenLog(root)
    with warnings.catch_warnings():
        warnings.simplefilter("ignore")
        rt_ = _spell(ctx, root, np.random.default_rng(case["seed"] + 5))
        how = case["seed"] % 3  # the extension left to its default, by keyword, by position
        ctor = case.get("ctor", "from_swc")
        eager = False
        if ctor == "from_swc":
            pop = Population.from_swc(rt_) if how == 0 else (
                Population.from_swc(rt_, ext=".swc") if how == 1 else Population.from_swc(rt_, ".swc"))
            if how:
                ctx.count("extension_given_explicitly")
        else:
            # the older constructor: a plain list of file names, loaded on demand (the default) or
            # all at once when the caller says so
            names_ = Population.find_swcs(rt_)
            eager = ctor == "list-eager"
            if ctor == "list-trees":
                # the current spelling: the caller's own list of names wrapped in LazyLoadingTrees
                from swcgeom.core.population import LazyLoadingTrees

                pop = Population(LazyLoadingTrees(names_), root=rt_)
            else:
                pop = Population(names_, root=rt_) if not eager else (
                    Population(names_, lazy_loading=False, root=rt_) if how else
                    Population(names_, False, rt_))
            ctx.count("constructed_from_name_list")
            # the list is the caller's: it goes on to use it (sorted the other way, emptied)
            names_.reverse()
            if case["seed"] % 2:
                del names_[1:]
            ctx.count("callers_name_list_edited_after_construction")
    listing = [os.path.relpath(p, root) for p in Population.find_swcs(root)]
    if sorted(listing) != sorted(files):
        return ctx.violation("listing-wrong", f"find_swcs lists {sorted(listing)[:5]}..., the "
                                              f"directory holds {sorted(files)[:5]}...", case)
    n = len(listing)
    if len(pop) != n:
        return ctx.violation("length-wrong", f"len(population) = {len(pop)} for {n} swc files", case)
    requested = set()
    first = listing[0] if n else None
    if eager:
        # the caller asked for everything at construction: every file exactly once, then never
        requested.update(listing)
        ctx.count("eager_constructions")

    def verify_log(after):
        ctx.count("open_log_checks")
        c = log.counts()
        c = Counter({k: v for k, v in c.items() if k in files})
        ctx.count("audit_file_opens", 0)
        twice = [k for k, v in c.items() if v > 1]
        if twice:
            ctx.violation("file-read-twice", f"after {after}: {twice[0]} was opened {c[twice[0]]} "
                                             f"times by one population", case)
            return True
        allowed = set(requested) | ({first} if first else set())
        extra = set(c) - allowed
        if extra:
            ctx.violation("eager-load", f"after {after}: {sorted(extra)[:3]} opened although never "
                                        f"requested (requested so far: {len(requested)} files)", case)
            return True
        missing = set(requested) - set(c)
        if missing:
            ctx.violation("tree-without-read", f"after {after}: trees of {sorted(missing)[:3]} were "
                                               f"returned but the files were never opened", case)
            return True
        return False

    if verify_log("construction"):
        return
    ops = []
    for step in range(case["nops"]):
        ctx.count("operations")
        u = rng.random()
        if case.get("large"):
            u = 0.75 if step % 2 == 0 else rng.random() * 0.5  # full passes, then point reads
        with warnings.catch_warnings():
            warnings.simplefilter("ignore")
            if u < 0.35 and n:
                i = int(rng.integers(0, n))
                if rng.random() < 0.3:
                    i = np.int64(i)
                ops.append(f"pop[{i}]")
                ctx.count("index_ops")
                t = pop[i]
                requested.add(listing[int(i)])
                if not _is_tree_of(t, root, listing[int(i)], files):
                    return ctx.violation("wrong-tree", f"{ops[-1]} returned the tree of {t.source} "
                                                       f"({t.number_of_nodes()} nodes), file #{i} is "
                                                       f"{listing[int(i)]}", case)
                if pop[i] is not t:
                    return ctx.violation("not-cached", f"{ops[-1]} twice returned two tree objects",
                                         case)
            elif u < 0.5 and n:
                i = -int(rng.integers(1, n + 1))
                ops.append(f"pop[{i}]")
                ctx.count("negative_index_ops")
                t = pop[i]
                requested.add(listing[i])
                if not _is_tree_of(t, root, listing[i], files):
                    return ctx.violation("wrong-tree", f"{ops[-1]} returned {t.source}, list "
                                                       f"semantics give {listing[i]}", case)
            elif u < 0.7:
                a, b = (int(v) for v in rng.integers(-n - 2, n + 3, 2))
                c = int(rng.choice([1, 1, 2, 3, -1])) if rng.random() < 0.4 else None
                sl = slice(a, b, c)
                ops.append(f"pop[{a}:{b}:{c}]")
                ctx.count("slice_ops")
                s = pop[sl]
                want = listing[sl]
                if len(s) != len(want):
                    return ctx.violation("slice-length", f"{ops[-1]} has length {len(s)}, list "
                                                         f"semantics give {len(want)}", case)
                if verify_log(ops[-1] + " (slicing alone must not read)"):
                    return
                if want and rng.random() < 0.5:
                    # a population made of that slice, sliced again (reversed, strided, with
                    # stops beyond either end): still list semantics, still nothing read
                    from swcgeom.core import Population as _P

                    m_ = len(want)
                    a2, b2 = (int(v) for v in rng.integers(-m_ - 2, m_ + 3, 2))
                    sl2 = slice(a2 if rng.random() < .6 else None, b2 if rng.random() < .6 else None,
                                int(rng.choice([-1, -1, -2, 1, 2, -3])))
                    with warnings.catch_warnings():
                        warnings.simplefilter("ignore")
                        sub = _P(s)
                    # (constructing a population may probe its first member: the statement's
                    # "possible probe of the first file at construction")
                    requested.add(want[0])
                    s2, want2 = sub[sl2], want[sl2]
                    ops.append(f"{ops[-1]}[{sl2.start}:{sl2.stop}:{sl2.step}]")
                    ctx.count("slices_of_sliced_populations")
                    if len(s2) != len(want2):
                        return ctx.violation("slice-length", f"{ops[-1]} has length {len(s2)}, "
                                                             f"list semantics give {len(want2)}",
                                             case)
                    if verify_log(ops[-1] + " (slicing alone must not read)"):
                        return
                    if want2:
                        s, want = s2, want2
                if want:
                    j = int(rng.integers(-len(want), len(want)))
                    ops.append(f"{ops[-1]}[{j}]")
                    t = s[j]
                    requested.add(want[j])
                    if not _is_tree_of(t, root, want[j], files):
                        return ctx.violation("wrong-tree", f"{ops[-1]} returned {t.source}, list "
                                                           f"semantics give {want[j]}", case)
            elif u < 0.8:
                ops.append("iterate")
                ctx.count("iterate_ops")
                got = list(pop)
                requested.update(listing)
                if len(got) != n:
                    return ctx.violation("iterate-length", f"iteration yields {len(got)} trees for "
                                                           f"{n} files", case)
                for i, t in enumerate(got):
                    if not _is_tree_of(t, root, listing[i], files):
                        return ctx.violation("wrong-tree", f"iteration item {i} is {t.source}, "
                                                           f"file #{i} is {listing[i]}", case)
            elif u < 0.9:
                i = int(rng.choice([n, n + 3, -n - 1, -n - 4]))
                ops.append(f"pop[{i}] (out of range)")
                ctx.count("out_of_range_ops")
                try:
                    t = pop[i]
                except IndexError:
                    pass
                except Exception as e:
                    return ctx.violation("out-of-range-error", f"{ops[-1]} raised "
                                                               f"{type(e).__name__}, not IndexError",
                                         case)
                else:
                    return ctx.violation("out-of-range-accepted", f"{ops[-1]} returned {t.source}",
                                         case)
            elif u < 0.95 and n:
                # an index-indirected view (filter): loads every tree once for the predicate, the
                # view then indexes the same cached trees
                from swcgeom.core.population import filter_population

                thr = int(rng.integers(2, 2 + n + 1))
                ops.append(f"filter(nodes < {thr})")
                ctx.count("filter_ops")
                sub = filter_population(pop, lambda t: t.number_of_nodes() < thr)
                requested.update(listing)
                want = [r for r in listing if files[r][0] < thr]
                if len(sub) != len(want):
                    return ctx.violation("filter-length", f"{ops[-1]} has {len(sub)} trees, "
                                                          f"{len(want)} files qualify", case)
                for j, r in enumerate(want):
                    t = sub[j]
                    if not _is_tree_of(t, root, r, files) or t is not pop[listing.index(r)]:
                        return ctx.violation("wrong-tree", f"{ops[-1]}[{j}] is {t.source}, expected "
                                                           f"the cached tree of {r}", case)
            else:
                ops.append("len")
                if len(pop) != n:
                    return ctx.violation("length-wrong", f"len = {len(pop)}", case)
        if verify_log(ops[-1]):
            return
    ctx.count("audit_file_opens", sum(log.counts().values()))
    audit.stop()


def check_chain(ctx, case, tmp):
    from swcgeom.core.population import ChainTrees, LazyLoadingTrees

    rng = np.random.default_rng(case["seed"])
    members, expect = [], []
    for m in range(int(rng.integers(1, 6))):
        root = os.path.join(tmp, f"m{m}")
        k = 0 if rng.random() < 0.3 else int(rng.integers(1, 6))
        if k == 0:
            ctx.count("chain_empty_members")
        files = make_layout(rng, root, nfiles=k, marker_base=100 * (m + 1))
        rels = sorted(files)
        members.append(LazyLoadingTrees([os.path.join(root, r) for r in rels]))
        expect += [(root, r, files) for r in rels]
    form = case["form"]
    if form == "list":
        chain = ChainTrees(members)
    elif form == "generator":
        chain = ChainTrees(m for m in members)
    else:  # chain of chains
        cut = int(rng.integers(0, len(members) + 1))
        chain = ChainTrees([ChainTrees(members[:cut]), ChainTrees(members[cut:])])
    N = len(expect)
    if len(chain) != N:
        return ctx.violation("chain-length", f"chain of {[len(m) for m in members]} has length "
                                             f"{len(chain)}", case)
    with warnings.catch_warnings():
        warnings.simplefilter("ignore")
        for i in list(range(-N, N)):
            ctx.count("chain_elements_checked")
            if i < 0:
                ctx.count("chain_negative_indices")
            try:
                t = chain[i]
            except Exception as e:
                return ctx.violation("chain-index-raised", f"chain[{i}] of length {N} (members "
                                                           f"{[len(m) for m in members]}) raised "
                                                           f"{type(e).__name__}: {e}", case)
            root, rel, files = expect[i]
            if not _is_tree_of(t, root, rel, files):
                return ctx.violation("chain-wrong-element", f"chain[{i}] is {t.source}, expected "
                                                            f"{os.path.join(root, rel)} (members "
                                                            f"{[len(m) for m in members]})", case)
        for i in (N, N + 2, -N - 1):
            try:
                chain[i]
            except IndexError:
                continue
            except Exception as e:
                return ctx.violation("out-of-range-error", f"chain[{i}] raised {type(e).__name__}",
                                     case)
            return ctx.violation("out-of-range-accepted", f"chain[{i}] of length {N} returned a tree",
                                 case)
        got = list(chain)
        if len(got) != N or any(not _is_tree_of(t, *expect[i]) for i, t in enumerate(got)):
            return ctx.violation("chain-iteration", "iterating the chain does not give its elements "
                                                    "in order", case)


def check_populations(ctx, case, tmp):
    from swcgeom.core import Populations

    rng = np.random.default_rng(case["seed"])
    k = int(rng.integers(2, 4))
    base = make_layout(rng, os.path.join(tmp, "r0"), nfiles=int(rng.integers(1, 9)), marker_base=0)
    roots, filesets = [os.path.join(tmp, "r0")], [base]
    for r in range(1, k):
        root = os.path.join(tmp, f"r{r}")
        os.makedirs(root)
        files = {}
        for rel, (n, marker) in base.items():
            if rng.random() < 0.75:  # same-named file with its own content
                p = os.path.join(root, rel)
                os.makedirs(os.path.dirname(p), exist_ok=True)
                nn, mk = n + 40 * r, 1000.0 * r + marker
                with open(p, "w") as f:
                    for j in range(nn):
                        f.write(f"{j + 1} 1 {mk} {j} 0 1 {j if j else -1}\n")
                files[rel] = (nn, mk)
        for e in range(int(rng.integers(0, 3))):  # files only this root has
            rel = f"only{r}_{e}.swc"
            with open(os.path.join(root, rel), "w") as f:
                f.write("1 1 -5 0 0 1 -1\n2 1 -5 1 0 1 1\n")
            files[rel] = (2, -5.0)
        roots.append(root)
        filesets.append(files)
    inter = set(filesets[0])
    for fs in filesets[1:]:
        inter &= set(fs)
    audit.start(tmp)
    # the order in which a directory lists its files is the operating system's business and may
    # differ from one directory to the next: inject a different (deterministic) order per
    # directory at the os.walk hook, rows must still pair same-named files
    real_walk = os.walk

    def shuffled_walk(top, *a, **kw):
        for r_, dirs, files_ in real_walk(top, *a, **kw):
            rr = np.random.default_rng(abs(hash(os.path.relpath(r_, tmp))) % (2**32))
            files_ = list(files_)
            rr.shuffle(files_)
            dirs.sort(key=lambda d_: rr.random())
            yield r_, dirs, files_

    os.walk = shuffled_walk
    ctx.count("listing_order_injected")
    try:
        with warnings.catch_warnings():
            warnings.simplefilter("ignore")
            srng = np.random.default_rng(case["seed"] + 5)
            pops = Populations.from_swc([_spell(ctx, r_, srng) for r_ in roots])
    finally:
        os.walk = real_walk
    with warnings.catch_warnings():
        warnings.simplefilter("ignore")
        if len(pops) != len(inter):
            return ctx.violation("populations-length", f"{len(pops)} rows for an intersection of "
                                                       f"{len(inter)} same-named files", case)
        if pops.num_of_populations() != k:
            return ctx.violation("populations-count", f"{pops.num_of_populations()} populations "
                                                      f"for {k} directories", case)
        seen = []
        for i in range(len(pops)):
            row = pops[i]
            ctx.count("populations_rows_checked")
            rels = [os.path.relpath(t.source, roots[j]) for j, t in enumerate(row)]
            if len(row) != k or len(set(rels)) != 1 or rels[0] not in inter:
                return ctx.violation("populations-row", f"row {i} holds {rels}: not one tree per "
                                                        f"directory with the same relative path",
                                     case)
            for j, t in enumerate(row):
                if not _is_tree_of(t, roots[j], rels[0], filesets[j]):
                    return ctx.violation("populations-row", f"row {i}, directory {j}: tree of "
                                                            f"{t.source} has the wrong content", case)
            seen.append(rels[0])
        if sorted(seen) != sorted(inter):
            return ctx.violation("populations-rows", "rows do not cover the intersection exactly "
                                                     "once", case)
        rows_iter = [[os.path.relpath(t.source, roots[j]) for j, t in enumerate(r)] for r in pops]
        if [r[0] for r in rows_iter] != seen:
            return ctx.violation("populations-iteration", "iteration order differs from indexing",
                                 case)
        # slices of the matched rows: one view per directory, list semantics (also reversed)
        m = len(inter)
        for _ in range(4):
            a, b = (int(v) for v in rng.integers(-m - 2, m + 3, 2))
            c = int(rng.choice([1, 1, 2, -1, -1, -2]))
            sl = slice(a if rng.random() < .7 else None, b if rng.random() < .7 else None, c)
            views = pops[sl]
            want = seen[sl]
            ctx.count("populations_slices_checked")
            if len(views) != k or any(len(v) != len(want) for v in views):
                return ctx.violation("populations-slice", f"pops[{sl}] gives views of lengths "
                                                          f"{[len(v) for v in views]}, list "
                                                          f"semantics give {len(want)} rows", case)
            for j, v in enumerate(views):
                for q, rel in enumerate(want):
                    if not _is_tree_of(v[q], roots[j], rel, filesets[j]):
                        return ctx.violation("populations-slice", f"pops[{sl}][{j}][{q}] is "
                                                                  f"{v[q].source}, expected {rel}",
                                             case)
        chained = pops.to_population()
        ctx.count("to_population_checked")
        N = k * len(inter)
        if len(chained) != N:
            return ctx.violation("to-population-length", f"to_population() has length "
                                                         f"{len(chained)}, expected {k} x "
                                                         f"{len(inter)}", case)
        for i in range(-N, N):
            j, m = divmod(i % N, len(inter))
            t = chained[i]
            if not _is_tree_of(t, roots[j], seen[m], filesets[j]):
                return ctx.violation("to-population-element", f"to_population()[{i}] is {t.source}, "
                                                              f"expected {seen[m]} of directory {j}",
                                     case)
    opened = Counter(os.path.realpath(p) for p, _ in audit.snapshot() if os.path.isfile(p))
    audit.stop()
    twice = [p for p, c in opened.items() if c > 1 and p.endswith(".swc")]
    if twice:
        return ctx.violation("file-read-twice", f"{twice[0]} opened {opened[twice[0]]} times", case)
    unrelated = [p for p in opened if os.path.basename(p).startswith("only")]
    if unrelated:
        return ctx.violation("eager-load", f"{unrelated[0]} is outside the intersection but was "
                                           f"opened", case)
    if case["seed"] % 2 == 0:
        # without intersecting, every directory keeps its own (differing) file set; chaining the
        # members concatenates them in order: the total length is the sum of the member lengths
        from swcgeom.core import Population

        with warnings.catch_warnings():
            warnings.simplefilter("ignore")
            pops2 = Populations.from_swc(roots, intersect=False)
            lists = [[os.path.normpath(q_) for q_ in Population.find_swcs(r_, relpath=True)]
                     for r_ in roots]
            ctx.count("populations_without_intersection")
            if [len(p_) for p_ in pops2.populations] != [len(l_) for l_ in lists]:
                return ctx.violation("populations-length",
                                     f"intersect=False: member lengths "
                                     f"{[len(p_) for p_ in pops2.populations]}, the directories "
                                     f"hold {[len(l_) for l_ in lists]} files", case)
            chained = pops2.to_population()
            want = [(j, rel) for j, l_ in enumerate(lists) for rel in l_]
            if len(chained) != len(want):
                return ctx.violation("to-population-length",
                                     f"intersect=False: to_population() has length {len(chained)}, "
                                     f"the members hold {[len(l_) for l_ in lists]} trees", case)
            for i in sorted({0, len(want) - 1, *rng.integers(0, max(1, len(want)), 6).tolist()}):
                if not want:
                    break
                j, rel = want[int(i)]
                if not _is_tree_of(chained[int(i)], roots[j], rel, filesets[j]):
                    return ctx.violation("to-population-element",
                                         f"intersect=False: to_population()[{i}] is "
                                         f"{chained[int(i)].source}, expected {rel} of directory {j}",
                                         case)


def _count_nodes(t):  # top level: must be picklable for the process pool
    return (t.number_of_nodes(), float(t.x()[0]))


def _count_nodes_slow_first(t):
    """Like _count_nodes, but the tree whose marker is in RV_SLOW_MARKER takes much longer, so
    results *complete* out of submission order whenever two workers run."""
    import time

    if float(t.x()[0]) == float(os.environ.get("RV_SLOW_MARKER", "nan")):
        time.sleep(0.7)
    return (t.number_of_nodes(), float(t.x()[0]))


def _map_inside_map(t):
    """A mapped function that itself maps over another (small) population, as analysis code that
    compares every cell with a reference set does."""
    import warnings as _w

    from swcgeom.core import Population as _P

    with _w.catch_warnings():
        _w.simplefilter("ignore")
        inner = list(_P.from_swc(os.environ["RV_INNER_ROOT"]).map(_count_nodes, max_worker=1))
    return (t.number_of_nodes(), float(t.x()[0]), tuple(tuple(r) for r in inner))


def check_map(ctx, case, tmp):
    from swcgeom.core import Population

    rng = np.random.default_rng(case["seed"])
    root = os.path.join(tmp, "pop")
    files = make_layout(rng, root, nfiles=int(rng.integers(2, 8)))
    with warnings.catch_warnings():
        warnings.simplefilter("ignore")
        pop = Population.from_swc(root)
        listing = [os.path.relpath(p, root) for p in Population.find_swcs(root)]
        want = [files[r] for r in listing]
        verbose = bool(case.get("verbose"))
        if case.get("nested"):
            inner_root = os.path.join(tmp, "reference")
            inner_files = make_layout(rng, inner_root, nfiles=2, marker_base=700)
            inner_list = [os.path.relpath(p, inner_root) for p in Population.find_swcs(inner_root)]
            inner_want = tuple(tuple(inner_files[r]) for r in inner_list)
            os.environ["RV_INNER_ROOT"] = inner_root
            try:
                res = list(pop.map(_map_inside_map, max_worker=2))
            finally:
                os.environ.pop("RV_INNER_ROOT", None)
            ctx.count("map_inside_map_checked")
            exp = [(w[0], w[1], inner_want) for w in want]
            if [tuple(r) for r in res] != exp:
                return ctx.violation("map-wrong", f"map of a function that itself maps over another "
                                                  f"population returned {res[:3]}..., one result per "
                                                  f"tree in order is {exp[:3]}...", case)
            return
        os.environ["RV_SLOW_MARKER"] = repr(float(want[0][1]))
        audit.start(tmp)
        try:
            res = list(pop.map(_count_nodes_slow_first if len(want) > 1 else _count_nodes,
                               max_worker=2, verbose=verbose))
        finally:
            os.environ.pop("RV_SLOW_MARKER", None)
        # mapping has loaded every tree (in this process): reading them afterwards, by index and
        # by iteration, and mapping again must not open any file a second time
        for i in range(len(pop)):
            pop[i]
        list(pop)
        list(pop.map(_count_nodes, max_worker=2))
        opened = Counter(os.path.realpath(p) for p, _ in audit.stop() if p.endswith(".swc"))
        twice = [p for p, c in opened.items() if c > 1]
        ctx.count("map_then_read_audited")
        if twice:
            return ctx.violation("file-read-twice", f"{os.path.basename(twice[0])} opened "
                                                    f"{opened[twice[0]]} times across map / index / "
                                                    f"iterate / map", case)
    ctx.count("map_checked")
    if verbose:
        ctx.count("map_verbose_checked")
    if [tuple(r) for r in res] != [tuple(w) for w in want]:
        return ctx.violation("map-wrong", f"map(verbose={verbose}) returned {res}, one result per "
                                          f"tree in order is {want}", case)


def check_transform(ctx, case, tmp):
    from swcgeom.core import Population
    from swcgeom.transforms import PopulationTransform, Translate

    rng = np.random.default_rng(case["seed"])
    root = os.path.join(tmp, "pop")
    files = make_layout(rng, root, nfiles=int(rng.integers(1, 8)))
    with warnings.catch_warnings():
        warnings.simplefilter("ignore")
        pop = Population.from_swc(root)
        listing = [os.path.relpath(p, root) for p in Population.find_swcs(root)]
        before = [contracts.fingerprint(t) for t in pop]
        dx = float(rng.integers(1, 9))
        if case["seed"] % 3 == 0:
            out = PopulationTransform(_Rebuild(dx))(pop)  # outputs come without a source
            ctx.count("transform_outputs_without_source")
        else:
            out = PopulationTransform(Translate(dx, 0, 0))(pop)
    ctx.count("transform_checked")
    if len(out) != len(listing):
        return ctx.violation("transform-length", f"{len(out)} outputs for {len(listing)} trees", case)
    for i, rel in enumerate(listing):
        n, marker = files[rel]
        t = out[i]
        if t.number_of_nodes() != n or float(t.x()[0]) != marker + dx:
            return ctx.violation("transform-order", f"output {i} is not the transform of tree {i} "
                                                    f"({rel})", case)
        if os.path.realpath(t.source) != os.path.realpath(os.path.join(root, rel)):
            return ctx.violation("transform-source", f"output {i} lost its source", case)
    if [contracts.fingerprint(t) for t in pop] != before:
        return ctx.violation("input-mutated", "PopulationTransform modified the input population's "
                                              "trees", case)


def check_eswc(ctx, case, tmp):
    """Directories of extended-format files: Population.from_eswc / Populations.from_eswc list the
    .eswc files only, load them lazily, and index like the listing."""
    from swcgeom.core import Population, Populations

    rng = np.random.default_rng(case["seed"])
    roots, sets = [], []
    for r in range(2):
        root = os.path.join(tmp, f"e{r}")
        os.makedirs(os.path.join(root, "sub"))
        files = {}
        for i in range(int(rng.integers(2, 7)) if r == 0 else 0):
            rel = os.path.join("sub" if rng.random() < .4 else "", f"cell{i:02d}.eswc")
            files[rel] = (2 + i, float(i))
        if r == 1:
            files = {rel: (n + 20, m + 500.0) for rel, (n, m) in sets[0].items() if rng.random() < .8}
        for rel, (n, marker) in files.items():
            with open(os.path.join(root, rel), "w") as f:
                f.write("# extended\n")
                for j in range(n):
                    f.write(f"{j + 1} {1 if j == 0 else 3} {marker} {j} 0 1 {j if j else -1} "
                            f"{j} 0 {j * 3} 7 {j % 2} {j}.5\n")
        with open(os.path.join(root, "plain.swc"), "w") as f:  # decoys of the other format
            f.write("1 1 0 0 0 1 -1\n")
        roots.append(root)
        sets.append(files)
    audit.start(tmp)
    with warnings.catch_warnings():
        warnings.simplefilter("ignore")
        own = ["weight"]
        pop = Population.from_eswc(roots[0], extra_cols=own) if case["seed"] % 2 else \
            Population.from_eswc(roots[0], ".eswc", own)
        listing = [os.path.relpath(p, roots[0]) for p in Population.find_swcs(roots[0], ".eswc")]
        ctx.count("eswc_populations")
        if own != ["weight"]:
            return ctx.violation("caller-list-mutated", f"from_eswc changed the caller's list of "
                                                        f"column names to {own}", case)
        if sorted(listing) != sorted(sets[0]) or len(pop) != len(listing):
            return ctx.violation("length-wrong", f"from_eswc: {len(pop)} trees, the directory holds "
                                                 f"{len(sets[0])} .eswc files", case)
        opened = Counter(os.path.relpath(os.path.realpath(p), roots[0])
                         for p, _ in audit.snapshot() if p.endswith(".eswc"))
        if set(opened) - {listing[0]}:
            return ctx.violation("eager-load", f"from_eswc opened {sorted(opened)} at construction",
                                 case)
        order = rng.permutation(len(listing)).tolist()
        for i in order + order[:2]:
            t = pop[i - len(listing) if i % 2 else i]
            if not _is_tree_of(t, roots[0], listing[i], sets[0]):
                return ctx.violation("wrong-tree", f"from_eswc: pop[{i}] is {t.source}, file #{i} is "
                                                   f"{listing[i]}", case)
        opened = Counter(os.path.realpath(p) for p, _ in audit.snapshot() if p.endswith(".eswc"))
        twice = [p for p, c in opened.items() if c > 1]
        if twice:
            return ctx.violation("file-read-twice", f"{os.path.basename(twice[0])} opened "
                                                    f"{opened[twice[0]]} times", case)
        pops = Populations.from_eswc(roots, own)
        inter = set(sets[0]) & set(sets[1])
        ctx.count("eswc_populations_matched")
        if len(pops) != len(inter):
            return ctx.violation("populations-length", f"from_eswc: {len(pops)} rows for an "
                                                       f"intersection of {len(inter)} files", case)
        for i in range(len(pops)):
            row = pops[i]
            rels = [os.path.relpath(t.source, roots[j]) for j, t in enumerate(row)]
            if len(set(rels)) != 1 or rels[0] not in inter or any(
                    not _is_tree_of(t, roots[j], rels[0], sets[j]) for j, t in enumerate(row)):
                return ctx.violation("populations-row", f"from_eswc: row {i} holds {rels}", case)
    audit.stop()


class _Rebuild:
    """A user transform that returns a brand-new tree (no source of its own)."""

    def __init__(self, dx):
        self.dx = dx

    def __call__(self, t):
        from swcgeom.core import Tree

        return Tree(t.number_of_nodes(), id=t.id().copy(), pid=t.pid().copy(), type=t.type().copy(),
                    x=t.x() + self.dx, y=t.y().copy(), z=t.z().copy(), r=t.r().copy())


class _HeadView:
    """A user container offering the Trees protocol only (__getitem__ / __len__): the first k
    trees of another container."""

    def __init__(self, inner, k):
        self.inner, self.k = inner, k

    def __len__(self):
        return self.k

    def __getitem__(self, i):
        if not -self.k <= i < self.k:
            raise IndexError(i)
        return self.inner[i if i >= 0 else i + self.k]


class _KeyedTrees:
    """Another protocol-only container: trees kept in a mapping from position to loader."""

    def __init__(self, paths):
        from swcgeom.core import Tree

        self.load = {i: (lambda p=p: Tree.from_swc(p)) for i, p in enumerate(paths)}
        self.got = {}

    def __len__(self):
        return len(self.load)

    def __getitem__(self, i):
        if i < 0:
            i += len(self.load)
        if i not in self.got:
            self.got[i] = self.load[i]()   # (KeyError beyond the end, like a mapping)
        return self.got[i]


def check_protocol(ctx, case, tmp):
    """Populations and chains over user containers that implement the Trees protocol
    (__getitem__ and __len__, nothing else): indexing, iteration and chaining follow len()."""
    from swcgeom.core import Population
    from swcgeom.core.population import ChainTrees, LazyLoadingTrees

    rng = np.random.default_rng(case["seed"])
    root = os.path.join(tmp, "pop")
    files = make_layout(rng, root, nfiles=int(rng.integers(3, 9)))
    rels = sorted(files)
    paths = [os.path.join(root, r) for r in rels]
    k = int(rng.integers(1, len(rels)))
    audit.start(tmp)
    log = OpenLog(root)
    with warnings.catch_warnings():
        warnings.simplefilter("ignore")
        head = Population(_HeadView(LazyLoadingTrees(paths), k), root=root)
        keyed = Population(_KeyedTrees(paths), root=root)
        ctx.count("protocol_only_containers")
        for name, pop, want in (("a 'first k' view", head, rels[:k]), ("a mapping-backed container",
                                                                         keyed, rels)):
            if len(pop) != len(want):
                return ctx.violation("length-wrong", f"population over {name}: len = {len(pop)}, "
                                                     f"the container holds {len(want)}", case)
            try:
                got = list(pop)
            except Exception as e:
                return ctx.violation("iterate-length", f"iterating a population over {name} raised "
                                                       f"{type(e).__name__}: {str(e)[:80]}", case)
            if len(got) != len(want) or any(not _is_tree_of(t, root, r, files)
                                            for t, r in zip(got, want)):
                return ctx.violation("iterate-length", f"iterating a population over {name} of "
                                                       f"{len(want)} trees yields {len(got)} trees",
                                     case)
            for i in range(-len(want), len(want)):
                if not _is_tree_of(pop[i], root, want[i], files):
                    return ctx.violation("wrong-tree", f"population over {name}: [{i}] is "
                                                       f"{pop[i].source}", case)
        opened = {r_ for r_ in log.counts() if r_ in files}
        extra = opened - set(rels[:k]) - set(rels)  # (keyed loads everything it was asked for)
        chain = ChainTrees([_HeadView(LazyLoadingTrees(paths), k), _KeyedTrees(paths[::-1])])
        want = rels[:k] + rels[::-1]
        got = list(chain)
        if len(chain) != len(want) or len(got) != len(want) or any(
                not _is_tree_of(t, root, r, files) for t, r in zip(got, want)):
            return ctx.violation("chain-iteration", f"a chain over two protocol-only containers of "
                                                    f"{k} and {len(rels)} trees yields {len(got)} "
                                                    f"trees / the wrong ones", case)
    audit.stop()


def check_cwd(ctx, case, tmp):
    """Two data sets with the same relative layout under two parent directories, each opened by its
    relative root after changing into its parent (the usual per-animal loop): every population
    hands out the trees of the directory it was opened in."""
    from swcgeom.core import Population

    rng = np.random.default_rng(case["seed"])
    old = os.getcwd()
    k = int(rng.integers(2, 6))
    sets = []
    for a, name in enumerate(("mouse", "rat")):
        files = {}
        root = os.path.join(tmp, name, "swc")
        os.makedirs(root)
        for i in range(k):
            rel = f"cell{i:02d}.swc"
            n, marker = 2 + i + 10 * a, float(100 * a + i)
            with open(os.path.join(root, rel), "w") as f:
                for j in range(n):
                    f.write(f"{j + 1} {1 if j == 0 else 3} {marker} {j} 0 1 {j if j else -1}\n")
            files[rel] = (n, marker)
        sets.append((root, files))
    pops = []
    try:
        with warnings.catch_warnings():
            warnings.simplefilter("ignore")
            for root, files in sets:
                os.chdir(os.path.dirname(root))
                pop = Population.from_swc("swc")
                pops.append(pop)
                got = list(pop)             # read while still in that directory
                listing = [os.path.basename(p) for p in Population.find_swcs("swc")]
                ctx.count("populations_opened_by_relative_root_after_chdir")
                for t, rel in zip(got, listing):
                    n, marker = files[rel]
                    if t.number_of_nodes() != n or float(t.x()[0]) != marker:
                        return ctx.violation("wrong-tree",
                                             f"Population.from_swc('swc') opened in "
                                             f"{os.path.basename(os.path.dirname(root))}/ returned, "
                                             f"for {rel}, a tree of {t.number_of_nodes()} nodes "
                                             f"(marker {float(t.x()[0])}); that directory's file has "
                                             f"{n} nodes (marker {marker})", case)
    finally:
        os.chdir(old)


KINDS = {"history": check_history, "eswc": check_eswc, "protocol": check_protocol,
         "cwd": check_cwd, "chain": check_chain, "populations": check_populations,
         "map": check_map, "transform": check_transform}


def execute(ctx, case):
    tmp = os.path.realpath(tempfile.mkdtemp(prefix="rv-c19-"))
    try:
        KINDS[case["kind"]](ctx, case, tmp)
    except Exception as e:
        ctx.violation("op-raised", f"{case['kind']}: {type(e).__name__}: {str(e)[:300]}", case)
    finally:
        audit.stop()
        shutil.rmtree(tmp, ignore_errors=True)


def run(ctx):
    from swcgeom.core.population import LazyLoadingTrees

    rng = ctx.rng
    tap = probes.CallTap({"load": LazyLoadingTrees.load})
    with tap:
        for k in range(ctx.scale(420, 33600)):
            u = k % 10
            seed = int(rng.integers(0, 2**31 - 1))
            if u < 5:
                case = {"kind": "history", "seed": seed, "nops": int(rng.integers(5, 61))}
                if k % 20 in (1, 12, 16):
                    case["ctor"] = {1: "list-lazy", 12: "list-eager", 16: "list-trees"}[k % 20]
                if k % 40 == 23:
                    case = {"kind": "eswc", "seed": seed}
                if k % 40 == 22:
                    case = {"kind": "protocol", "seed": seed}
                if k % 40 == 4:
                    case = {"kind": "cwd", "seed": seed}
            elif u < 8:
                case = {"kind": "chain", "seed": seed,
                        "form": str(rng.choice(["list", "generator", "nested"]))}
            elif u < 9:
                case = {"kind": "populations", "seed": seed}
            else:
                case = {"kind": "transform", "seed": seed}
            ctx.case(case, klass=case["kind"])
            execute(ctx, case)
        for j in range(2 if ctx.quick else 6):
            case = {"kind": "map", "seed": int(rng.integers(0, 2**31 - 1)), "verbose": bool(j % 2)}
            ctx.case(case, klass="map")
            execute(ctx, case)
        if ctx.shard == 5 % ctx.nshards or not ctx.quick:
            case = {"kind": "history", "seed": int(rng.integers(0, 2**31 - 1)), "nops": 4,
                    "large": True, "huge": True}
            ctx.case(case, klass="history-huge")
            execute(ctx, case)
        if ctx.shard % 4 == 0:
            case = {"kind": "map", "seed": int(rng.integers(0, 2**31 - 1)), "nested": True}
            ctx.case(case, klass="map-nested")
            execute(ctx, case)
        for _ in range(1 if ctx.quick else 4):
            case = {"kind": "history", "seed": int(rng.integers(0, 2**31 - 1)), "nops": 6,
                    "large": True}
            ctx.case(case, klass="history-large")
            execute(ctx, case)
    ctx.count("symbolic_link_entries", _LINKS[0])
    ctx.count("tap_load", tap.counts["load"])


def replay(ctx, case):
    ctx.case(case)
    execute(ctx, case)
