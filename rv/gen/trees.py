"""Seeded tree generators.

A *recipe* is a small JSON dict that determines a tree completely:
    {"shape": "binary", "n": 17, "numbering": "perm", "geom": "growth", "types": "soma",
     "extras": 1, "seed": 123}
``spec_from_recipe`` turns it into numpy columns, ``build`` into a swcgeom Tree.  Replay files
store recipes, so a case re-executes on a changed tree too.
"""

from __future__ import annotations

import numpy as np

SHAPES = [
    "single", "pair", "chain", "star", "caterpillar", "recursive", "binary", "neuron",
    "stem", "broom", "highdeg", "bamboo",
]
GEOMS = ["growth", "gauss", "far", "int", "quarter", "tiny", "big", "coincident", "axis",
         "plane"]
# "pythag" (not in the default pool): every node sits at an integer multiple of an integer vector
# of integer norm from the root, so every radial distance is an exact small integer in float32
PYTHAG = [(1, 0, 0, 1), (3, 4, 0, 5), (1, 2, 2, 3), (2, 3, 6, 7), (1, 4, 8, 9), (4, 4, 7, 9),
          (2, 6, 9, 11), (6, 6, 7, 11)]
TYPES = ["soma", "random", "nonsoma"]
SPECIAL_SIZES = [3, 4, 5, 7, 8, 9, 10, 15, 16, 17, 20, 31, 32, 33, 50, 63, 64, 65, 100, 127, 128, 129,
                 200, 255, 256, 257, 300]


def parent_array(rng, shape: str, n: int) -> np.ndarray:
    """Parent array in sorted numbering (pid[i] < i, root 0)."""
    n = max(1, int(n))
    if shape == "single":
        n = 1
    if shape == "pair":
        n = 2
    pid = np.full(n, -1, dtype=np.int64)
    if n == 1:
        return pid
    if shape in ("chain", "pair"):
        pid[1:] = np.arange(n - 1)
    elif shape == "star":
        pid[1:] = 0
    elif shape == "hub":  # a stem, then one interior node carrying all the rest
        pid[1] = 0
        pid[2:] = 1
        if n > 4:
            pid[n - 1] = n - 2  # (one of the hub's children continues)
    elif shape == "caterpillar":
        spine = max(1, n // 2)
        pid[1:spine] = np.arange(spine - 1)
        for i in range(spine, n):
            pid[i] = rng.integers(0, spine)
    elif shape == "recursive":
        for i in range(1, n):
            pid[i] = rng.integers(0, i)
    elif shape == "binary":
        # random binary tree: every node gets 0 or 2 children where possible
        open_ = [0]
        i = 1
        while i < n:
            if not open_:
                pid[i] = i - 1
                open_.append(i)
                i += 1
                continue
            k = open_.pop(int(rng.integers(0, len(open_))))
            if i + 1 < n:
                pid[i] = pid[i + 1] = k
                open_ += [i, i + 1]
                i += 2
            else:
                pid[i] = k
                i += 1
    elif shape == "neuron":
        # soma with k stems, each a random binary tree with pass-through runs
        k = int(rng.integers(2, 6))
        tips = []
        i = 1
        for _ in range(min(k, n - 1)):
            pid[i] = 0
            tips.append(i)
            i += 1
        while i < n:
            j = int(rng.integers(0, len(tips)))
            t = tips[j]
            if rng.random() < 0.7 or i + 1 >= n:  # elongate
                pid[i] = t
                tips[j] = i
                i += 1
            else:  # bifurcate
                pid[i] = pid[i + 1] = t
                tips[j] = i
                tips.append(i + 1)
                i += 2
    elif shape == "stem":
        # root with exactly one child: a stem of random length, then a random tree
        s = min(int(rng.integers(1, max(2, min(n, 12)))), n - 1)
        pid[1:s + 1] = np.arange(s)
        for i in range(s + 1, n):
            pid[i] = rng.integers(s, i)
    elif shape == "broom":
        h = max(1, (2 * n) // 3)
        pid[1:h] = np.arange(h - 1)
        pid[h:] = h - 1
    elif shape == "highdeg":
        hubs = [0]
        for i in range(1, n):
            if rng.random() < 0.1:
                pid[i] = hubs[int(rng.integers(0, len(hubs)))]
                hubs.append(i)
            else:
                pid[i] = hubs[int(rng.integers(0, len(hubs)))]
    elif shape == "bamboo":
        # long pass-through runs between rare bifurcations
        tips = [0]
        for i in range(1, n):
            j = int(rng.integers(0, len(tips)))
            pid[i] = tips[j]
            if rng.random() < 0.12:
                tips.append(i)
            else:
                tips[j] = i
    else:
        raise ValueError(shape)
    return pid


def permute_numbering(rng, pid: np.ndarray):
    """Random renumbering that keeps the root at 0. Returns (new_pid, old_of_new)."""
    n = len(pid)
    old_of_new = np.concatenate([[0], 1 + rng.permutation(n - 1)]).astype(np.int64)
    new_of_old = np.empty(n, dtype=np.int64)
    new_of_old[old_of_new] = np.arange(n)
    new_pid = np.where(pid[old_of_new] < 0, -1, new_of_old[np.maximum(pid[old_of_new], 0)])
    return new_pid.astype(np.int64), old_of_new


def positions(rng, pid_sorted: np.ndarray, geom: str) -> np.ndarray:
    """float64 positions for a tree in *sorted* numbering."""
    n = len(pid_sorted)
    if geom == "gauss":
        return rng.normal(0, 10, (n, 3))
    if geom == "far":
        return rng.normal(0, 10, (n, 3)) + rng.uniform(-1000, 1000, 3)
    if geom == "int":
        return rng.integers(-20, 21, (n, 3)).astype(float)
    if geom == "quarter":
        return rng.integers(-80, 81, (n, 3)) / 4.0
    if geom == "pythag":
        xyz = np.zeros((n, 3))
        xyz[0] = rng.integers(-8, 9, 3)
        for i in range(1, n):
            a, b, c, _ = PYTHAG[int(rng.integers(0, len(PYTHAG)))]
            v = np.array([a, b, c], dtype=float)[rng.permutation(3)] * rng.choice([-1, 1], 3)
            xyz[i] = xyz[0] + v * int(rng.integers(1, 5))
        return xyz
    xyz = np.zeros((n, 3))
    if geom in ("growth", "tiny", "micro", "big", "coincident"):
        # "micro" (not in the default pool): a morphology expressed in metres instead of microns
        scale = {"growth": 2.0, "tiny": 1e-3, "micro": 2e-6, "big": 1e3, "coincident": 2.0}[geom]
        xyz[0] = rng.normal(0, 5 * scale, 3)
        steps = rng.normal(0, scale, (n, 3))
        if geom == "coincident":
            steps[rng.random(n) < 0.3] = 0.0
        for i in range(1, n):
            xyz[i] = xyz[pid_sorted[i]] + steps[i]
        return xyz
    if geom == "plane":
        # a flat neuron in the plane y == z (both columns hold the same values)
        xyz = rng.normal(0, 10, (n, 3)) + rng.uniform(-30, 30, 3)
        xyz[:, 2] = xyz[:, 1]
        return xyz
    if geom == "axis":
        # axis-aligned integer steps: every segment length is an exact small integer in float32
        xyz[0] = rng.integers(-5, 6, 3)
        for i in range(1, n):
            step = np.zeros(3)
            step[int(rng.integers(0, 3))] = float(rng.integers(1, 5)) * (1 if rng.random() < .5 else -1)
            xyz[i] = xyz[pid_sorted[i]] + step
        return xyz
    raise ValueError(geom)


def real_files():
    """Real morphologies shipped with the repository (examples/data), parsed by the harness's own
    reader (not the library's): [(name, pid, type, xyz, r)] with parents before children."""
    import glob
    import os

    root = os.path.join(os.path.realpath(os.environ.get("RV_REPO", "/repo")), "examples", "data")
    out = []
    for path in sorted(glob.glob(os.path.join(root, "*.swc"))):
        rows = []
        with open(path, encoding="utf-8", errors="replace") as fh:
            for line in fh:
                t = line.split()
                if len(t) >= 7 and not t[0].startswith("#"):
                    rows.append((int(t[0]), int(t[1]), float(t[2]), float(t[3]), float(t[4]),
                                 float(t[5]), int(t[6])))
        if len(rows) < 2:
            continue
        idx = {r[0]: i for i, r in enumerate(rows)}
        pid = np.array([idx[r[6]] if r[6] != -1 else -1 for r in rows], dtype=np.int64)
        if (pid >= np.arange(len(rows))).any() or (pid == -1).sum() != 1 or pid[0] != -1:
            continue  # only single-rooted, parent-first files serve as seeds
        out.append((os.path.basename(path), pid, np.array([r[1] for r in rows]),
                    np.array([r[2:5] for r in rows]), np.array([r[5] for r in rows])))
    return out


def spec_from_recipe(rc: dict) -> dict:
    if rc.get("shape") == "real":
        return _real_spec(rc)
    rng = np.random.default_rng(int(rc["seed"]))
    pid = parent_array(rng, rc["shape"], rc["n"])
    n = len(pid)
    xyz = positions(rng, pid, rc.get("geom", "growth"))
    r = np.exp(rng.normal(0, 0.6, n)) * 0.8
    tk = rc.get("types", "soma")
    if tk == "soma":
        typ = rng.choice([2, 3, 4], size=n)
        typ[0] = 1
    elif tk == "nonsoma":
        typ = rng.choice([2, 3, 4], size=n)
        typ[0] = int(rng.choice([0, 2, 3, 5]))
    else:
        typ = rng.choice([0, 1, 2, 3, 4, 5, 6, 7, 9], size=n)
    # subtree-coherent types for "soma": children inherit with prob .8
    if tk in ("soma", "nonsoma"):
        for i in range(1, n):
            if pid[i] != 0 and rng.random() < 0.8:
                typ[i] = typ[pid[i]]
    tag = np.arange(n, dtype=np.int64)  # identity of every node
    if rc.get("numbering", "sorted") == "perm" and n > 2:
        pid, old_of_new = permute_numbering(rng, pid)
        xyz, r, typ, tag = xyz[old_of_new], r[old_of_new], typ[old_of_new], tag[old_of_new]
    spec = {
        "pid": pid.astype(np.int32),
        "type": typ.astype(np.int32),
        "x": xyz[:, 0].astype(np.float32),
        "y": xyz[:, 1].astype(np.float32),
        "z": xyz[:, 2].astype(np.float32),
        "r": r.astype(np.float32),
        "tag": tag.astype(np.int32),
    }
    for k in range(int(rc.get("extras", 0))):
        if k % 2 == 0:
            spec[f"e{k}"] = (tag * 7 + 3 + k).astype(np.int32)
        else:
            spec[f"e{k}"] = (tag * 0.25 + 0.5 + k).astype(np.float32)
    if rc.get("big_extra"):
        # a per-node 64-bit label (segment ids of a connectome, nanosecond time stamps): values that
        # no float64 holds exactly
        spec["e9"] = tag.astype(np.int64) * 3 + (2**60 + 1)
    if int(rc.get("extras", 0)) >= 2 and int(rc["seed"]) % 3 == 0:
        # a per-node column kept twice under two names (e.g. a raw and a working copy)
        spec["e1"] = spec["e0"].copy()
    return spec


def _real_spec(rc: dict) -> dict:
    rng = np.random.default_rng(int(rc["seed"]))
    files = {f[0]: f for f in real_files()}
    name, pid, typ, xyz, r = files[rc["file"]]
    n = len(pid)
    r = np.where(r > 0, r, 0.1)
    tag = np.arange(n, dtype=np.int64)
    if rc.get("numbering", "sorted") == "perm":
        pid, old_of_new = permute_numbering(rng, pid)
        xyz, r, typ, tag = xyz[old_of_new], r[old_of_new], typ[old_of_new], tag[old_of_new]
    spec = {"pid": pid.astype(np.int32), "type": typ.astype(np.int32),
            "x": xyz[:, 0].astype(np.float32), "y": xyz[:, 1].astype(np.float32),
            "z": xyz[:, 2].astype(np.float32), "r": r.astype(np.float32),
            "tag": tag.astype(np.int32)}
    return spec


def real_recipes(rng, max_n=None):
    """One recipe per usable example file (sorted and permuted numbering alternate)."""
    out = []
    for name, pid, *_ in real_files():
        if max_n is not None and len(pid) > max_n:
            continue
        out.append({"shape": "real", "file": name, "n": int(len(pid)), "geom": "real",
                    "numbering": str(rng.choice(["sorted", "perm"])), "types": "file",
                    "extras": 0, "seed": int(rng.integers(0, 2**31 - 1))})
    return out


def _spec_hash(spec: dict) -> int:
    import hashlib

    h = hashlib.sha1()
    for k in ("pid", "x", "r"):
        if k in spec:
            h.update(np.ascontiguousarray(spec[k]).tobytes())
    return int.from_bytes(h.digest()[:8], "little")


WARM_STATS = {"strided_layout": 0, "queried_before_use": 0, "other_input_dtypes": 0,
              "readonly_columns": 0, "one_array_as_two_columns": 0,
              "aborted_operations_before_use": 0, "made_by_another_library_function": 0,
              "derived_by_the_library_from_a_used_tree": 0, "branch_tree_instances": 0}


def warm(tree, h: int = 0xFFFF) -> None:
    """Read-only queries a caller may well have issued before handing the tree on (a result kept
    on the tree by one of them and not refreshed later would otherwise stay invisible).  They are
    not under test here: whatever they raise is ignored."""
    n = len(tree)
    qs = [
        lambda: tree.xyz(), lambda: tree.xyzr(), lambda: tree.xyzw(),
        lambda: tree.length() if n <= 3000 else None,
        lambda: tree.get_branches() if n <= 1500 else None,
        lambda: tree.get_paths() if n <= 300 else None,
        lambda: tree.get_tips(), lambda: tree.get_furcations() if n <= 3000 else None,
        lambda: tree.get_segments() if n <= 3000 else None,
        lambda: [tree.node(k).children() for k in {0, n // 2, n - 1}],
        lambda: [tree.node(k).xyz() for k in {0, n // 2, n - 1}],
        lambda: [tree.node(k).is_tip() for k in {0, n - 1}],
        lambda: tree.node(n - 1).parent(), lambda: tree.node(n // 2).branch() if n <= 1500 else None,
        lambda: tree.traverse(enter=lambda nd, p: 0) if n <= 20000 else None,
        lambda: tree.traverse(leave=lambda nd, ch: 0) if n <= 20000 else None,
        lambda: tree.soma(type_check=False).xyz(), lambda: len(list(tree)) if n <= 3000 else None,
        lambda: tree.get_adjacency_matrix() if n <= 1500 else None,
        lambda: tree.number_of_edges(), lambda: tree.shape, lambda: repr(tree),
        lambda: tree.get_neurites() if n <= 300 else None,
        lambda: tree.to_swc() if n <= 300 else None,
    ]
    for i, q in enumerate(qs):
        if (h >> (i % 48)) & 1:
            try:
                q()
            except Exception:
                pass
    WARM_STATS["queried_before_use"] += 1


class _Abort(Exception):
    pass


def abuse(tree, h: int = 0xFFFF) -> None:
    """Operations on the tree that *fail or are abandoned* before the tree is handed on: a
    traversal stopped by an exception from the caller's callback (an early-exit search), a
    traversal started below the root, a rejected option, an out-of-range index, an iterator left
    half-way.  A correct library is left exactly as it was; the exceptions are the caller's own."""
    n = len(tree)
    if n > 20000:
        return

    def stop_after(k):
        box = [0]

        def cb(*a):
            box[0] += 1
            if box[0] > k:
                raise _Abort()
            return box[0]
        return cb

    k1, k2 = 1 + (h >> 3) % max(1, n), (h >> 7) % max(1, n)
    ops = [
        lambda: tree.node(k2).traverse(enter=stop_after(1 + (h >> 11) % 3)),  # below the root
        lambda: tree.traverse(enter=stop_after(k1 // 2)),
        lambda: tree.traverse(leave=stop_after(k1 // 2)),
        lambda: tree.traverse(enter=stop_after(k1), leave=stop_after(k1 // 3)),
        lambda: tree.traverse(enter=lambda nd, p: 0, mode="bfs"),
        lambda: tree.traverse(enter=lambda nd, p: 0, root=n + 3),
        lambda: tree[n], lambda: tree.node(k2).traverse(leave=lambda nd, ch: 0),
        lambda: next(iter(tree)), lambda: tree.get_ndata("no such column"),
        lambda: tree.node(k2).subtree().traverse(enter=stop_after(0)),
    ]
    order = sorted(range(len(ops)), key=lambda i: (h >> (i + 2)) * 2654435761 % 1000003)
    for i in order[: 2 + (h % 4)]:
        try:
            ops[i]()
        except Exception:
            pass
    WARM_STATS["aborted_operations_before_use"] += 1


def _via_library(tree, route: int):
    """The same tree as the *output of another public function* of the library (a copy, the
    result of an identity transform, of an empty pruning, of from_data_frame): what callers
    usually hold.  It differs from a freshly constructed tree only incidentally (array ownership,
    strides, dtypes of id columns, whatever the function cached on the way).  Whether the route
    really reproduced the tree is verified here, by the harness; if it did not (a route that
    renumbers, or drops comments or extra columns for this tree) the fresh tree is used."""
    import warnings

    try:
        with warnings.catch_warnings():
            warnings.simplefilter("ignore")
            if route == 0:
                t2 = tree.copy()
            elif route == 1:
                from swcgeom.transforms import Translate

                t2 = Translate(0.0, 0.0, 0.0)(tree)
            elif route == 2:
                from swcgeom.core import to_subtree

                t2 = to_subtree(tree, [])
            else:
                import pandas as pd

                from swcgeom.core import Tree

                if set(tree.ndata) != {"id", "type", "x", "y", "z", "r", "pid"}:
                    return tree
                df = pd.DataFrame({k: np.array(v, copy=True) for k, v in tree.ndata.items()})
                t2 = Tree.from_data_frame(df, tree.source, comments=list(tree.comments))
    except Exception:
        return tree
    same = (type(t2) is type(tree) and set(t2.ndata) == set(tree.ndata)
            and all(t2.ndata[k].shape == tree.ndata[k].shape
                    and np.array_equal(t2.ndata[k], tree.ndata[k]) for k in tree.ndata)
            and list(t2.comments) == list(tree.comments) and t2.source == tree.source)
    if not same:
        return tree
    WARM_STATS["made_by_another_library_function"] += 1
    return t2


def as_branch_tree(tree):
    """The library's reduced form of ``tree`` (a BranchTree: root, furcations and tips joined by
    straight edges).  It *is* a Tree -- every function documented for trees applies to its own
    node table -- and carries extra state (the remembered original branches).  Returns
    (branch tree, spec of its own columns) or (None, None)."""
    import warnings

    try:
        with warnings.catch_warnings():
            warnings.simplefilter("ignore")
            from swcgeom.core import BranchTree

            bt = BranchTree.from_tree(tree)
    except Exception:
        return None, None
    if len(bt) < 2 or not np.array_equal(bt.ndata["id"], np.arange(len(bt))):
        return None, None
    WARM_STATS["branch_tree_instances"] += 1
    return bt, {k: np.array(v, copy=True) for k, v in bt.ndata.items() if k != "id"}


def derive(tree, spec: dict, h: int, *, float64_ok: bool = False):
    """A tree *derived by the library* from an already used one, together with its own node table.

    ``tree`` is queried first (so that anything the library keeps on a tree exists), then handed to
    one of the library's renumbering / re-linking functions -- sort_tree, redirect_tree, cat_tree
    with a coincident one-node second tree -- or, with ``float64_ok``, moved by a rigid
    AffineTransform given as a float64 matrix (the only way a tree gets float64 coordinates).
    The result is a different tree; the second return value is a spec made of *its own columns*
    (the caller's oracle then speaks about the tree as it is now, whatever produced it).
    Returns (tree, spec) unchanged when the route does not apply."""
    import warnings

    n = len(tree)
    if n < 2 or n > 3000:
        return tree, spec
    warm(tree, h | 0b111111110000)
    route = h % (4 if float64_ok else 3)
    try:
        with warnings.catch_warnings():
            warnings.simplefilter("ignore")
            if route == 0:
                from swcgeom.core import sort_tree

                t2 = sort_tree(tree)
            elif route == 1:
                from swcgeom.core import redirect_tree

                t2 = redirect_tree(tree, 1 + (h >> 3) % (n - 1), sort=True)
            elif route == 2:
                from swcgeom.core import Tree, cat_tree

                k = (h >> 3) % n
                one = Tree(1, **{c: np.array(tree.ndata[c][k:k + 1], copy=True)
                                 for c in tree.ndata if c not in ("id", "pid")})
                t2 = cat_tree(tree, one, k, 0, translate=False)  # merged: same nodes, renumbered
                if len(t2) != n:
                    return tree, spec
            else:
                from swcgeom.transforms import AffineTransform

                rng = np.random.default_rng(h % (2**32))
                q, _ = np.linalg.qr(rng.normal(size=(3, 3)))
                if np.linalg.det(q) < 0:
                    q[:, 0] = -q[:, 0]
                tm = np.eye(4)
                tm[:3, :3] = q
                tm[:3, 3] = rng.normal(0, 300, 3)
                t2 = AffineTransform(tm, center="origin")(tree)
    except Exception:
        return tree, spec
    spec2 = {k: np.array(v, copy=True) for k, v in t2.ndata.items() if k != "id"}
    if not np.array_equal(t2.ndata["id"], np.arange(len(t2))):
        return tree, spec
    WARM_STATS["derived_by_the_library_from_a_used_tree"] += 1
    return t2, spec2


def _narrow_int(a: np.ndarray, salt: int):
    """The same integers in another container / dtype a caller may hold them in."""
    lo, hi = int(a.min(initial=0)), int(a.max(initial=0))
    kinds = [np.int64, list]
    if -128 <= lo and hi <= 127:
        kinds += [np.int8]
    if 0 <= lo and hi <= 255:
        kinds += [np.uint8]
    if -32768 <= lo and hi <= 32767:
        kinds += [np.int16]
    if 0 <= lo and hi <= 65535:
        kinds += [np.uint16]
    k = kinds[salt % len(kinds)]
    return [int(v) for v in a] if k is list else a.astype(k)


def build(spec: dict, *, with_tag: bool = True, source: str = "", comments=None,
          plain: bool = False, frozen_ok: bool = False, share_ok: bool = True):
    """Build a swcgeom Tree from a spec (own copies of every array).

    Deterministically from the spec's content the columns are handed to the constructor in one of
    several *representations* of the same values: contiguous arrays of the library's own dtypes;
    strided views into one (n, 4) block (``Tree(n, x=xyz[:, 0], ...)``); other dtypes and
    containers (int64 / narrow ints / lists for id-like columns, float64 / lists for
    coordinates); one array object given for two columns that hold the same values (not for
    ``share_ok=False`` call sites, which write through handles and keep a shadow copy); read-only
    views (``frozen_ok`` call sites only: the harness itself never writes into those trees); or
    the tree is the output of another library function that reproduces it (``_via_library``).
    Every other tree is first queried read-only (``warm``), every third one first sees operations
    that fail or are abandoned (``abuse``)."""
    import os

    from swcgeom.core import Tree

    n = len(spec["pid"])
    kw = {k: np.array(v, copy=True) for k, v in spec.items() if with_tag or k != "tag"}
    plain = plain or bool(os.environ.get("RV_PLAIN_BUILD"))
    h = _spec_hash(spec)
    if plain:
        return Tree(n, source=source, comments=comments, **kw)
    layout = h % 4
    std = all(k in kw and kw[k].dtype == np.float32 for k in "xyzr")
    if layout == 1 and n >= 2 and std:
        block = np.stack([kw[k] for k in "xyzr"], axis=1)  # C order: columns are strided
        for j, k in enumerate("xyzr"):
            kw[k] = block[:, j]
        WARM_STATS["strided_layout"] += 1
    elif layout == 2 and n >= 1 and std and n <= 5000:
        for j, k in enumerate(("pid", "type")):
            if k in kw and kw[k].dtype == np.int32:
                kw[k] = _narrow_int(kw[k], (h >> (9 + 3 * j)) % 7)
        kw["id"] = _narrow_int(np.arange(n, dtype=np.int32), (h >> 15) % 7)
        for j, k in enumerate("xyzr"):  # float32 values are exact in float64 and as Python floats
            m = (h >> (18 + 2 * j)) % 3
            if m == 1:
                kw[k] = kw[k].astype(np.float64)
            elif m == 2:
                kw[k] = [float(v) for v in kw[k]]
        WARM_STATS["other_input_dtypes"] += 1
    if share_ok and std and n >= 2 and layout != 2:
        # columns with equal content handed over as one and the same array object
        names = [k for k in kw if isinstance(kw[k], np.ndarray) and k not in ("pid", "tag")]
        done = False
        for i, a in enumerate(names):
            for b in names[i + 1:]:
                if (not done and kw[a] is not kw[b] and kw[a].dtype == kw[b].dtype
                        and kw[a].strides == kw[b].strides and np.array_equal(kw[a], kw[b])):
                    kw[b] = kw[a]
                    done = True
        if done:
            WARM_STATS["one_array_as_two_columns"] += 1
    if frozen_ok and (h >> 24) % 5 == 0:
        for k, v in kw.items():
            if isinstance(v, np.ndarray):
                v.setflags(write=False)
        WARM_STATS["readonly_columns"] += 1
    tree = Tree(n, source=source, comments=comments, **kw)
    if layout == 3 and n >= 1:
        tree = _via_library(tree, (h >> 12) % 4)
    if (h >> 5) % 3 == 0:
        abuse(tree, h >> 6)
    if (h >> 2) % 2:
        warm(tree, h >> 3)
    return tree


def random_recipe(rng, *, max_n=40, shapes=None, geoms=None, numbering=None, types=None,
                  extras=None) -> dict:
    shapes = shapes or SHAPES
    shape = str(rng.choice(shapes))
    n = int(rng.integers(1, max_n + 1))
    u_ = rng.random()
    if u_ < 0.2:
        # sizes on and next to powers of two / typical block sizes: uniformly drawn sizes hit
        # them too rarely for a defect that needs exactly such a size to show
        c_ = [v for v in SPECIAL_SIZES if v <= max_n]
        if c_:
            n = int(c_[int(rng.integers(0, len(c_)))])
    elif u_ < 0.215 and max_n >= 150:
        n = int(rng.choice([511, 512, 513, 1000, 1023, 1024, 1025]))
    if shape == "single":
        n = 1
    elif shape == "pair":
        n = 2
    else:
        n = max(n, 3)
    return {
        "shape": shape,
        "n": n,
        "numbering": numbering if numbering is not None else str(rng.choice(["sorted", "perm"])),
        "geom": str(rng.choice(geoms or GEOMS)),
        "types": types if types is not None else str(rng.choice(TYPES)),
        "extras": int(rng.integers(0, 3)) if extras is None else extras,
        "seed": int(rng.integers(0, 2**31 - 1)),
    }


SWEEP_SMALL = [255, 256, 257, 511, 512, 513, 1023, 1024, 1025, 1026, 2047, 2048, 2049, 2050, 4095,
               4096, 4097, 8191, 8192, 8193]
SWEEP_LARGE = [16384, 32767, 32768, 32769, 46341, 50000, 65535, 65536, 65537, 70000, 100000]


def sweep_recipes(ctx, *, max_small=8193, large=0, shapes=None, numbering=None, extras=0,
                  geoms=None):
    """Recipes at sizes uniformly random cases practically never have: on and next to powers of two
    / typical block sizes (255 .. 8193), and -- ``large`` of them per run in the quick tier, all in
    the thorough tier -- big branched trees (16384 .. 100000 nodes: 16- and 32-bit products of ids
    and sizes overflow there).  This shard's share only."""
    sizes = [n for n in SWEEP_SMALL if n <= max_small]
    if large:
        # quick tier: always one tree beyond 65 536 nodes, the others rotate with the seed
        big = SWEEP_LARGE if not ctx.quick else (
            [70000 if ctx.seed % 2 == 0 else 100000]
            + [SWEEP_LARGE[(ctx.seed * 3 + 7 * j + 4) % (len(SWEEP_LARGE) - 2)]
               for j in range(large - 1)])
        sizes += [n for n in big if n not in sizes]
    shapes = shapes or ["recursive", "binary", "neuron", "caterpillar", "bamboo"]
    out = []
    for j, n in enumerate(sizes):
        if j % ctx.nshards != ctx.shard:
            continue
        out.append({"shape": shapes[(j + ctx.seed) % len(shapes)], "n": int(n),
                    "numbering": numbering or ("perm" if (j + ctx.seed) % 3 else "sorted"),
                    "geom": (geoms or ["growth"])[(j + ctx.seed) % len(geoms or ["growth"])],
                    "types": "soma", "extras": int(extras),
                    "seed": int(derive_seed_(ctx.seed, j, n))})
    return out


def derive_seed_(*parts) -> int:
    import hashlib

    h = hashlib.sha256("|".join(str(p) for p in parts).encode()).digest()
    return int.from_bytes(h[:4], "little") % (2**31 - 1)


def size_ladder(ctx, k: int, small=12, mid=60, large=300):
    """Mostly small trees first (so first violations are small), some larger ones."""
    u = ctx.rng.random()
    if k < 40 or u < 0.5:
        return small
    if u < 0.9:
        return mid
    return large


# ------------------------------------------------------------------ re-entrant use (round 11)
NESTED_STATS = {"calls_from_inside_a_traversal": 0}


def host_tree(seed: int = 0, n: int = 11):
    """A small well-formed tree of another shape than (almost) anything under test, to be walked
    while the library is called from its callbacks."""
    from swcgeom.core import Tree

    rng = np.random.default_rng(seed)
    pid = np.array([-1] + [int(rng.integers(max(0, i - 3), i)) for i in range(1, n)], dtype=np.int32)
    xyz = rng.normal(0, 5, (n, 3)).astype(np.float32)
    return Tree(n, pid=pid, x=xyz[:, 0], y=xyz[:, 1], z=xyz[:, 2],
                r=np.full(n, 1.0, dtype=np.float32),
                type=np.array([1] + [3] * (n - 1), dtype=np.int32))


def inside_traversal(fn, host=None, at=None):
    """Call ``fn()`` from inside the callbacks of a traversal that is in progress over ``host``
    (once from the enter callback of node ``at``, once from its leave callback), as user code that
    computes something per visited node does.  Returns ``(enter_result, leave_result, problem)``:
    ``problem`` describes how the *outer* walk departed from structural recursion (it must not:
    every node entered once with its parent's value, left once with its children's values)."""
    host = host_tree() if host is None else host
    n = host.number_of_nodes()
    pid = np.array(host.pid())
    kids = {}
    for c, p in enumerate(pid):
        kids.setdefault(int(p), []).append(c)
    at = n // 2 if at is None else at
    out, seen, left, problems = {}, [], [], []

    def enter(node, pv):
        i = int(node.id)
        seen.append(i)
        want = None if pid[i] < 0 else int(pid[i])
        if pv != want and not problems:
            problems.append(f"enter(node {i}) received {pv!r}, its parent's value is {want!r}")
        if i == at:
            out["enter"] = fn()
        return i

    def leave(node, vals):
        i = int(node.id)
        left.append(i)
        if sorted(vals) != sorted(kids.get(i, [])) and not problems:
            problems.append(f"leave(node {i}) received {sorted(vals)!r}, its children returned "
                            f"{sorted(kids.get(i, []))!r}")
        if i == at:
            out["leave"] = fn()
        return i

    try:
        ret = host.traverse(enter=enter, leave=leave)
    except Exception as e:  # the outer walk itself broke down
        problems.append(f"the outer traversal raised {type(e).__name__}: {str(e)[:120]}")
        ret = 0
    NESTED_STATS["calls_from_inside_a_traversal"] += 2
    if not problems and (sorted(seen) != list(range(n)) or sorted(left) != list(range(n)) or ret != 0):
        problems.append(f"the outer traversal entered {len(seen)} and left {len(left)} of {n} nodes "
                        f"(returned {ret!r})")
    return out.get("enter"), out.get("leave"), (problems[0] if problems else None)


# ------------------------------------------------------------------ custom column names (round 12)
RENAMED_STATS = {"operations_compared_under_custom_column_names": 0}
STD_KEYS = ("id", "type", "x", "y", "z", "r", "pid")


def custom_names(level: int = 0):
    """Column names other than the defaults (the library's ``names=`` / SWCNames mechanism):
    level 0 renames the geometry / type columns only, level 1 every column."""
    from swcgeom.core.swc_utils import SWCNames

    if level < 0:
        return SWCNames()
    if level == 0:
        return SWCNames(type="T", x="X", y="Y", z="Z", r="R")
    return SWCNames(id="n", type="T", x="X", y="Y", z="Z", r="R", pid="parent")


def renamed(tree, level: int = 0):
    """The same tree (same values, same extra columns, comments, source) held under custom column
    names."""
    from swcgeom.core import Tree

    nm, old = custom_names(level), tree.names
    kw = {getattr(nm, k): np.array(tree.get_ndata(getattr(old, k))) for k in STD_KEYS}
    for k in tree.keys():
        if k not in old.cols():
            kw[k] = np.array(tree.get_ndata(k))
    return Tree(tree.number_of_nodes(), names=nm, source=tree.source,
                comments=list(tree.comments), **kw)


def plain_columns(tree) -> dict:
    """Standard-key view of any tree's columns (through its own names) plus its extra columns;
    raises ValueError if the tree carries stray columns under the *default* names although its
    own names differ (a half-renamed result)."""
    nm = tree.names
    out = {k: np.asarray(tree.get_ndata(getattr(nm, k))) for k in STD_KEYS}
    for k in tree.keys():
        if k in nm.cols():
            continue
        if k in STD_KEYS:
            raise ValueError(f"the result has a stray column {k!r} next to its own {getattr(nm, k)!r}")
        out["extra:" + k] = np.asarray(tree.get_ndata(k))
    return out


def _same(a, b, path="result"):
    from swcgeom.core.swc import SWCLike

    if isinstance(a, SWCLike) or isinstance(b, SWCLike):
        if not (isinstance(a, SWCLike) and isinstance(b, SWCLike)):
            return f"{path}: {type(a).__name__} with default names, {type(b).__name__} with custom names"
        try:
            ca, cb = plain_columns(a), plain_columns(b)
        except ValueError as e:
            return f"{path}: {e}"
        if sorted(ca) != sorted(cb):
            return f"{path}: columns {sorted(cb)} instead of {sorted(ca)}"
        for k in ca:
            if ca[k].shape != cb[k].shape or not np.array_equal(ca[k], cb[k], equal_nan=ca[k].dtype.kind == "f"):
                return f"{path}: column {k!r} differs"
        return None
    if isinstance(a, np.ndarray) or isinstance(b, np.ndarray):
        a_, b_ = np.asarray(a), np.asarray(b)
        if a_.shape != b_.shape:
            return f"{path}: shape {b_.shape} instead of {a_.shape}"
        ok = np.array_equal(a_, b_, equal_nan=True) if a_.dtype.kind not in "fc" else \
            np.allclose(a_, b_, rtol=1e-6, atol=0, equal_nan=True)
        return None if ok else f"{path}: values differ"
    if isinstance(a, (list, tuple)) and isinstance(b, (list, tuple)):
        if len(a) != len(b):
            return f"{path}: {len(b)} items instead of {len(a)}"
        for i, (x, y) in enumerate(zip(a, b)):
            r = _same(x, y, f"{path}[{i}]")
            if r:
                return r
        return None
    if isinstance(a, dict) and isinstance(b, dict):
        if sorted(a) != sorted(b):
            return f"{path}: keys differ"
        for k in a:
            r = _same(a[k], b[k], f"{path}[{k!r}]")
            if r:
                return r
        return None
    if isinstance(a, (float, np.floating)) or isinstance(b, (float, np.floating)):
        fa, fb = float(a), float(b)
        ok = (fa != fa and fb != fb) or abs(fa - fb) <= 1e-6 * max(abs(fa), abs(fb))
        return None if ok else f"{path}: {fb!r} instead of {fa!r}"
    return None if a == b else f"{path}: {b!r} instead of {a!r}"


def same_under_renaming(op, *trees, level: int = 0):
    """Differential oracle for the ``names=`` mechanism: ``op`` on the given (default-named) trees
    and on twins holding the same values under custom column names must agree -- result trees
    column by column (read through their own names, which must be the twins' names), numbers to
    1e-6.  Returns None, or a description of the disagreement.  The default-named run is the one
    the check's own oracle decides; if it raises, nothing is compared."""
    try:
        # (both sides are rebuilt through the constructor, which casts to the library's column
        # dtypes: the comparison is between two trees that differ in their column names only)
        ref = op(*[renamed(t, -1) for t in trees])
    except Exception:
        RENAMED_STATS["default_named_run_raised_nothing_compared"] = \
            RENAMED_STATS.get("default_named_run_raised_nothing_compared", 0) + 1
        return None
    twins = [renamed(t, level) for t in trees]
    RENAMED_STATS["operations_compared_under_custom_column_names"] += 1
    try:
        got = op(*twins)
    except Exception as e:
        return f"raised {type(e).__name__}: {str(e)[:100]} on trees with custom column names " \
               f"{tuple(custom_names(level))}"
    from swcgeom.core.swc import SWCLike

    if isinstance(got, SWCLike) and tuple(got.names) != tuple(twins[0].names):
        return f"result carries column names {tuple(got.names)}, the input had {tuple(twins[0].names)}"
    r = _same(ref, got)
    return None if r is None else f"with custom column names {tuple(custom_names(level))}: {r}"


# ------------------------------------------------------------------ user subclasses (round 12)
def voxel_twin(tree, scale: float = 0.25):
    """A user subclass of Tree that stores its geometry in voxel units and reports physical units
    through ``get_ndata`` (the accessor every node, ``xyz()``, ``r()`` ... goes through): the same
    neuron as ``tree`` for every read-only use.  (``scale`` a power of two: bit-exact.)"""
    from swcgeom.core import Tree

    class VoxelTree(Tree):
        def get_ndata(self, key):
            v = super().get_ndata(key)
            nm = self.names
            if key in (nm.x, nm.y, nm.z, nm.r):
                return v * np.float32(scale)
            return v

    nm = tree.names
    kw = {k: np.array(tree.get_ndata(k)) for k in tree.keys()}
    for k in (nm.x, nm.y, nm.z, nm.r):
        kw[k] = (kw[k] / np.float32(scale)).astype(np.float32)
    return VoxelTree(tree.number_of_nodes(), names=nm, source=tree.source,
                     comments=list(tree.comments), **kw)


# ------------------------------------------------------------------ hostile callers (round 13)
HOSTILE_STATS = {"returned_values_overwritten_by_the_caller": 0}


def scribble(v):
    """Overwrite, in place, a value the library handed out (arrays get other numbers, lists are
    reversed and shortened): what a caller does who normalises / sorts / trims its result."""
    if isinstance(v, np.ndarray):
        if v.flags.writeable and v.size:
            if v.dtype.kind in "fc":
                v *= -3.0
                v += 11.0
            elif v.dtype.kind in "iu":
                v += 5
            if v.ndim == 1 and v.size > 1:
                v[:] = v[::-1].copy()
            HOSTILE_STATS["returned_values_overwritten_by_the_caller"] += 1
    elif isinstance(v, list):
        for x in v:
            scribble(x)
        v.reverse()
        if v:
            v.pop()
        HOSTILE_STATS["returned_values_overwritten_by_the_caller"] += 1
    elif isinstance(v, dict):
        for x in v.values():
            scribble(x)


class HostileCaller:
    """Wraps a library object: every method result is handed to the check as a private deep copy,
    and the object the library itself returned is then overwritten in place.  On a library that
    returns fresh values (or copies of what it keeps) nothing changes for later calls."""

    def __init__(self, obj):
        self._obj = obj

    def __getattr__(self, name):
        import copy

        attr = getattr(self._obj, name)
        if not callable(attr):
            return attr

        def call(*a, **k):
            v = attr(*a, **k)
            mine = copy.deepcopy(v)
            scribble(v)
            return mine

        return call


# ------------------------------------------------------------------ ambient state (round 14)
AMBIENT_STATS = {"calls_repeated_under_another_ambient_state": 0,
                 "calls_that_raised_under_another_ambient_state": 0}
AMBIENT_KINDS = ("errstate-raise", "warnings-as-errors", "print-options", "gc-off", "other-cwd",
                 "low-recursion-limit")


def ambient(kind: str):
    """Context manager: process-global state a caller may legitimately have set."""
    import contextlib
    import gc
    import os
    import sys
    import tempfile
    import warnings

    @contextlib.contextmanager
    def cm():
        if kind == "errstate-raise":
            with np.errstate(all="raise"):
                yield
        elif kind == "warnings-as-errors":
            with warnings.catch_warnings():
                warnings.simplefilter("error")
                yield
        elif kind == "print-options":
            import pandas as pd

            old = np.get_printoptions()
            np.set_printoptions(precision=2, threshold=4, suppress=True, floatmode="fixed")
            try:
                with pd.option_context("display.precision", 2, "display.max_rows", 4):
                    yield
            finally:
                np.set_printoptions(**old)
        elif kind == "gc-off":
            was = gc.isenabled()
            gc.disable()
            try:
                yield
            finally:
                if was:
                    gc.enable()
        elif kind == "other-cwd":
            old = os.getcwd()
            d = tempfile.mkdtemp(prefix="rv-cwd-")
            os.chdir(d)
            try:
                yield
            finally:
                os.chdir(old)
                try:
                    os.rmdir(d)
                except OSError:
                    pass
        elif kind == "low-recursion-limit":
            old = sys.getrecursionlimit()
            depth = len(__import__("inspect").stack(0))
            sys.setrecursionlimit(depth + 120)
            try:
                yield
            finally:
                sys.setrecursionlimit(old)
        else:
            yield

    return cm()


def same_under_ambient(op, kinds=AMBIENT_KINDS, pick=None):
    """``op()`` under the default ambient state and again under other process-global states a
    caller may have set (numpy error state, warnings as errors, print options, garbage collector
    off, another working directory, a low recursion limit): whenever the call *returns*, it returns
    the same thing.  A call that raises under the other state is counted, not judged (with
    warnings turned into errors or numpy told to raise, a raise can be what the caller asked for).
    Returns None or a description."""
    try:
        ref = op()
    except Exception:
        return None
    todo = kinds if pick is None else [kinds[pick % len(kinds)]]
    for kind in todo:
        AMBIENT_STATS["calls_repeated_under_another_ambient_state"] += 1
        try:
            with ambient(kind):
                got = op()
        except (DeprecationWarning, PendingDeprecationWarning, FutureWarning) as e:
            # not a warning about the caller's data: the library itself uses something deprecated,
            # and a valid call fails for every caller who runs with warnings as errors
            return (f"under ambient state '{kind}' the call fails with {type(e).__name__}: "
                    f"{str(e)[:120]} (raised from the library's own code)")
        except Exception as e:
            AMBIENT_STATS["calls_that_raised_under_another_ambient_state"] += 1
            k_ = "raised_under_ambient:" + kind + ":" + type(e).__name__
            AMBIENT_STATS[k_] = AMBIENT_STATS.get(k_, 0) + 1
            continue
        r = _same(ref, got)
        if r:
            return f"under ambient state '{kind}': {r}"
    return None
