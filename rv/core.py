"""Runner, verdict discipline and evidence writer shared by all checks.

One check = one module ``rv.checks.cXX`` exposing

    PROPERTY   : "C07"
    LEVEL      : "exploration" | ...
    RULE       : str, how cases are generated / what makes one non-trivial
    ASSUMPTIONS: list[str]
    REQUIRED   : list[str]  counters (monitor evaluation counts) that must be > 0
    FLOOR      : {"quick": int, "thorough": int} minimum distinct non-trivial cases
    SHARDS     : {"quick": int, "thorough": int}
    run(ctx)   : executes this shard's share of the workload, reporting through ctx
    replay(ctx, case) : re-executes exactly one recorded case

Verdicts are three valued: violated (exit 1, VIOLATION line + replay file), held on
everything explored (exit 0) and inconclusive (exit 2: a deciding monitor was never
reached, a shard died or timed out, too few cases).  Nothing is folded.
"""

from __future__ import annotations

import argparse
import hashlib
import importlib
import json
import os
import subprocess
import sys
import time
import traceback
from collections import Counter

VERIF = os.path.dirname(os.path.dirname(os.path.abspath(__file__)))
REPO = os.path.realpath(os.environ.get("RV_REPO", "/repo"))
MAX_VIOL_PER_SHARD = 40
MAX_SAMPLES = 6


class Inconclusive(Exception):
    """Raised by a check when a case cannot be decided (counted, never a verdict)."""


def bootstrap_repo() -> None:
    """Make ``import swcgeom`` resolve to RV_REPO and nothing else."""
    sys.dont_write_bytecode = True
    _install_fresh_loader()
    if REPO not in sys.path:
        sys.path.insert(0, REPO)  # before the editable-install finder
    deps = os.path.join(VERIF, ".deps")
    if os.path.isdir(deps) and deps not in sys.path:
        sys.path.append(deps)  # appended: must never shadow /venv packages
    import swcgeom  # noqa

    f = os.path.realpath(swcgeom.__file__)
    if not f.startswith(REPO + os.sep):
        raise RuntimeError(f"swcgeom imported from {f}, expected under {REPO}")


_FRESH = False


def _install_fresh_loader() -> None:
    """Always compile the repository's sources afresh (never trust a .pyc under the repo:
    a same-second, same-size edit would otherwise be invisible to the import system)."""
    global _FRESH
    if _FRESH:
        return
    _FRESH = True
    from importlib.machinery import FileFinder, SourceFileLoader

    class FreshLoader(SourceFileLoader):
        def get_code(self, fullname):
            path = self.get_filename(fullname)
            return self.source_to_code(self.get_data(path), path)

    def hook(path):
        rp = os.path.realpath(path)
        if rp == REPO or rp.startswith(REPO + os.sep):
            return FileFinder(path, (FreshLoader, [".py"]))
        raise ImportError

    sys.path_hooks.insert(0, hook)
    sys.path_importer_cache.clear()


def ensure_deps() -> None:
    """Offline install of icontract into /verif/.deps when absent (idempotent)."""
    deps = os.path.join(VERIF, ".deps")
    if os.path.isdir(os.path.join(deps, "icontract")):
        return
    cmd = [
        sys.executable, "-m", "pip", "install", "-q", "--no-index",
        "--find-links", "/opt/veriftools/wheels", "--target", deps,
        "icontract",
    ]
    subprocess.run(cmd, check=False, stdout=subprocess.DEVNULL, stderr=subprocess.DEVNULL,
                   timeout=300)


def derive_seed(*parts) -> int:
    h = hashlib.sha256("|".join(str(p) for p in parts).encode()).digest()
    return int.from_bytes(h[:8], "little")


def canon(obj) -> str:
    return json.dumps(obj, sort_keys=True, separators=(",", ":"), default=_jsonable)


def _jsonable(o):
    import numpy as np

    if isinstance(o, np.ndarray):
        return o.tolist()
    if isinstance(o, np.generic):
        return o.item()
    if isinstance(o, (set, frozenset)):
        return sorted(o)
    if isinstance(o, bytes):
        return o.hex()
    return repr(o)


def short_hash(obj) -> str:
    return hashlib.sha1(canon(obj).encode()).hexdigest()[:16]


class Ctx:
    """Per-shard collector handed to a check's ``run``."""

    def __init__(self, prop: str, tier: str, seed: int, shard: int, nshards: int):
        import numpy as np

        self.prop, self.tier, self.seed = prop, tier, seed
        self.shard, self.nshards = shard, nshards
        self.rng = np.random.default_rng(derive_seed(seed, prop, tier, shard))
        self.evaluations = 0
        self.distinct: set[str] = set()
        self.counters: Counter = Counter()
        self.classes: Counter = Counter()
        self.violations: list[dict] = []
        self.n_violations = 0
        self.inconclusive: Counter = Counter()
        self.samples: list = []
        self.t0 = time.time()

    # -- bookkeeping -----------------------------------------------------
    @property
    def quick(self) -> bool:
        return self.tier == "quick"

    def scale(self, quick: int, thorough: int) -> int:
        """Per-shard share of a tier-wide budget."""
        total = quick if self.quick else thorough
        return max(1, -(-total // self.nshards))

    def sub_seed(self, *parts) -> int:
        return derive_seed(self.seed, self.prop, self.tier, self.shard, *parts) % (2**31)

    def case(self, desc, nontrivial: bool = True, klass: str | None = None) -> None:
        """Register one executed case. ``desc`` must identify the input (JSON-able)."""
        self.evaluations += 1
        if klass:
            self.classes[klass] += 1
        if nontrivial:
            self.distinct.add(short_hash(desc))
        if len(self.samples) < MAX_SAMPLES and nontrivial:
            s = canon(desc)
            if len(s) < 1500:
                self.samples.append(json.loads(s))

    def count(self, name: str, k: int = 1) -> None:
        self.counters[name] += k

    def skip(self, reason: str, k: int = 1) -> None:
        self.inconclusive[reason] += k

    def violation(self, mechanism: str, detail: str, case) -> None:
        self.n_violations += 1
        if len(self.violations) < MAX_VIOL_PER_SHARD:
            self.violations.append(
                {"mechanism": mechanism, "detail": detail[:2000], "case": json.loads(canon(case))}
            )

    def dump(self) -> dict:
        return {
            "evaluations": self.evaluations,
            "distinct": sorted(self.distinct),
            "counters": dict(self.counters),
            "classes": dict(self.classes),
            "violations": self.violations,
            "n_violations": self.n_violations,
            "inconclusive": dict(self.inconclusive),
            "samples": self.samples,
            "wall_s": time.time() - self.t0,
        }


def _anchor_coverage(prop, tier, results) -> dict:
    """Statement lines of the property's anchored files that this run executed (RV_COVERAGE=1).
    The per-line detail goes to out/coverage/<prop>-<tier>.json."""
    from rv import probes

    hits: dict[str, set] = {}
    for r in results.values():
        for f, lines in r.get("line_hits", {}).items():
            hits.setdefault(f, set()).update(lines)
    anchors = []
    with open(os.path.join(VERIF, "properties.jsonl")) as fh:
        for line in fh:
            p = json.loads(line)
            if p["id"] == prop:
                anchors = p["anchors"].get("files", [])
    out, detail = {}, {}
    for rel in anchors:
        path = os.path.join(REPO, rel)
        if not os.path.exists(path):
            continue
        stm = probes.statement_lines(path)
        h = hits.get(path, set()) & stm
        out[rel] = f"{len(h)}/{len(stm)} statement lines executed"
        detail[rel] = {"missed": sorted(stm - h)}
    d = os.path.join(VERIF, "out", "coverage")
    os.makedirs(d, exist_ok=True)
    with open(os.path.join(d, f"{prop}-{tier}.json"), "w") as fh:
        json.dump(detail, fh)
    with open(os.path.join(d, f"{prop}-{tier}-hits.json"), "w") as fh:
        json.dump({os.path.relpath(f, REPO): sorted(v) for f, v in hits.items()}, fh)
    return out


def load_known() -> list[dict]:
    p = os.path.join(VERIF, "known_findings.json")
    if not os.path.exists(p):
        return []
    with open(p) as f:
        return json.load(f).get("findings", [])


def _module(prop: str):
    return importlib.import_module(f"rv.checks.{prop.lower()}")


def run_shard(prop, tier, seed, shard, nshards, out):
    bootstrap_repo()
    mod = _module(prop)
    ctx = Ctx(prop, tier, seed, shard, nshards)
    status = "ok"
    cov = None
    if os.environ.get("RV_COVERAGE"):
        from rv import probes

        cov = probes.LineCoverage([os.path.join(REPO, "swcgeom") + os.sep]).start()
    try:
        mod.run(ctx)
    except Exception:  # a crash of the harness itself is never a verdict
        status = "harness-error"
        ctx.counters["harness_errors"] += 1
        tb = traceback.format_exc().strip().splitlines()
        ctx.inconclusive["harness_error: " + tb[-1][:200] + " @ " + " | ".join(
            l.strip() for l in tb[-7:-1])[:600]] += 1
    gen = sys.modules.get("rv.gen.trees")
    if gen is not None:  # how many generated trees were strided / queried before use
        for k, v in gen.WARM_STATS.items():
            if v:
                ctx.counters["trees_" + k] += v
        for stats in ("NESTED_STATS", "RENAMED_STATS", "HOSTILE_STATS", "AMBIENT_STATS"):
            for k, v in getattr(gen, stats, {}).items():
                if v:
                    ctx.counters[k] += v
    if not __debug__:
        ctx.counters["shards_run_with_asserts_stripped"] += 1
    if os.environ.get("RV_ASCII_LOCALE"):
        import locale

        ctx.counters["shards_run_with_preferred_encoding_" + locale.getpreferredencoding(False)] += 1
    d = ctx.dump()
    d["status"] = status
    if cov is not None:
        d["line_hits"] = cov.stop()
    with open(out, "w") as f:
        json.dump(d, f, default=_jsonable)


def write_replay(prop: str, v: dict) -> str:
    d = os.path.join(VERIF, "out", "replays", prop)
    os.makedirs(d, exist_ok=True)
    name = f"{_slug(v['mechanism'])}-{short_hash(v['case'])}.json"
    path = os.path.join(d, name)
    with open(path, "w") as f:
        json.dump({"property": prop, **v}, f, indent=1, default=_jsonable)
    return os.path.relpath(path, VERIF)


def _slug(s: str) -> str:
    return "".join(c if c.isalnum() or c in "-_" else "_" for c in s)[:60]


def main(argv=None) -> int:
    ap = argparse.ArgumentParser(prog="check")
    ap.add_argument("property")
    ap.add_argument("--tier", default=os.environ.get("VERIF_TIER", "quick"),
                    choices=["quick", "thorough"])
    ap.add_argument("--seed", type=int, default=int(os.environ.get("VERIF_SEED", "0") or 0))
    ap.add_argument("--shard", type=int, default=None)
    ap.add_argument("--nshards", type=int, default=None)
    ap.add_argument("--shard-out", default=None)
    ap.add_argument("--replay", default=None)
    ap.add_argument("--jobs", type=int, default=int(os.environ.get("RV_JOBS", "16")))
    a = ap.parse_args(argv)
    prop = a.property.upper()

    if a.shard is not None:
        run_shard(prop, a.tier, a.seed, a.shard, a.nshards, a.shard_out)
        return 0

    ensure_deps()
    if a.replay:
        return do_replay(prop, a.replay)
    return orchestrate(prop, a.tier, a.seed, a.jobs)


def do_replay(prop: str, path: str) -> int:
    bootstrap_repo()
    mod = _module(prop)
    with open(path if os.path.isabs(path) else os.path.join(VERIF, path)) as f:
        rec = json.load(f)
    ctx = Ctx(prop, "quick", 0, 0, 1)
    mod.replay(ctx, rec["case"])
    if ctx.n_violations:
        for v in ctx.violations:
            print(f"REPLAY violated: [{v['mechanism']}] {v['detail']}")
        print(f"VIOLATION property={prop} replay={path}")
        return 1
    print(f"REPLAY held: property={prop} case no longer violates "
          f"(evaluations={ctx.evaluations}, inconclusive={dict(ctx.inconclusive)})")
    return 0


def orchestrate(prop: str, tier: str, seed: int, jobs: int) -> int:
    t0 = time.time()
    # import only metadata here (no swcgeom import needed in the parent)
    sys.path.insert(0, VERIF) if VERIF not in sys.path else None
    bootstrap_repo()
    mod = _module(prop)
    nshards = mod.SHARDS[tier]
    timeout = getattr(mod, "TIMEOUT", {"quick": 240, "thorough": 3000})[tier]
    outdir = os.path.join(VERIF, "out", "shards", f"{prop}-{tier}-{seed}-{os.getpid()}")
    os.makedirs(outdir, exist_ok=True)
    env = dict(os.environ)
    env["PYTHONDONTWRITEBYTECODE"] = "1"
    # every shard runs under its own (reproducible) string-hash seed, so that a dependence on set /
    # dict iteration order shows in some shard; an explicit PYTHONHASHSEED of the caller wins
    vary_hash = "PYTHONHASHSEED" not in os.environ
    env["PYTHONPATH"] = VERIF + (os.pathsep + env["PYTHONPATH"] if env.get("PYTHONPATH") else "")
    for k in ("OMP_NUM_THREADS", "OPENBLAS_NUM_THREADS", "MKL_NUM_THREADS"):
        env.setdefault(k, "1")

    procs, pending = [], list(range(nshards))
    results, dead = {}, {}
    running: list[tuple[int, subprocess.Popen, float, str, object]] = []
    while pending or running:
        while pending and len(running) < jobs:
            k = pending.pop(0)
            out = os.path.join(outdir, f"shard{k}.json")
            log = open(os.path.join(outdir, f"shard{k}.log"), "w")
            cmd = [sys.executable, "-m", "rv.check", prop, "--tier", tier, "--seed", str(seed),
                   "--shard", str(k), "--nshards", str(nshards), "--shard-out", out]
            if nshards > 1 and k == nshards - 1:
                # one shard of every run executes the library the way `python -O` /
                # PYTHONOPTIMIZE=1 does (assert statements stripped): a legitimate way to run it
                cmd.insert(1, "-O")
            if vary_hash:
                env["PYTHONHASHSEED"] = str(derive_seed(seed, prop, "hash", k) % 4294967295)
            env_k = env
            if nshards > 2 and k == nshards - 2:
                # one shard of every run executes under the C locale without UTF-8 mode: the
                # preferred encoding of open() is then ASCII (a plain `LC_ALL=C` job on a cluster)
                env_k = dict(env, LC_ALL="C", LANG="C", PYTHONUTF8="0", PYTHONCOERCECLOCALE="0",
                             RV_ASCII_LOCALE="1")
            p = subprocess.Popen(cmd, cwd=VERIF, env=env_k, stdout=log, stderr=subprocess.STDOUT)
            running.append((k, p, time.time(), out, log))
        time.sleep(0.05)
        for item in list(running):
            k, p, ts, out, log = item
            rc = p.poll()
            if rc is None:
                if time.time() - ts > timeout:
                    p.kill()
                    p.wait()
                    dead[k] = f"watchdog: shard {k} exceeded {timeout}s (inconclusive)"
                    running.remove(item)
                    log.close()
                continue
            running.remove(item)
            log.close()
            if rc != 0 or not os.path.exists(out):
                tail = ""
                try:
                    with open(os.path.join(outdir, f"shard{k}.log")) as f:
                        tail = f.read()[-800:]
                except OSError:
                    pass
                dead[k] = f"shard {k} exited {rc}: {tail}"
            else:
                with open(out) as f:
                    results[k] = json.load(f)

    # ---- aggregate ------------------------------------------------------
    evaluations = sum(r["evaluations"] for r in results.values())
    distinct = set()
    counters, classes, inconc = Counter(), Counter(), Counter()
    violations, samples, n_viol = [], [], 0
    for k in sorted(results):
        r = results[k]
        distinct.update(r["distinct"])
        counters.update(r["counters"])
        classes.update(r["classes"])
        inconc.update(r["inconclusive"])
        violations.extend(r["violations"])
        n_viol += r["n_violations"]
        for s in r["samples"]:
            if len(samples) < MAX_SAMPLES:
                samples.append(s)
    for k, msg in dead.items():
        inconc[msg] += 1

    anchor_cov = None
    if any("line_hits" in r for r in results.values()):
        anchor_cov = _anchor_coverage(prop, tier, results)

    known = [k for k in load_known() if k.get("property") == prop]
    open_known = {k["mechanism"]: k for k in known if k.get("status") == "open"}
    new_viol, known_hits = [], Counter()
    for v in violations:
        if v["mechanism"] in open_known:
            known_hits[v["mechanism"]] += 1
        else:
            new_viol.append(v)

    required = list(getattr(mod, "REQUIRED", []))
    missing = [c for c in required if counters.get(c, 0) <= 0]
    floor = getattr(mod, "FLOOR", {"quick": 2, "thorough": 2})[tier]
    reasons = []
    if dead:
        reasons.append(f"{len(dead)} shard(s) died or timed out")
    if counters.get("harness_errors"):
        reasons.append(f"{counters['harness_errors']} harness error(s)")
    if missing:
        reasons.append("deciding monitor(s) never evaluated: " + ", ".join(missing))
    if len(distinct) < floor:
        reasons.append(f"only {len(distinct)} distinct non-trivial cases (< floor {floor})")

    wall = time.time() - t0
    coverage = {
        "evaluations": int(evaluations),
        "distinct_nontrivial": len(distinct),
        "rule": mod.RULE,
        "samples": samples if samples else [{"note": "no sample recorded"}],
        "monitor_counters": dict(sorted(counters.items())),
        "case_classes": dict(sorted(classes.items())),
        "inconclusive_cases": {k[:600]: v for k, v in sorted(inconc.items())},
        "shards": nshards,
        "shards_completed": len(results),
        "exhaustive": bool(getattr(mod, "EXHAUSTIVE", {}).get(tier, False)),
        "repo_root": REPO,
        "verdict": "violated" if new_viol else ("inconclusive" if reasons else "held"),
        "inconclusive_reasons": reasons,
        "known_findings_observed": dict(known_hits),
    }
    if anchor_cov is not None:
        coverage["anchor_line_coverage"] = anchor_cov
    ev = {
        "property_id": prop,
        "tier": tier,
        "seed": seed,
        "level": mod.LEVEL,
        "coverage": coverage,
        "assumptions": list(mod.ASSUMPTIONS),
        "wall_s": round(wall, 3),
        "violations": int(len(new_viol)),
    }
    if REPO == "/repo":  # evidence is only ever written for the real tree
        os.makedirs(os.path.join(VERIF, "evidence"), exist_ok=True)
        with open(os.path.join(VERIF, "evidence", f"{prop}.json"), "w") as f:
            json.dump(ev, f, indent=1, default=_jsonable)
            f.write("\n")

    # ---- report ---------------------------------------------------------
    print(f"[{prop}] tier={tier} seed={seed} repo={REPO} shards={len(results)}/{nshards} "
          f"evaluations={evaluations} distinct_nontrivial={len(distinct)} wall={wall:.1f}s")
    show = {k: v for k, v in sorted(counters.items())}
    print(f"[{prop}] monitors: {json.dumps(show)}")
    if classes:
        print(f"[{prop}] classes: {json.dumps(dict(sorted(classes.items())))}")
    if inconc:
        print(f"[{prop}] inconclusive cases: "
              f"{json.dumps({k[:500]: v for k, v in sorted(inconc.items())})}")
    for mech, k in open_known.items():
        print(f"KNOWN-FINDING: property={prop} {mech}: {k.get('what', '')} "
              f"(observed {known_hits.get(mech, 0)} time(s) in this run)")
    if new_viol:
        seen = set()
        for v in new_viol:
            path = write_replay(prop, v)
            if v["mechanism"] in seen and len(seen) > 12:
                continue
            seen.add(v["mechanism"])
            print(f"[{prop}] violated [{v['mechanism']}]: {v['detail'][:400]}")
            print(f"VIOLATION property={prop} replay={path}")
        print(f"[{prop}] {n_viol} violating observation(s) in total")
        return 1
    if reasons:
        print(f"INCONCLUSIVE property={prop}: " + "; ".join(reasons))
        for msg in dead.values():
            print(f"[{prop}] {msg[:600]}")
        return 2
    print(f"[{prop}] HELD on everything explored")
    # clean shard files of a good run
    try:
        import shutil

        shutil.rmtree(outdir, ignore_errors=True)
    except Exception:
        pass
    return 0
