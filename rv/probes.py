"""Source-free probes on the real code objects (sys.monitoring, Python 3.12).

* CallTap     — counts PY_START of chosen code objects (cannot be bypassed by a
                pre-bound ``from m import f`` reference, unlike a wrapper).
* ReturnTap   — records (args of interest, return value) of chosen code objects.
* StepBudget  — logical step budget over all code of chosen modules: a LINE counter that
                raises StepBudgetExceeded from the callback, so divergence is decided on
                logical steps, reproducibly, not on wall clock.
"""

from __future__ import annotations

import sys
import types
from collections import Counter

mon = sys.monitoring
E = mon.events

TOOL_TAP = 3
TOOL_BUDGET = 4


class StepBudgetExceeded(BaseException):
    """BaseException on purpose: library code that catches Exception must not swallow it."""


def code_objects_of(obj) -> list[types.CodeType]:
    """All code objects (nested ones included) of a function / class / module."""
    out, seen = [], set()

    def add_code(c):
        if id(c) in seen:
            return
        seen.add(id(c))
        out.append(c)
        for k in c.co_consts:
            if isinstance(k, types.CodeType):
                add_code(k)

    def visit(o, depth=0):
        if isinstance(o, (staticmethod, classmethod, types.MethodType)):
            o = o.__func__
        if isinstance(o, property):
            for f in (o.fget, o.fset, o.fdel):
                if f is not None:
                    visit(f, depth)
            return
        if isinstance(o, types.FunctionType):
            add_code(o.__code__)
            w = getattr(o, "__wrapped__", None)
            if w is not None:
                visit(w, depth)
        elif isinstance(o, type) and depth < 3:
            for v in vars(o).values():
                visit(v, depth + 1)
        elif isinstance(o, types.ModuleType):
            for v in vars(o).values():
                if getattr(v, "__module__", None) == o.__name__:
                    visit(v, depth + 1)

    visit(obj)
    return out


def _claim(tool: int, name: str) -> None:
    if mon.get_tool(tool) is None:
        mon.use_tool_id(tool, name)


class CallTap:
    """Count entries into the given functions; ``counts[label]``."""

    def __init__(self, targets: dict[str, object]):
        _claim(TOOL_TAP, "rv-tap")
        self.counts: Counter = Counter()
        self._label = {}
        for label, fn in targets.items():
            for c in code_objects_of(fn)[:1]:
                self._label[c] = label
        self._on = False

    def __enter__(self):
        mon.register_callback(TOOL_TAP, E.PY_START, self._start)
        for c in self._label:
            mon.set_local_events(TOOL_TAP, c, E.PY_START)
        self._on = True
        return self

    def _start(self, code, offset):
        lab = self._label.get(code)
        if lab is not None:
            self.counts[lab] += 1

    def __exit__(self, *a):
        for c in self._label:
            mon.set_local_events(TOOL_TAP, c, 0)
        mon.register_callback(TOOL_TAP, E.PY_START, None)
        self._on = False
        return False


class StepBudget:
    """Logical step budget: counts LINE events in all code of ``scopes`` and raises
    StepBudgetExceeded once ``budget`` is exceeded."""

    def __init__(self, scopes):
        _claim(TOOL_BUDGET, "rv-budget")
        self.codes = []
        for s in scopes:
            self.codes.extend(code_objects_of(s))
        self.steps = 0
        self.budget = 0
        self.active = False

    def install(self):
        mon.register_callback(TOOL_BUDGET, E.LINE, self._line)
        for c in self.codes:
            mon.set_local_events(TOOL_BUDGET, c, E.LINE)
        return self

    def uninstall(self):
        for c in self.codes:
            mon.set_local_events(TOOL_BUDGET, c, 0)
        mon.register_callback(TOOL_BUDGET, E.LINE, None)

    def _line(self, code, line):
        if not self.active:
            return None
        self.steps += 1
        if self.steps > self.budget:
            self.active = False
            raise StepBudgetExceeded(f"more than {self.budget} line events")
        return None

    def run(self, budget: int, fn, *args, **kw):
        """Run fn under a budget of ``budget`` line events; returns (result, steps)."""
        self.steps, self.budget, self.active = 0, int(budget), True
        try:
            r = fn(*args, **kw)
        finally:
            self.active = False
        return r, self.steps


TOOL_RET = 2


class ReturnTap:
    """Record PY_RETURN (and RAISE) events of chosen code objects.

    ``records[label]`` is a list of ``extract(frame_locals, retval)`` results (capped);
    ``raises[label]`` counts RAISE events seen inside the code object (exceptions *raised or
    passing through* the frame).
    """

    def __init__(self, targets: dict[str, object], extract=None, cap: int = 100000):
        _claim(TOOL_RET, "rv-ret")
        self._label = {}
        for label, fn in targets.items():
            for c in code_objects_of(fn)[:1]:
                self._label[c] = label
        self.records: dict[str, list] = {lab: [] for lab in targets}
        self.raises: Counter = Counter()
        self.returns: Counter = Counter()
        self.extract = extract or (lambda loc, rv: rv)
        self.cap = cap

    def __enter__(self):
        mon.register_callback(TOOL_RET, E.PY_RETURN, self._ret)
        mon.register_callback(TOOL_RET, E.RAISE, self._raise)
        for c in self._label:
            mon.set_local_events(TOOL_RET, c, E.PY_RETURN)
        mon.set_events(TOOL_RET, E.RAISE)  # RAISE cannot be enabled per code object in 3.12
        return self

    def _ret(self, code, offset, retval):
        lab = self._label.get(code)
        if lab is None:
            return
        self.returns[lab] += 1
        if len(self.records[lab]) < self.cap:
            try:
                loc = sys._getframe(1).f_locals
                self.records[lab].append(self.extract(loc, retval))
            except Exception:  # a probe must never disturb the program
                pass

    def _raise(self, code, offset, exc):
        lab = self._label.get(code)
        if lab is not None:
            self.raises[lab] += 1

    def __exit__(self, *a):
        for c in self._label:
            mon.set_local_events(TOOL_RET, c, 0)
        mon.set_events(TOOL_RET, 0)
        mon.register_callback(TOOL_RET, E.PY_RETURN, None)
        mon.register_callback(TOOL_RET, E.RAISE, None)
        return False


TOOL_COV = 1


class LineCoverage:
    """Which statement lines of the given source files were executed (LINE events that return
    DISABLE after the first hit, so every line costs one callback per process)."""

    def __init__(self, path_prefixes):
        _claim(TOOL_COV, "rv-cov")
        self.prefixes = tuple(path_prefixes)
        self.hit: dict[str, set[int]] = {}

    def start(self):
        mon.register_callback(TOOL_COV, E.LINE, self._line)
        mon.set_events(TOOL_COV, E.LINE)
        return self

    def _line(self, code, line):
        f = code.co_filename
        if f.startswith(self.prefixes):
            self.hit.setdefault(f, set()).add(line)
        return mon.DISABLE

    def stop(self):
        mon.set_events(TOOL_COV, 0)
        mon.register_callback(TOOL_COV, E.LINE, None)
        return {f: sorted(v) for f, v in self.hit.items()}


def statement_lines(path):
    """Line numbers that can produce a LINE event (first line of every statement inside a
    function or at module level), excluding docstrings."""
    import ast

    with open(path) as fh:
        tree = ast.parse(fh.read())
    lines = set()
    for fn in ast.walk(tree):
        if not isinstance(fn, (ast.FunctionDef, ast.AsyncFunctionDef)):
            continue
        for node in ast.walk(fn):
            if node is fn or not isinstance(node, ast.stmt):
                continue
            if isinstance(node, (ast.FunctionDef, ast.AsyncFunctionDef, ast.ClassDef)):
                continue
            if isinstance(node, ast.Expr) and isinstance(getattr(node, "value", None), ast.Constant) \
                    and isinstance(node.value.value, str):
                continue
            if isinstance(node, ast.Raise) and "NotImplementedError" in ast.dump(node):
                continue
            lines.add(node.lineno)
    return lines
