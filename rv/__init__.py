"""rv — runtime-verification machinery for the 20 swcgeom properties (see /verif/DESIGN.md)."""
