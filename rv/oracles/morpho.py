"""Reference morphometrics written from the textbook definitions, float64, from (pid, xyz) only.

Nothing here calls the library.  Used by C10 (value comparison) and C11 (near-threshold
classification of Sholl radii).
"""

from __future__ import annotations

import numpy as np

from rv.oracles import topo


class Ref:
    def __init__(self, pid, xyz):
        self.pid = np.asarray(pid)
        self.X = np.asarray(xyz, dtype=np.float64)
        self.n = len(self.pid)
        self.ch = topo.children_lists(self.pid)
        self.root = int(np.nonzero(self.pid == -1)[0][0])
        self.d = np.linalg.norm(self.X - self.X[self.root], axis=1)  # radial distances
        self.seglen = np.array([np.linalg.norm(self.X[i] - self.X[p]) if p >= 0 else 0.0
                                for i, p in enumerate(self.pid)])
        # path distance to the root and number of furcations on the root path (inclusive)
        self.pathdist = np.zeros(self.n)
        self.order = np.zeros(self.n, dtype=int)
        self.ntips = np.zeros(self.n, dtype=int)
        stack = [self.root]
        visit = []
        self.order[self.root] = int(len(self.ch[self.root]) >= 2)
        while stack:
            v = stack.pop()
            visit.append(v)
            for c in self.ch[v]:
                self.pathdist[c] = self.pathdist[v] + self.seglen[c]
                self.order[c] = self.order[v] + int(len(self.ch[c]) >= 2)
                stack.append(c)
        for v in reversed(visit):
            self.ntips[v] = 1 if not self.ch[v] else sum(self.ntips[c] for c in self.ch[v])
        self.branches = topo.branches(self.pid)
        self.paths = topo.paths(self.pid)
        self.tips = [i for i, c in enumerate(self.ch) if not c]
        self.furcations = [i for i, c in enumerate(self.ch) if len(c) >= 2]

    # ---- sums
    def length(self):
        return float(self.seglen.sum())

    def chain_length(self, ids):
        ids = list(ids)
        return float(sum(np.linalg.norm(self.X[a] - self.X[b]) for a, b in zip(ids[:-1], ids[1:])))

    def straight(self, ids):
        return float(np.linalg.norm(self.X[ids[0]] - self.X[ids[-1]]))

    def tortuosity(self, ids):
        L = self.chain_length(ids)
        return 1.0 if L == 0 else self.straight(ids) / L

    # ---- branch-tree depth of the critical nodes (root 0, +1 per branch)
    def critical_depth(self):
        depth = {self.root: 0}
        by_start = {}
        for b in self.branches:
            by_start.setdefault(b[0], []).append(b)
        stack = [self.root]
        while stack:
            v = stack.pop()
            for b in by_start.get(v, []):
                depth[b[-1]] = depth[v] + 1
                stack.append(b[-1])
        return depth

    # ---- Sholl: segments with one end within r (<= r) and the other beyond (> r)
    def sholl(self, r):
        cnt = 0
        for i, p in enumerate(self.pid):
            if p >= 0:
                a, b = self.d[p], self.d[i]
                if (a <= r < b) or (b <= r < a):
                    cnt += 1
        return cnt

    def sholl_margin(self, r):
        """Smallest |d_v - r| over all nodes (how close r is to a decision threshold)."""
        return float(np.abs(self.d - r).min())

    # ---- bifurcation geometry
    def remote(self, c):
        while len(self.ch[c]) == 1:
            c = self.ch[c][0]
        return c

    @staticmethod
    def angle_deg(a, b):
        na, nb = np.linalg.norm(a), np.linalg.norm(b)
        if na == 0 or nb == 0:
            return None
        return float(np.degrees(np.arccos(np.clip(np.dot(a, b) / (na * nb), -1, 1))))
