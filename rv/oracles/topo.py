"""Independent topology reference (children lists from the parent array only)."""

from __future__ import annotations

import numpy as np


def children_lists(pid) -> list[list[int]]:
    ch = [[] for _ in range(len(pid))]
    for i, p in enumerate(pid):
        if p >= 0:
            ch[int(p)].append(i)
    return ch


def descendants(ch, start: int) -> list[int]:
    """start and everything below it (iterative)."""
    out, stack = [], [start]
    while stack:
        v = stack.pop()
        out.append(v)
        stack.extend(ch[v])
    return out


def well_formed(ids, pid) -> str | None:
    """None if (ids, pid) is a well-formed single-rooted tree with id == position, root 0;
    otherwise a description of the first defect."""
    ids, pid = np.asarray(ids), np.asarray(pid)
    n = len(ids)
    if len(pid) != n:
        return f"id has {n} entries, pid {len(pid)}"
    if n == 0:
        return "empty tree"
    if not np.array_equal(ids, np.arange(n)):
        bad = int(np.nonzero(ids != np.arange(n))[0][0])
        return f"id[{bad}] = {ids[bad]} != position"
    if pid[0] != -1:
        return f"pid[0] = {pid[0]}, node 0 is not a root"
    roots = np.nonzero(pid == -1)[0]
    if len(roots) != 1:
        return f"{len(roots)} roots at {roots[:5].tolist()}"
    if ((pid[1:] < 0) | (pid[1:] >= n)).any():
        bad = 1 + int(np.nonzero((pid[1:] < 0) | (pid[1:] >= n))[0][0])
        return f"pid[{bad}] = {pid[bad]} names no node"
    # every node reaches the root: count nodes reachable from 0 via children lists
    ch = children_lists(pid)
    if len(descendants(ch, 0)) != n:
        return "some node does not reach the root (cycle)"
    return None


def depth_of(pid) -> np.ndarray:
    """Depth of every node (root 0) for a well-formed parent array, any numbering."""
    n = len(pid)
    ch = children_lists(pid)
    d = np.zeros(n, dtype=np.int64)
    root = int(np.nonzero(np.asarray(pid) == -1)[0][0])
    stack = [root]
    while stack:
        v = stack.pop()
        for c in ch[v]:
            d[c] = d[v] + 1
            stack.append(c)
    return d


def critical_nodes(pid) -> tuple[int, list[int], list[int]]:
    """(root, furcations, tips)."""
    ch = children_lists(pid)
    root = int(np.nonzero(np.asarray(pid) == -1)[0][0])
    fur = [i for i, c in enumerate(ch) if len(c) >= 2]
    tips = [i for i, c in enumerate(ch) if len(c) == 0]
    return root, fur, tips


def branches(pid) -> list[tuple[int, ...]]:
    """Maximal chains between consecutive critical nodes, root side first."""
    ch = children_lists(pid)
    root = int(np.nonzero(np.asarray(pid) == -1)[0][0])
    out = []
    starts = [root] + [i for i, c in enumerate(ch) if len(c) >= 2 and i != root]
    for s in starts:
        for c in ch[s]:
            chain = [s, c]
            while len(ch[chain[-1]]) == 1:
                chain.append(ch[chain[-1]][0])
            out.append(tuple(chain))
    return out


def paths(pid) -> list[tuple[int, ...]]:
    """One root-to-tip path per tip."""
    pid = np.asarray(pid)
    ch = children_lists(pid)
    out = []
    for t in (i for i, c in enumerate(ch) if len(c) == 0):
        p = [t]
        while pid[p[-1]] >= 0:
            p.append(int(pid[p[-1]]))
        out.append(tuple(reversed(p)))
    return out


def is_sorted_numbering(pid) -> bool:
    pid = np.asarray(pid)
    return bool(np.all(pid < np.arange(len(pid))))
